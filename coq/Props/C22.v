(* C22 — catalog updates never disturb unrelated entries.
   Statements only; every proof is [exact <lemma from Proofs/CatTree*.v>].

   [abs c : (class x lower-cased name) -> option entry] is the flat view of the tree
   (walk the per-class tree along the reversed key), [wf_cat c] its representation
   invariant (duplicate-free child maps, every entry stored at the path spelled by
   its own name and class, node names, no childless node without an entry);
   [c22_reachable_wf] shows every catalog reachable from [new()] satisfies it.
   The payload type V of an entry (variant, zone, metadata) is arbitrary. *)
From QV Require Import Model.CatTree Spec.CatTreeS Proofs.CatTreeP Proofs.CatTreeInvP
  Proofs.CatTreeSP Proofs.CatTreeCatP Proofs.CatTreeSingleP.
From Coq Require Import Permutation.

(* insert: never panics, returns the previous entry of exactly that key, updates the
   flat map at exactly that key, keeps the invariant *)
Theorem c22_insert_refine : forall V (c : catalog V) e, wf_cat c ->
  exists c', cat_insert c e = Ok (c', abs c (key_of e_name e_class e)) /\
             (forall k, abs c' k = rm_insert e_name e_class (abs c) e k) /\ wf_cat c'.
Proof. exact cat_insert_refine. Qed.

(* remove (as repaired by the fix: commit): returns the entry of exactly that key and
   undefines exactly that key *)
Theorem c22_remove_refine : forall V (c : catalog V) nm cls, wf_cat c ->
  exists c', cat_remove c nm cls = Ok (c', abs c (cls, canon nm)) /\
             (forall k, abs c' k = rm_remove (abs c) (cls, canon nm) k) /\ wf_cat c'.
Proof. exact cat_remove_refine. Qed.

(* corollary, the title of the property: removing k never changes any k' <> k *)
Theorem c22_remove_local : forall V (c : catalog V) nm cls, wf_cat c ->
  exists c', cat_remove c nm cls = Ok (c', abs c (cls, canon nm)) /\ wf_cat c' /\
             abs c' (cls, canon nm) = None /\
             forall k', k' <> (cls, canon nm) -> abs c' k' = abs c k'.
Proof. exact cat_remove_local. Qed.

(* lookup: the entry of that class whose name is the longest suffix of the query *)
Theorem c22_lookup_refine : forall V (c : catalog V) nm cls,
  exists r, cat_lookup c nm cls = Ok r /\ rm_is_lookup (abs c) cls (canon nm) r.
Proof. exact cat_lookup_refine. Qed.

(* ... and that answer is unique (so "the" longest-suffix entry is well defined) *)
Theorem c22_lookup_unique : forall E ename eclass (m : refmap E) cls q r1 r2,
  rm_consistent ename eclass m -> rm_is_lookup m cls q r1 -> rm_is_lookup m cls q r2 -> r1 = r2.
Proof. exact rm_is_lookup_fun. Qed.

(* get (the trait's default: lookup filtered by label count): exactly that key *)
Theorem c22_get_refine : forall V (c : catalog V) nm cls, wf_cat c ->
  cat_get c nm cls = Ok (abs c (cls, canon nm)).
Proof. exact cat_get_refine. Qed.

(* iter: exactly the current entries, each once *)
Theorem c22_iter_refine : forall V (c : catalog V), wf_cat c ->
  rm_is_iter e_name e_class (abs c) (cat_iter c).
Proof. exact cat_iter_refine. Qed.

(* the flat view of a well-formed tree stores every entry at its own key *)
Theorem c22_abs_consistent : forall V (c : catalog V), wf_cat c -> rm_consistent e_name e_class (abs c).
Proof. exact abs_consistent. Qed.

(* every history, from the empty catalog: no step panics, and after EVERY step the result
   equals the reference map's (iterations as permutations), the states staying related *)
Theorem c22_history : forall V (h : list (cat_op V)),
  exists c xs, cat_run cat_new h = Ok (c, xs) /\
    sim c (fst (l_run e_name e_class [] (map op_spec h))) /\
    Forall2 (@r_out_equiv _) (map out_spec xs) (snd (l_run e_name e_class [] (map op_spec h))).
Proof. exact cat_history. Qed.

Theorem c22_reachable_wf : forall V (h : list (cat_op V)),
  exists c xs, cat_run cat_new h = Ok (c, xs) /\ wf_cat c.
Proof. exact cat_run_wf. Qed.

(* the executable reference map used as the oracle implements the specification *)
Theorem c22_oracle_insert : forall E ename eclass (m : lmap E) e, lm_ok ename eclass m ->
  lm_ok ename eclass (fst (l_insert ename eclass m e)) /\
  snd (l_insert ename eclass m e) = view ename eclass m (key_of ename eclass e) /\
  forall k, view ename eclass (fst (l_insert ename eclass m e)) k = rm_insert ename eclass (view ename eclass m) e k.
Proof. exact l_insert_spec. Qed.

Theorem c22_oracle_remove : forall E ename eclass (m : lmap E) k0, lm_ok ename eclass m ->
  lm_ok ename eclass (fst (l_remove ename eclass m k0)) /\
  snd (l_remove ename eclass m k0) = view ename eclass m k0 /\
  forall k, view ename eclass (fst (l_remove ename eclass m k0)) k = rm_remove (view ename eclass m) k0 k.
Proof. exact l_remove_spec. Qed.

Theorem c22_oracle_lookup : forall E ename eclass (m : lmap E) cls q, lm_ok ename eclass m ->
  rm_is_lookup (view ename eclass m) cls q (l_lookup ename eclass m cls q).
Proof. exact l_lookup_spec. Qed.

Theorem c22_oracle_iter : forall E ename eclass (m : lmap E), lm_ok ename eclass m ->
  rm_is_iter ename eclass (view ename eclass m) m.
Proof. exact l_iter_spec. Qed.

(* SingleZoneCatalog is the reference map holding exactly its entry *)
Theorem c22_single_get : forall V (e : entry V) nm cls,
  single_get e nm cls = rm_insert e_name e_class rm_empty e (cls, canon nm).
Proof. exact single_get_refine. Qed.

Theorem c22_single_lookup : forall V (e : entry V) nm cls,
  rm_is_lookup (rm_insert e_name e_class rm_empty e) cls (canon nm) (single_lookup e nm cls).
Proof. exact single_lookup_refine. Qed.

(* Regression witness about the code as pinned (before the fix: commit): with the old
   pruning test ([children.is_empty()] alone) inserting a., inserting b.a. and removing
   b.a. also deletes the entry of a. — a key different from the removed one changes. *)
Theorem c22_remove_local_refuted_prefix :
  exists c xs c',
    cat_run_gen false cat_new [OpInsert c22_parent; OpInsert c22_child] = Ok (c, xs) /\
    cat_remove_gen false c [[98%N]; [97%N]] 1%N = Ok (c', Some c22_child) /\
    (1%N, [[97%N]]) <> (1%N, canon [[98%N]; [97%N]]) /\
    abs c (1%N, [[97%N]]) = Some c22_parent /\ abs c' (1%N, [[97%N]]) = None.
Proof. exact remove_prefix_refuted. Qed.

(* Non-vacuity: the same history on the repaired code keeps a.; mixed case reaches the
   same entries; lookup of a deeper name finds the nearest ancestor. *)
Example c22_example :
  exists c xs,
    cat_run cat_new [OpInsert c22_parent; OpInsert c22_child; OpRemove [[66%N]; [65%N]] 1%N;
                     OpGet [[65%N]] 1%N; OpLookup [[120%N]; [98%N]; [97%N]] 1%N; OpIter] = Ok (c, xs) /\
    xs = [OutEntry None; OutEntry None; OutEntry (Some c22_child);
          OutEntry (Some c22_parent); OutEntry (Some c22_parent); OutIter [c22_parent]] /\
    wf_cat c.
Proof.
  eexists. eexists. split; [vm_compute; reflexivity|]. split; [reflexivity|].
  simpl. repeat split; try discriminate; try reflexivity;
    match goal with H : Some _ = Some _ |- _ => inversion H; subst; reflexivity end.
Qed.

Print Assumptions c22_insert_refine.
Print Assumptions c22_remove_refine.
Print Assumptions c22_remove_local.
Print Assumptions c22_lookup_refine.
Print Assumptions c22_lookup_unique.
Print Assumptions c22_get_refine.
Print Assumptions c22_iter_refine.
Print Assumptions c22_abs_consistent.
Print Assumptions c22_history.
Print Assumptions c22_reachable_wf.
Print Assumptions c22_oracle_insert.
Print Assumptions c22_oracle_remove.
Print Assumptions c22_oracle_lookup.
Print Assumptions c22_oracle_iter.
Print Assumptions c22_single_get.
Print Assumptions c22_single_lookup.
Print Assumptions c22_remove_local_refuted_prefix.
