(* C19 — RDATA equality is an equivalence and RRsets deduplicate by it.
   Statements only.  [equals] is the model of Rdata::equals WITH the repaired
   names_equal (fix: commit), dispatching through Gen/RdataTables.v; [equals_prefix] is
   the code before the repair; [spec_equals]/[nodup_by] are Spec/RdataEqS.v. *)
From QV Require Import Base.ListX Model.NameWire Model.RdataM Model.RdataSetM Spec.NameRepr
  Spec.RdataFormatS Spec.RdataEqS Proofs.RdNameEqP Proofs.RdataEqSP Proofs.RdataEqP Proofs.RdataSetP
  Proofs.RdataEqFullP Proofs.RdataNodupP.

(* The characterisation (octet equality, except that the names of the pre-RFC 3597
   name-bearing types compare label-wise without ASCII case when both RDATA are valid;
   octet-wise as soon as either is malformed) is an equivalence, for every class and type. *)
Theorem c19_spec_refl : forall c t a, spec_equals c t a a = true.
Proof. exact spec_equals_refl. Qed.
Theorem c19_spec_sym : forall c t a b, spec_equals c t a b = spec_equals c t b a.
Proof. exact spec_equals_sym. Qed.
Theorem c19_spec_trans : forall c t a b d,
  spec_equals c t a b = true -> spec_equals c t b d = true -> spec_equals c t a d = true.
Proof. exact spec_equals_trans. Qed.

(* The equals dispatcher re-extracted from the source sends exactly the RFC's
   case-insensitive (class, type)s to a name-aware handler, each with its RFC format,
   and every other (class, type) to the octet-wise comparison. *)
Theorem c19_dispatch : forall c t,
  match lookup equals_arms equals_default c t with
  | E_names_equal => ci_type c t = true /\ grammar c t = [FName]
  | E_equals_as_ch_a => ci_type c t = true /\ grammar c t = [FName; FBytes 2]
  | E_equals_as_soa => ci_type c t = true /\
      grammar c t = [FName; FName; FBytes 4; FBytes 4; FBytes 4; FBytes 4; FBytes 4]
  | E_equals_as_minfo => ci_type c t = true /\ grammar c t = [FName; FName]
  | E_equals_as_mx => ci_type c t = true /\ grammar c t = [FBytes 2; FName]
  | E_equals_as_in_srv => ci_type c t = true /\ grammar c t = [FBytes 2; FBytes 2; FBytes 2; FName]
  | E_bitwise => ci_type c t = false /\ True
  end.
Proof. exact dispatch_equals. Qed.

(* Name::eq on parsed names is label-wise case-insensitive equality. *)
Theorem c19_name_eq : forall la lb, valid_name la -> valid_name lb ->
  name_eq (name_of la) (name_of lb) = Ok (labels_ci_eqb la lb).
Proof. exact name_eq_spec. Qed.

(* The model of Rdata::equals IS the characterisation, for EVERY class and type and every
   pair of octet strings: the eight single-name types (names_equal, where the defect was),
   SOA and MINFO (test_n_name_fields with n = 2), MX and IN SRV (fixed prefix, then a name),
   CH A (a name, then 2 octets) and every octet-wise type.  In particular equals never
   panics (no slice, subtraction or label_at can fail) and always returns a boolean. *)
Theorem c19_char : forall c t a b, wf_bytes a -> wf_bytes b ->
  equals c t a b = Ok (spec_equals c t a b).
Proof. exact equals_char. Qed.

Theorem c19_total : forall c t a b, wf_bytes a -> wf_bytes b -> exists v, equals c t a b = Ok v.
Proof. exact equals_total. Qed.

(* Reflexive, symmetric, transitive ON THE MODEL, for every class and type. *)
Theorem c19_laws : forall c t,
  (forall a, wf_bytes a -> equals c t a a = Ok true) /\
  (forall a b, wf_bytes a -> wf_bytes b -> equals c t a b = equals c t b a) /\
  (forall a b d, wf_bytes a -> wf_bytes b -> wf_bytes d ->
     equals c t a b = Ok true -> equals c t b d = Ok true -> equals c t a d = Ok true).
Proof. exact equals_laws. Qed.

(* Octet-wise unless the type is one of the RFC's case-insensitive ones AND both RDATA are
   valid for its format: the fall-back of the property statement. *)
Theorem c19_octetwise : forall c t a b, wf_bytes a -> wf_bytes b ->
  ci_type c t && spec_valid c t a && spec_valid c t b = false ->
  equals c t a b = Ok (octets_eqb a b).
Proof. exact equals_octetwise. Qed.

(* RdataSetOwned::from_iter, for either byte order of the length prefix and every class and
   type, with no hypothesis on equals: the set is the encoding of nodup_by spec_equals (first
   member of each equality class, insertion order), iterating it returns exactly that
   list, and it is None iff there is no input. *)
Theorem c19_set : forall c t be rs, Forall small rs -> Forall wf_bytes rs ->
  from_iter be c t rs =
    Ok (match rs with [] => None | _ => Some (inner_of be (nodup_by (spec_equals c t) [] rs)) end) /\
  (forall inner, from_iter be c t rs = Ok (Some inner) ->
     set_iter be inner = nodup_by (spec_equals c t) [] rs).
Proof. exact set_full. Qed.

(* What "nodup_by spec_equals" means (so c19_set says what the property says): what an RRset
   keeps is a subsequence of the inputs (insertion order, nothing else), its members are pairwise
   unequal, every input has an equal member in it, and each kept member is the FIRST input of
   its equality class. *)
Theorem c19_set_meaning : forall c t l,
  let k := nodup_by (spec_equals c t) [] l in
  subseq k l /\ pairwise_ne (spec_equals c t) k /\
  (forall x, In x l -> exists y, In y k /\ spec_equals c t x y = true) /\
  (forall y, In y k -> exists pre post, l = pre ++ y :: post /\
                       forall z, In z pre -> spec_equals c t y z = false).
Proof.
  intros c t l.
  exact (nodup_by_meaning (spec_equals c t) (spec_equals_refl c t)
           (spec_equals_trans c t) l).
Qed.

(* RdataSetOwned::insert (src/rr/rdata_set.rs:135-146) on a set holding [kept]: the RDATA is
   appended, and `true` returned, iff no member equals it; iteration order is insertion order. *)
Theorem c19_insert : forall c t be kept r inner' flag,
  Forall small kept -> Forall wf_bytes kept -> small r -> wf_bytes r ->
  set_insert be c t (inner_of be kept) r = Ok (inner', flag) ->
  set_iter be inner' = (if flag then kept ++ [r] else kept) /\
  flag = negb (existsb (fun y => spec_equals c t r y) kept).
Proof. exact set_insert_iter. Qed.

(* Regression witness: the code before the fix: commit is not symmetric. *)
Theorem c19_sym_refuted_prefix :
  equals_prefix 1 2 [1; 97; 0]%N [1; 97; 0; 9]%N = Ok true /\
  equals_prefix 1 2 [1; 97; 0; 9]%N [1; 97; 0]%N = Ok false.
Proof. exact equals_prefix_asym. Qed.

(* Non-vacuity: CNAME "a." / "A." are equal without being identical, the repaired code
   treats the junk-suffixed name as different in both orders, and the set keeps the first. *)
Example c19_example :
  let a := [1; 97; 0]%N in let A := [1; 65; 0]%N in let j := [1; 97; 0; 9]%N in
  equals 1 5 a A = Ok true /\ spec_equals 1 5 a A = true /\
  equals 1 5 a j = Ok false /\ equals 1 5 j a = Ok false /\
  (exists inner, from_iter false 1 5 [a; A; j; a] = Ok (Some inner) /\ set_iter false inner = [a; j]).
Proof.
  cbv zeta. repeat split; try (vm_compute; reflexivity).
  eexists. split; vm_compute; reflexivity.
Qed.

(* Non-vacuity for the five multi-field handlers: SOA, MX, IN SRV, CH A, MINFO with names that
   differ only in letter case are equal; one octet of junk makes both RDATA invalid and the
   comparison octet-wise (unequal); a different fixed field makes them unequal. *)
Example c19_example_multi :
  let z20 := repeat 0%N 20 in
  equals 1 6 ([1;97;0; 1;98;0] ++ z20)%N ([1;65;0; 1;66;0] ++ z20)%N = Ok true /\
  equals 1 6 ([1;97;0; 1;98;0] ++ z20 ++ [0])%N ([1;65;0; 1;66;0] ++ z20 ++ [0])%N = Ok false /\
  equals 1 15 [0;10; 1;97;0]%N [0;10; 1;65;0]%N = Ok true /\
  equals 1 15 [0;10; 1;97;0]%N [0;11; 1;65;0]%N = Ok false /\
  equals 1 33 [0;1;0;2;0;3; 1;97;0]%N [0;1;0;2;0;3; 1;65;0]%N = Ok true /\
  equals 3 1 [1;97;0; 0;1]%N [1;65;0; 0;1]%N = Ok true /\
  equals 1 14 [1;97;0; 1;98;0]%N [1;65;0; 1;66;0]%N = Ok true /\
  equals 1 14 [1;97;0; 1;98;0; 9]%N [1;65;0; 1;66;0; 9]%N = Ok false.
Proof. cbv zeta. repeat split; vm_compute; reflexivity. Qed.

Print Assumptions c19_spec_refl.
Print Assumptions c19_spec_sym.
Print Assumptions c19_spec_trans.
Print Assumptions c19_dispatch.
Print Assumptions c19_name_eq.
Print Assumptions c19_char.
Print Assumptions c19_total.
Print Assumptions c19_laws.
Print Assumptions c19_octetwise.
Print Assumptions c19_set.
Print Assumptions c19_set_meaning.
Print Assumptions c19_insert.
Print Assumptions c19_sym_refuted_prefix.
