(* C19 — RDATA equality is an equivalence and RRsets deduplicate by it. *)
From QV Require Import Base.ListX Model.NameWire Model.RdataM Model.RdataSetM Spec.RdataFormatS Spec.RdataEqS.
