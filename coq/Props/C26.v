(* C26 — response rate limiting follows its token-bucket rule over time.
   Statements only; every proof is [exact <lemma from Proofs/RrlP.v>]. *)
From QV Require Import Base.Res Base.Octets Model.Rrl Spec.RrlBucketS Spec.RrlMixS Proofs.RrlP Proofs.RrlMixP.
Local Open Scope N_scope.

(* Parameters accepted by RrlParams::new (and changed through the setters) are well
   formed: rates, window, size >= 1 and every rate x window fits in a u32. *)
Theorem c26_params_wf : forall ne nx er w p, params_new ne nx er w = Ok p ->
  wf_params p /\
  (forall s, wf_params (set_slip p s)) /\
  (forall l p', set_ipv4_prefix_len p l = Ok p' -> wf_params p') /\
  (forall l p', set_ipv6_prefix_len p l = Ok p' -> wf_params p') /\
  (forall s p', set_size p s = Ok p' -> wf_params p').
Proof. exact params_wf_all. Qed.

(* MAIN: for every hash function, every well-formed configuration, every table state
   that can arise, and every history of one response stream — arbitrary request times
   (any gaps, in any order), arbitrary random draws — the model of process_response never
   panics and its send/slip/drop decisions are exactly those of the unbounded token bucket
   (capacity rate x window, rate tokens per WHOLE elapsed second, fraction kept), started
   from the bucket the table holds for the stream (none: a new full bucket). *)
Theorem c26_refines : forall (hname : bytes -> N) (hkey : key -> N) p c k h,
  wf_params p -> subject_to_rrl c = true -> key_of hname p c = Some k ->
  forall t, wf_table p t ->
  exists t' cs,
    run_history hname hkey p t c h = Ok (t', cs) /\
    cs = map (fun v => apply_action c (action_of_verdict v))
             (bucket_run (rate_of p (k_category k)) (p_window p) (p_slip p) (abs_bucket hkey p t k) h) /\
    wf_table p t'.
Proof. exact run_history_refines. Qed.

(* Mixed traffic: inside ANY history of requests (any streams, transports, opcodes, times),
   the decisions for the responses of stream k are those of k's token bucket over the
   sub-history of its own responses; responses of other streams either leave the bucket alone
   or, when the table puts them into the same slot (req_kind = Evicts, depends on the hash),
   make the table forget it so that k's next response starts a new full bucket. *)
Theorem c26_refines_mixed : forall (hname : bytes -> N) (hkey : key -> N) p k h, wf_params p ->
  Forall (fun r => subject_to_rrl (fst (fst r)) = true -> key_of hname p (fst (fst r)) <> None) h ->
  forall t, wf_table p t ->
  exists t' cs,
    run_requests hname hkey p t h = Ok (t', cs) /\ wf_table p t' /\
    Forall2 verdict_matches cs
      (bucket_run_mixed (rate_of p (k_category k)) (p_window p) (p_slip p) (abs_bucket hkey p t k)
         (map (fun r => (req_kind hname hkey p t k (fst (fst r)), snd (fst r), snd r)) h)).
Proof. exact run_requests_mixed. Qed.

(* One step, with everything that the next step depends on (used by C27/C28 too). *)
Theorem c26_step : forall (hname : bytes -> N) (hkey : key -> N) p t c k now rnd,
  wf_params p -> wf_table p t -> subject_to_rrl c = true -> key_of hname p c = Some k ->
  let r := bucket_step (rate_of p (k_category k)) (p_window p) (abs_bucket hkey p t k) now in
  exists t',
    process_response hname hkey p t c now rnd
    = Ok (t', apply_action c (action_of_verdict (step_verdict (p_slip p) rnd (snd r)))) /\
    wf_table p t' /\ t_len t' = t_len t /\ abs_bucket hkey p t' k = Some (fst r) /\
    (forall j, j <> bucket_index hkey t k -> t_get t' j = t_get t j).
Proof. exact process_response_step. Qed.

(* The table Rrl::new builds satisfies the invariant. *)
Theorem c26_new_wf : forall p now, wf_params p -> wf_table p (rrl_new p now).
Proof. exact rrl_new_wf. Qed.

(* The count never overflows and nothing panics: from any invariant-satisfying table,
   ANY sequence of requests (any streams, transports, opcodes, times; a NOERROR response
   to a QUERY has a question or a source of synthesis) is processed without panic, and
   every count stays <= rate x window <= u32::MAX (wf_table). *)
Theorem c26_count_bound : forall (hname : bytes -> N) (hkey : key -> N) p h, wf_params p ->
  Forall (fun r => subject_to_rrl (fst (fst r)) = true -> key_of hname p (fst (fst r)) <> None) h ->
  forall t, wf_table p t ->
  exists t' cs, run_requests hname hkey p t h = Ok (t', cs) /\ wf_table p t' /\ length cs = length h.
Proof. exact run_requests_total. Qed.

(* A response subject to RRL is sent unchanged, slipped or dropped — and which of
   slip/drop is decided by should_slip alone. *)
Theorem c26_outcomes : forall (hname : bytes -> N) (hkey : key -> N) p t c now rnd t' c',
  subject_to_rrl c = true ->
  process_response hname hkey p t c now rnd = Ok (t', c') ->
  sent_unchanged c c' \/ (should_slip p rnd = true /\ slipped c c') \/ (should_slip p rnd = false /\ dropped c').
Proof. exact process_response_outcomes. Qed.

(* slip = 0: a limited response is always dropped (no response leaves the server). *)
Theorem c26_slip0 : forall (hname : bytes -> N) (hkey : key -> N) p t c now rnd t' c',
  p_slip p = 0 -> subject_to_rrl c = true ->
  process_response hname hkey p t c now rnd = Ok (t', c') ->
  sent_unchanged c c' \/ dropped c'.
Proof. exact slip0_outcomes. Qed.

(* slip = 1: a limited response is always slipped. *)
Theorem c26_slip1 : forall (hname : bytes -> N) (hkey : key -> N) p t c now rnd t' c',
  p_slip p = 1 -> subject_to_rrl c = true ->
  process_response hname hkey p t c now rnd = Ok (t', c') ->
  sent_unchanged c c' \/ slipped c c'.
Proof. exact slip1_outcomes. Qed.

(* A slipped response is sent with TC set, empty answer and authority sections and an
   additional section of exactly the OPT/TSIG pseudo-records that were in use (as far as
   the model of Writer::clear_rrs/set_tc reaches: counts and flags, not octets). *)
Theorem c26_slip_shape : forall (hname : bytes -> N) (hkey : key -> N) p t c now rnd t' c',
  c_rrl_action c = None ->
  process_response hname hkey p t c now rnd = Ok (t', c') ->
  c_rrl_action c' = Some Slip -> slipped c c'.
Proof. exact slipped_only_shape. Qed.

(* Regression witness for the code before the fix: commit (`rate * secs as u32`): the
   bucket sends after 2^30 s resp. 2^32 s idle, the old code panics / slips. *)
Theorem c26_refines_refuted_prefix :
  snd (bucket_take (bucket_refill 4 1 (abs_entry witness_params witness_entry) witness_gap_overflow)) = true /\
  snd (bucket_take (bucket_refill 4 1 (abs_entry witness_params witness_entry) witness_gap_truncate)) = true /\
  entry_step_gen OldChecked witness_params witness_entry NxDomain witness_gap_overflow 0 = Panic /\
  (exists e', entry_step_gen OldWrapping witness_params witness_entry NxDomain witness_gap_overflow 0 = Ok (e', Slip)) /\
  (exists e', entry_step_gen OldChecked witness_params witness_entry NxDomain witness_gap_truncate 0 = Ok (e', Slip)) /\
  (exists e', entry_step_gen Fixed witness_params witness_entry NxDomain witness_gap_overflow 0 = Ok (e', Send)) /\
  (exists e', entry_step_gen Fixed witness_params witness_entry NxDomain witness_gap_truncate 0 = Ok (e', Send)).
Proof. exact old_arithmetic_refuted. Qed.

(* Non-vacuity: rate 2, window 2 (capacity 4), slip 1, NXDOMAIN stream on a fresh one-cell
   table; requests at 0, 0.1, 0.2, 0.3, 0.4 s (4 sent, 1 slipped), at 1.35 s (2 tokens back:
   sent), and after 10^9 s idle (sent). Hypotheses of c26_refines hold and both sides compute. *)
Definition ex_params : params := mkParams 2 2 2 2 1 RRL_DEFAULT_IPV4_NETMASK RRL_DEFAULT_IPV6_NETMASK 1.
Definition ex_ctx : ctx :=
  mkCtx (V4 [192; 0; 2; 1]) Udp 0 (Some [[110; 120]; [101; 120]]) None (mkW 0 1 1 true false false 3) None true.
Definition ex_history : list (N * N) :=
  [(5000000000, 0); (5100000000, 0); (5200000000, 0); (5300000000, 0); (5400000000, 0);
   (6350000000, 0); (1000000006350000000, 0)].
Example c26_example :
  wf_params ex_params /\ wf_table ex_params (rrl_new ex_params 0) /\ subject_to_rrl ex_ctx = true /\
  key_of (fun _ => 0) ex_params ex_ctx = Some (mkKey 3221225984 false 0 NxDomain) /\
  (exists t', run_history (fun _ => 0) (fun _ => 7) ex_params (rrl_new ex_params 0) ex_ctx ex_history
     = Ok (t', map (apply_action ex_ctx) [Send; Send; Send; Send; Slip; Send; Send])) /\
  bucket_run 2 2 1 None ex_history = [VSend; VSend; VSend; VSend; VSlip; VSend; VSend].
Proof.
  split; [split; [intros cat; destruct cat; split; vm_compute; discriminate|split; vm_compute; discriminate]|].
  split; [apply rrl_new_wf; split; [intros cat; destruct cat; split; vm_compute; discriminate|split; vm_compute; discriminate]|].
  split; [reflexivity|]. split; [vm_compute; reflexivity|].
  split; [|vm_compute; reflexivity].
  eexists. vm_compute. reflexivity.
Qed.

Print Assumptions c26_params_wf.
Print Assumptions c26_refines.
Print Assumptions c26_refines_mixed.
Print Assumptions c26_step.
Print Assumptions c26_new_wf.
Print Assumptions c26_count_bound.
Print Assumptions c26_outcomes.
Print Assumptions c26_slip0.
Print Assumptions c26_slip1.
Print Assumptions c26_slip_shape.
Print Assumptions c26_refines_refuted_prefix.
