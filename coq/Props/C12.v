(* C12 — the message writer serialises exactly what it was given.
   Statements only; proofs are in Proofs/MsgWriterP.v. *)
From QV Require Import Base.ListX Model.MsgWriter Proofs.MsgWriterP.

(* Regression witness: the code before the fix: commit built the OPT TTL through Ttl::from and
   lost the upper bits of an extended RCODE >= 2048; the repaired code keeps them. *)
Theorem c12_ext_rcode_refuted_prefix :
  opt_ttl_of (run_writer_prefix (repeat 0%N 40) 40 (xrc_ops 2048)) = Some [0; 0; 0; 0]%N.
Proof. exact prefix_loses_xrcode. Qed.

Theorem c12_ext_rcode_kept :
  opt_ttl_of (run_writer (repeat 0%N 40) 40 (xrc_ops 2048)) = Some [128; 0; 0; 0]%N.
Proof. exact fixed_keeps_xrcode. Qed.

Print Assumptions c12_ext_rcode_refuted_prefix.
Print Assumptions c12_ext_rcode_kept.
