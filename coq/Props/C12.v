(* C12 — the message writer serialises exactly what it was given.
   Statements only; proofs are in Proofs/MsgWriter*P.v.  What is NOT proved here (the
   message-level round trip, "no spurious truncation", panic-freedom of whole RR operations)
   is listed in docs/C12.md and is decided on every run by the extracted specification
   (Spec/MsgWriterS.v) evaluated on the implementation's output. *)
From QV Require Import Spec.MsgWriterS.
From QV Require Import Base.ListX Model.MsgWriter Proofs.MsgWriterP Proofs.MsgWriterScanP
     Proofs.MsgWriterNameP Proofs.MsgWriterInvP Proofs.MsgWriterTopP Proofs.MsgWriterClosP
     Proofs.MsgWriterNameSP Proofs.MsgWriterLayP Proofs.MsgWriterOpP Proofs.MsgWriterStepP
     Proofs.MsgWriterMsgP Proofs.MsgWriterDecP Proofs.MsgWriterHdrP Proofs.MsgWriterGetP Proofs.MsgWriterRtP.
From QV Require Import Spec.MsgWriterAbsS.

(* For EVERY operation sequence from a fresh writer, the state satisfies
   HEADER_SIZE <= rr_start <= cursor <= available, available + reservations = limit <= |buffer|. *)
Theorem c12_invariant : forall buf limit w0 ops d outs alive,
  writer_new buf limit = Ok w0 -> run (mkD w0 []) ops = Ok (d, outs, alive) -> Inv_n (d_w d).
Proof. exact top_invariant. Qed.

(* The finished message never exceeds the size limit in effect (nor the buffer). *)
Theorem c12_limit : forall buf limit ops rr len b,
  run_writer buf limit ops = Ok rr -> rr_final rr = Some (len, b) ->
  exists w0 d outs, writer_new buf limit = Ok w0 /\ run (mkD w0 []) ops = Ok (d, outs, true)
    /\ len <= w_limit (d_w d) /\ w_limit (d_w d) <= length b.
Proof. exact top_limit. Qed.

(* A failed operation leaves everything a caller can observe unchanged: all fields, and all
   octets below the cursor (with_rollback restores section, cursor and the three compression
   anchors; counters, limits and reservations only move on success). *)
Theorem c12_atomic : forall buf limit w0 ops d outs o d' e,
  writer_new buf limit = Ok w0 -> run (mkD w0 []) ops = Ok (d, outs, true) ->
  step d o = Ok (d', RErr e) -> obs_eq (d_w d) (d_w d').
Proof. exact top_atomic. Qed.

(* Names: under the state invariant on the three compression anchors and the hint contract,
   writing a name never panics, fails only with Truncation, and the octets written decode
   (reading only below the new cursor) to the given name — octet for octet in case-preserving
   and disabled mode, modulo ASCII case in standard mode.  Partial with respect to C12's
   message-level round trip: this is the name layer only. *)
Theorem c12_names_roundtrip_partial : forall h n w, nb w -> wf_name n -> priors_ok w ->
  hint_contract h n w ->
  match write_hinted_name h n w with
  | Ok (_, w') => named (exactf (w_mode w)) n (w_buf w') (w_cursor w') (w_cursor w)
  | Err (e, _) => e = Truncation
  | Panic => False
  end.
Proof. exact top_hinted_roundtrip. Qed.

Theorem c12_unhinted_names_roundtrip_partial : forall n w, nb w -> wf_name n -> priors_ok w ->
  match write_unhinted_name n w with
  | Ok (_, w') => named (exactf (w_mode w)) n (w_buf w') (w_cursor w') (w_cursor w)
  | Err (e, _) => e = Truncation
  | Panic => False
  end.
Proof. exact top_unhinted_roundtrip. Qed.

(* "equal exactly": the exact flavour of name equality is equality *)
Theorem c12_exact_is_equal : forall a b, name_eq true a b -> a = b.
Proof. exact name_eq_exact. Qed.

(* Regression witness: the code before the fix: commit built the OPT TTL through Ttl::from and
   lost the upper bits of an extended RCODE >= 2048; the repaired code keeps them. *)
Theorem c12_ext_rcode_refuted_prefix :
  opt_ttl_of (run_writer_prefix (repeat 0%N 40) 40 (xrc_ops 2048)) = Some [0; 0; 0; 0]%N.
Proof. exact prefix_loses_xrcode. Qed.

Theorem c12_ext_rcode_kept :
  opt_ttl_of (run_writer (repeat 0%N 40) 40 (xrc_ops 2048)) = Some [128; 0; 0; 0]%N.
Proof. exact fixed_keeps_xrcode. Qed.

(* EVERY operation of the operation language (header setters, add_question, add_*_rr, add_*_rrset
   with every hint kind, set_limit, set_compression_mode, set_edns, set_tsig/update_time_signed
   (Unsigned), clear_rrs, templates, getters), run on ANY state satisfying the full invariant [AInv]
   (numeric invariant + anchor invariant + the ghost names the anchors and hint-vector slots stand
   for) with well-formed arguments and a hint obeying the API contract ([op_contract]: the slot /
   anchor the hint designates was issued for a name equal, modulo ASCII case, to the one given),
   returns Ok or Err -- never Panic -- and re-establishes the invariant. *)
Theorem c12_ops_never_panic : forall d g L o, AInv d g L -> op_wf o -> op_contract d g o ->
  match step d o with
  | Ok (d', r) => exists L', AInv d' (gstep d g o r) L'
  | _ => False
  end.
Proof. exact step_ok_all. Qed.

(* [Writer::new] establishes the invariant; whole runs obeying the contract do not panic, finish
   included (finish's two `.unwrap()`s on the OPT and TSIG records are safe because the reserved
   space suffices). *)
Theorem c12_run_never_panics : forall buf limit w0 ops, writer_new buf limit = Ok w0 ->
  run_contract (mkD w0 []) g0 ops -> exists rr, run_writer buf limit ops = Ok rr.
Proof. exact run_writer_never_panics. Qed.

(* No spurious truncation: a record / RRset / question operation fails with Truncation only if
   its UNCOMPRESSED encoding does not fit between the cursor and the available space. *)
Theorem c12_no_spurious_truncation_rr : forall d g L s h n ty cl ttl rd vec d',
  AInv d g L -> wf_name n -> wf_bytes rd -> hs_contract (d_regs d) g h n ->
  step d (OAddRr s h n ty cl ttl rd vec) = Ok (d', RErr Truncation) ->
  w_avail (d_w d) < w_cursor (d_w d) + length (nm_wire n) + 10 + length rd.
Proof. exact rr_no_spurious. Qed.

Theorem c12_no_spurious_truncation_rrset : forall d g L s h n ty cl ttl rds vec d',
  AInv d g L -> wf_name n -> Forall wf_bytes rds -> hs_contract (d_regs d) g h n ->
  step d (OAddRrset s h n ty cl ttl rds vec) = Ok (d', RErr Truncation) ->
  w_avail (d_w d) < w_cursor (d_w d) + rds_size n rds.
Proof. exact rrset_no_spurious. Qed.

Theorem c12_no_spurious_truncation_question : forall d g L n qt qc d',
  AInv d g L -> wf_name n ->
  step d (OAddQuestion n qt qc) = Ok (d', RErr Truncation) ->
  w_avail (d_w d) < w_cursor (d_w d) + length (nm_wire n) + 4.
Proof. exact question_no_spurious. Qed.

(* Every operation preserves, together with [AInv], the LAYOUT invariant [LInv]: the octets of
   [12, rr_start) are the questions and those of [rr_start, cursor) the records of the abstract message
   [astep ... ] denoted by the operations that succeeded (Spec/MsgWriterAbsS.v), in order, section by
   section, with the section counters equal to the list lengths; every name chunk is the plain wire
   form or leading labels + one pointer into the label starts of the layout. *)
Theorem c12_layout_invariant_all_ops : forall d g y A L o, AInv d g L -> LInv d y A L -> op_wf o ->
  op_contract d g o ->
  match step d o with
  | Ok (d', r) => exists L' y', AInv d' (gstep d g o r) L' /\ LInv d' y' (astep A o r) L'
  | _ => False
  end.
Proof. exact step2_all. Qed.

(* MESSAGE-LEVEL ROUND TRIP: decode(finish(run ops)) = abs(ops).  For every operation sequence obeying
   the hint contract, with arguments of the sizes the Rust types enforce ([op_wf], [op_wf2], [op_wf3]):
   the run does not panic and the independent RFC 1035 decoder of Spec/MsgWriterS.v, applied to the
   finished message, succeeds and returns
   - the header id, QR, opcode, AA, TC, RD, RA, zero Z bits and RCODE of the header settings denoted by
     the operations ([hreplay], [hdr_rel]);
   - in order, the questions and the answer / authority / additional records of the abstract message
     of the operations that succeeded ([areplay]): owner names and names inside RDATA equal exactly
     when written in case-preserving / disabled mode and modulo ASCII case otherwise ([name_rel]), type,
     class, TTL (clamped per RFC 2181 s.8), RDATA octets, and the compressible/uncompressible
     classification of every RDATA name;
   - then, in the additional section, the OPT pseudo-record (class = UDP size, TTL = upper bits of the
     extended RCODE << 24: the value of the last successful set_extended_rcode, reset by set_rcode) and
     the unsigned TSIG record of the settings denoted by the operations ([pseudo_of]);
   and the decoded message passes the specification's pointer-rule checker ([ptr_ok], see C13). *)
Theorem c12_roundtrip : forall buf limit w0 ops, writer_new buf limit = Ok w0 ->
  run_contract (mkD w0 []) g0 ops -> Forall op_wf ops -> Forall op_wf2 ops -> Forall op_wf3 ops ->
  exists rr, run_writer buf limit ops = Ok rr /\
    match rr_final rr with
    | Some (len, b) =>
      exists m, decode_msg (firstn len b) = Some m /\
        hdr_rel (hreplay ah0 ops (rr_outcomes rr)) m /\
        Forall2 q_rel (am_qs (areplay am0 ops (rr_outcomes rr))) (m_qs m) /\
        Forall2 (rr_rel xparts) (am_an (areplay am0 ops (rr_outcomes rr))) (m_an m) /\
        Forall2 (rr_rel xparts) (am_ns (areplay am0 ops (rr_outcomes rr))) (m_ns m) /\
        Forall2 (rr_rel xparts)
          (am_ar (areplay am0 ops (rr_outcomes rr)) ++
           pseudo_of (am_mode (areplay am0 ops (rr_outcomes rr))) (hreplay ah0 ops (rr_outcomes rr)))
          (m_ar m) /\
        ptr_ok (firstn len b) m (am_qs (areplay am0 ops (rr_outcomes rr))) (am_an (areplay am0 ops (rr_outcomes rr)))
          (am_ns (areplay am0 ops (rr_outcomes rr)))
          (am_ar (areplay am0 ops (rr_outcomes rr)) ++
           pseudo_of (am_mode (areplay am0 ops (rr_outcomes rr))) (hreplay ah0 ops (rr_outcomes rr)))
    | None => True
    end.
Proof. exact roundtrip_full. Qed.

(* The header octets and the EDNS / TSIG fields of the writer are, after every operation, those of the
   abstract header settings ([HInv]); bit fields by exhaustive sweeps over the 256 octet values. *)
Theorem c12_header_invariant : forall d H o d' r, Inv_n (d_w d) -> HInv (d_w d) H -> op_wf3 o ->
  step d o = Ok (d', r) -> HInv (d_w d') (hstep H o r).
Proof. exact hstep_ok. Qed.

(* The getters (id, QR, opcode, AA, TC, RD, RA, RCODE, extended RCODE, QD/AN/NS/ARCOUNT), at any point of
   a contract-obeying run, return the values denoted by the operations that succeeded so far. *)
Theorem c12_getters : forall buf limit w0 ops d outs, writer_new buf limit = Ok w0 ->
  run_contract (mkD w0 []) g0 ops -> Forall op_wf3 ops ->
  run (mkD w0 []) ops = Ok (d, outs, true) ->
  let A := areplay am0 ops outs in let H := hreplay ah0 ops outs in
  getters (d_w d) =
    Ok (expected_get H (N.of_nat (length (am_qs A))) (N.of_nat (length (am_an A))) (N.of_nat (length (am_ns A)))
          (N.of_nat (length (am_ar A)) + (if h_edns H then 1 else 0) + (if h_tsig H then 1 else 0))%N).
Proof. exact getters_run. Qed.

(* The component table regenerated from the Rust source is the RFC layout of the specification. *)
Theorem c12_component_table_is_rfc_layout : forall cl ty, layout cl ty = map sf_of (component_types cl ty).
Proof. exact layout_table. Qed.

(* Non-vacuity of the contract-threaded run: the example run below obeys it. *)
(* Non-vacuity: a concrete run in which a question is written, a record compresses its owner
   against the QNAME and its RDATA against the owner, and a too-large record fails and is
   rolled back; the state after the question satisfies the hypotheses of the name theorems. *)
Definition ex_ops : list wop :=
  [OAddQuestion [[119; 119; 119]; [97]]%N 1 1;
   OAddRr SecAnswer HsQname [[119; 119; 119]; [97]]%N 5 1 300 [1; 98; 1; 97; 0]%N false;
   OAddRr SecAnswer HsNone [[99]]%N 16 1 300 (repeat 7%N 60) false].
Example c12_example :
  match run_writer (repeat 170%N 64) 64 ex_ops with
  | Ok rr => rr_outcomes rr = [RUnit; RUnit; RErr Truncation]
             /\ option_map (fun x => firstn 39 (snd x)) (rr_final rr) =
                Some [0;0;0;0;0;1;0;1;0;0;0;0; 3;119;119;119;1;97;0; 0;1;0;1;
                      192;12; 0;5; 0;1; 0;0;1;44; 0;4; 1;98;192;16]%N
  | _ => False
  end.
Proof. vm_compute. split; reflexivity. Qed.

(* The extracted specification accepts the model's result for this run (the oracle is not vacuous). *)
Example c12_judge_example :
  match run_writer (repeat 170%N 64) 64 ex_ops with
  | Ok rr => judge 64 64 ex_ops (rr_outcomes rr) (rr_regs rr) (rr_final rr) = VOk
  | _ => False
  end.
Proof. vm_compute. reflexivity. Qed.

Example c12_contract_example :
  match writer_new (repeat 170%N 64) 64 with
  | Ok w0 => run_contract (mkD w0 []) g0 ex_ops
  | _ => False
  end.
Proof.
  vm_compute. repeat split; try (repeat constructor; fail); try lia.
  all: try (intros _ m E; inversion E; subst; repeat constructor).
  all: try (intros m E; inversion E; subst; repeat constructor).
  all: try (intros _; exact I).
Qed.

Example c12_wf_example : Forall op_wf ex_ops /\ Forall op_wf2 ex_ops /\ Forall op_wf3 ex_ops.
Proof.
  split; [|split]; repeat constructor; simpl; try lia; try (apply wf_bytesb_spec; reflexivity).
Qed.

(* the invariants are satisfiable: a fresh writer satisfies all three *)
Example c12_invariants_nonvacuous :
  match writer_new (repeat 170%N 64) 64 with
  | Ok w0 => AInv (mkD w0 []) g0 L0 /\ LInv (mkD w0 []) y0 am0 L0 /\ HInv w0 ah0
  | _ => False
  end.
Proof.
  destruct (writer_new (repeat 170%N 64) 64) as [w0| |] eqn:E; [|vm_compute in E; discriminate..].
  split; [eapply AInv_new; eauto|]. split; [eapply LInv_new; eauto|eapply HInv_new; eauto].
Qed.

Print Assumptions c12_invariant.
Print Assumptions c12_limit.
Print Assumptions c12_atomic.
Print Assumptions c12_names_roundtrip_partial.
Print Assumptions c12_unhinted_names_roundtrip_partial.
Print Assumptions c12_exact_is_equal.
Print Assumptions c12_ext_rcode_refuted_prefix.
Print Assumptions c12_ext_rcode_kept.
Print Assumptions c12_ops_never_panic.
Print Assumptions c12_run_never_panics.
Print Assumptions c12_no_spurious_truncation_rr.
Print Assumptions c12_no_spurious_truncation_rrset.
Print Assumptions c12_no_spurious_truncation_question.
Print Assumptions c12_layout_invariant_all_ops.
Print Assumptions c12_roundtrip.
Print Assumptions c12_header_invariant.
Print Assumptions c12_component_table_is_rfc_layout.
Print Assumptions c12_getters.
