(* C10 — TSIG-signed requests are authenticated before being answered.
   Statements only.  The server's TSIG step (src/server/mod.rs: algorithm lookup, key lookup,
   verify_request, choice of RCODE / TSIG error / response signing mode) is the pure function
   [handle_tsig]; [tsig_outcome keys t m now sent_id sr a secret] says: it returns a decision with
   RCODE [sr_rcode sr], "continue processing" = [sr_process sr], and for EVERY response message then
   written, Writer::finish_with_mac appends the TSIG RDATA [spec_rdata (resp_tsig t sr + MAC)] where
   the MAC is [hmac a secret (RFC 8945 4.3 digest of request MAC, response, response variables)] if
   [sr_signed sr] and empty otherwise.  [hmac] is universally quantified.
   [t] is the request's TSIG RR, [m] the request without it, [find_key] the HashMap lookup. *)
From QV Require Import Model.TsigMsg Model.TsigSrv Spec.Tsig8945S Spec.TsigRepr Spec.TsigSrvS Spec.TsigSrvRepr
  Proofs.TsigEncP Proofs.TsigMsgP Proofs.TsigSrvP.

Section C10.
Variable hmac : alg -> bytes -> bytes -> bytes.
Hypothesis hmac_len : forall a k d, length (hmac a k d) = output_size a.

(* configured key and algorithm, allowed MAC size, right MAC, time within the fudge window:
   RCODE left to request processing, processing continues, response signed in response mode
   (time signed = now, fudge 300, error 0, no other data) *)
Theorem c10_accept : forall keys t m now sent_id a k,
  wf_stsig t -> wf_smsg m -> (now < 281474976710656)%N ->
  canon (t_alg t) = salg_name (alg_s a) -> find_key keys (canon_wire (t_key t)) = Some k -> k_alg k = a ->
  spec_accepts (mac_fn_of hmac) DRequest m t (alg_s a) (k_secret k) now ->
  tsig_outcome hmac keys t m now sent_id (mkSresp 0 true 0 true now []) (Some a) (k_secret k).
Proof. exact (c10_accept_l hmac hmac_len). Qed.

(* wrong MAC: NOTAUTH (9), TSIG error BADSIG (16), empty MAC, no processing *)
Theorem c10_badsig : forall keys t m now sent_id a k,
  wf_stsig t -> wf_smsg m -> (now < 281474976710656)%N ->
  canon (t_alg t) = salg_name (alg_s a) -> find_key keys (canon_wire (t_key t)) = Some k -> k_alg k = a ->
  mac_len_ok (alg_s a) (length (t_mac t)) -> ~ mac_matches (mac_fn_of hmac) DRequest m t (alg_s a) (k_secret k) ->
  tsig_outcome hmac keys t m now sent_id (mkSresp 9 false 16 false now []) (Some a) (k_secret k).
Proof. exact (c10_badsig_l hmac hmac_len). Qed.

(* unknown algorithm, unknown key, or key configured for another algorithm:
   NOTAUTH (9), TSIG error BADKEY (17), empty MAC, no processing *)
Theorem c10_badkey : forall keys t m now sent_id,
  wf_stsig t -> wf_smsg m -> (now < 281474976710656)%N ->
  (alg_from_name (canon_wire (t_alg t)) = None \/
   exists a, canon (t_alg t) = salg_name (alg_s a) /\
     (find_key keys (canon_wire (t_key t)) = None \/
      exists k, find_key keys (canon_wire (t_key t)) = Some k /\ k_alg k <> a)) ->
  tsig_outcome hmac keys t m now sent_id (mkSresp 9 false 17 false now []) None [].
Proof. exact (c10_badkey_l hmac hmac_len). Qed.

(* MAC outside the allowed length: FORMERR (1) (TSIG error 16, empty MAC), no processing *)
Theorem c10_mac_len : forall keys t m now sent_id a k,
  wf_stsig t -> wf_smsg m -> (now < 281474976710656)%N ->
  canon (t_alg t) = salg_name (alg_s a) -> find_key keys (canon_wire (t_key t)) = Some k -> k_alg k = a ->
  ~ mac_len_ok (alg_s a) (length (t_mac t)) ->
  tsig_outcome hmac keys t m now sent_id (mkSresp 1 false 16 false now []) (Some a) (k_secret k).
Proof. exact (c10_mac_len_l hmac hmac_len). Qed.

(* stale or future time (with a valid MAC): NOTAUTH (9), TSIG error BADTIME (18), no processing, and the
   response IS signed: time signed = the request's, other data = the server's time *)
Theorem c10_badtime : forall keys t m now sent_id a k,
  wf_stsig t -> wf_smsg m -> (now < 281474976710656)%N ->
  canon (t_alg t) = salg_name (alg_s a) -> find_key keys (canon_wire (t_key t)) = Some k -> k_alg k = a ->
  mac_len_ok (alg_s a) (length (t_mac t)) -> mac_matches (mac_fn_of hmac) DRequest m t (alg_s a) (k_secret k) ->
  ~ time_ok t now ->
  tsig_outcome hmac keys t m now sent_id (mkSresp 9 false 18 true (t_time t) (u48 now)) (Some a) (k_secret k).
Proof. exact (c10_badtime_l hmac hmac_len). Qed.

(* the MAC of a signed response is accepted by an RFC 8945 verifier that knows the request MAC *)
Theorem c10_response_verifies : forall t sr a secret resp,
  sr_signed sr = true ->
  mac_matches (mac_fn_of hmac) (DResponse (t_mac t)) resp
    (with_mac (resp_tsig t sr) (resp_mac (mac_fn_of hmac) t sr (alg_s a) secret resp)) (alg_s a) secret.
Proof. exact (response_mac_matches hmac). Qed.

(* the five cases are exhaustive: the decision is always the spec's table *)
Theorem c10_table : forall keys t m now sent_id,
  wf_stsig t -> wf_smsg m -> (now < 281474976710656)%N ->
  let r := read_of t in
  let a := alg_from_name (r_algorithm r) in
  let k := find_key keys (r_key_name r) in
  (forall a', a = Some a' -> canon (t_alg t) = salg_name (alg_s a')) ->
  let sr := spec_server (mac_fn_of hmac) (option_map alg_s a)
                        (option_map (fun k => (alg_s (k_alg k), k_secret k)) k) m t now in
  handle_tsig hmac keys r (sent_prefix sent_id m) (be48 now) =
  Ok (decision_of t sr
        (match a, k with Some a', Some k' => if alg_eqb (k_alg k') a' then Some a' else a | _, _ => a end)
        (match k with Some k' => k_secret k' | None => [] end) now)
  \/
  (sr = mkSresp 9 false 17 false now [] /\
   handle_tsig hmac keys r (sent_prefix sent_id m) (be48 now) = Ok (decision_of t sr None [] now)).
Proof. exact (handle_tsig_spec hmac). Qed.

End C10.

(* Non-vacuity: a concrete key set, request and MAC function meet the hypotheses of c10_accept,
   c10_badtime and c10_badkey, and the decisions are the expected ones. *)
Example c10_example :
  let hmac := fun (a : alg) (k d : bytes) => firstn (output_size a) (k ++ d ++ repeat 0%N 32) in
  let keys := [mkKey [1; 75; 0]%N HmacSha256 [9; 9]%N] in
  let m := mkSmsg 4660 256 1 0 0 0 [1; 97; 0; 0; 1; 0; 1]%N in
  let t0 := mkStsig [[107]]%N (salg_name SSha256) 1000 300 [] 4660 0 [] in
  let t := with_mac t0 (hmac HmacSha256 [9; 9]%N (spec_digest DRequest m t0)) in
  wf_stsig t /\ wf_smsg m /\ find_key keys (canon_wire (t_key t)) = Some (mkKey [1; 75; 0]%N HmacSha256 [9; 9]%N) /\
  spec_accepts (mac_fn_of hmac) DRequest m t SSha256 [9; 9]%N 1300 /\
  (exists d, handle_tsig hmac keys (read_of t) (sent_prefix 1 m) (be48 1300) = Ok d /\ d_rcode d = 0%N /\ d_authenticated d = true) /\
  (exists d, handle_tsig hmac keys (read_of t) (sent_prefix 1 m) (be48 1301) = Ok d /\ d_rcode d = 9%N /\
             p_error (d_rr d) = 18%N /\ d_authenticated d = false) /\
  (exists d, handle_tsig hmac [] (read_of t) (sent_prefix 1 m) (be48 1300) = Ok d /\ d_rcode d = 9%N /\
             p_error (d_rr d) = 17%N /\ d_authenticated d = false).
Proof.
  cbv zeta. split.
  { unfold wf_stsig, valid_sname.
    repeat split;
      try (apply wf_bytesb_spec; vm_compute; reflexivity);
      try (apply N.ltb_lt; vm_compute; reflexivity);
      try (apply N.leb_le; vm_compute; reflexivity);
      try (apply Nat.leb_le; vm_compute; reflexivity);
      repeat constructor;
      try (apply wf_bytesb_spec; vm_compute; reflexivity);
      try (apply Nat.leb_le; vm_compute; reflexivity). }
  split; [unfold wf_smsg; repeat split; try (apply N.ltb_lt; vm_compute; reflexivity); apply wf_bytesb_spec; reflexivity|].
  split; [vm_compute; reflexivity|].
  split; [apply spec_verify_ok_iff; vm_compute; reflexivity|].
  split; [eexists; split; [vm_compute; reflexivity|split; reflexivity]|].
  split; eexists; (split; [vm_compute; reflexivity|repeat split; reflexivity]).
Qed.

Print Assumptions c10_accept.
Print Assumptions c10_badsig.
Print Assumptions c10_badkey.
Print Assumptions c10_mac_len.
Print Assumptions c10_badtime.
Print Assumptions c10_response_verifies.
Print Assumptions c10_table.
