(* C31 — reloading keeps every zone on its own latest good data.
   Statements only; every proof is [exact <lemma from Proofs/ReloadP.v>].

   [load_impl fs_mtime fs_load zones prev] is the model of zones.rs load_impl (as repaired:
   the previous entry is found with the exact Catalog::get), the file system being the
   explicit inputs fs_mtime / fs_load; [abs] is the flat view of the catalog proved about in
   C22, [obs] what an entry means for serving (gone / unserved = SERVFAIL / loaded data with
   the path and file time it was loaded from); [spec_reload] is the per-key specification
   of Spec/ReloadS.v.  [prev_ok prev]: the previous catalog (if any) satisfies C22's
   representation invariant, which every catalog produced by load_impl does. *)
From QV Require Import Model.CatTree Model.Reload Spec.CatTreeS Spec.ReloadS
  Proofs.CatTreeCatP Proofs.ReloadP.

(* per configured (class, name): new data if it loads; else what was held for EXACTLY that key
   if that was loaded data; else unserved; unchanged files keep what they had; nothing else is in
   the catalog.  No step panics; the result again satisfies the invariant. *)
Theorem c31_per_zone : forall fs_mtime fs_load zones prev, prev_ok prev -> NoDup (map zkey zones) ->
  exists c', load_impl fs_mtime fs_load zones prev = Ok c' /\ wf_cat c' /\
    forall k, obs (abs c' k) =
              spec_reload (map (to_szone fs_mtime fs_load) zones) (fun k => obs (pabs prev k)) k.
Proof. exact load_impl_per_zone. Qed.

(* a zone's load failure (or any change of another zone's file, or of what was held for another
   key) never changes what is held for k *)
Theorem c31_independent : forall m1 l1 m2 l2 zones prev1 prev2 k,
  prev_ok prev1 -> prev_ok prev2 -> NoDup (map zkey zones) ->
  (forall cfg, In cfg zones -> zkey cfg = k -> m1 (zc_path cfg) = m2 (zc_path cfg) /\ l1 cfg = l2 cfg) ->
  obs (pabs prev1 k) = obs (pabs prev2 k) ->
  exists c1 c2, load_impl m1 l1 zones prev1 = Ok c1 /\ load_impl m2 l2 zones prev2 = Ok c2 /\
                obs (abs c1 k) = obs (abs c2 k).
Proof. exact load_impl_independent. Qed.

(* zones removed from the configuration are no longer in the catalog *)
Theorem c31_removed : forall fs_mtime fs_load zones prev k, prev_ok prev -> NoDup (map zkey zones) ->
  ~ In k (map zkey zones) ->
  exists c', load_impl fs_mtime fs_load zones prev = Ok c' /\ abs c' k = None.
Proof. exact load_impl_removed. Qed.

(* the mtime skip keeps the previous entry only if it was loaded from the same path and the
   file's time is not newer than the recorded one *)
Theorem c31_skip_sound : forall fs_mtime cfg e e' t,
  fs_mtime (zc_path cfg) = MtOk t -> check_mtime fs_mtime cfg (Some e) = McSkip e' ->
  obs (Some e') = obs (Some e) /\ e_name e' = e_name e /\ e_class e' = e_class e /\
  exists z md t0, e_val e = (VLoaded z, md) /\ md_path md = zc_path cfg /\
                  md_mtime md = Some t0 /\ (t <= t0)%N.
Proof. exact check_mtime_skip_sound. Qed.

(* config.rs rejects exactly the configurations with a key configured twice (ignoring case),
   which is the NoDup hypothesis above *)
Theorem c31_config_dup : forall zones,
  find_duplicated_zone zones = None <-> NoDup (map zkey zones).
Proof. exact find_duplicated_zone_spec. Qed.

(* every history of SIGHUPs (each with its own configuration - possibly rejected - and file
   system): no panic, every catalog satisfies the invariant and is, key by key, the
   specification applied to the previous one *)
Theorem c31_history : forall h cur s0, wf_cat cur -> (forall k, obs (abs cur k) = s0 k) ->
  exists cs, daemon_run_gen true cur h = Ok cs /\
    Forall2 (fun c s => wf_cat c /\ forall k, obs (abs c k) = s k) cs (spec_history s0 (map spec_input h)).
Proof. exact daemon_run_spec. Qed.

(* Regression witness about the pinned code (previous entry found by longest-match lookup):
   example. reloads fine (data 2), the new child sub.example. has no file -> the parent is put
   back on its stale data 1 and the child gets no entry at all (never SERVFAIL); the repaired
   code gives data 2 and an unserved child. *)
Theorem c31_per_zone_refuted_prefix :
  exists prev c_old c_new,
    load_impl_gen c31_mtime1 c31_load1 false c31_prev_zones None = Ok prev /\
    load_impl_gen c31_mtime2 c31_load2 false c31_new_zones (Some prev) = Ok c_old /\
    load_impl_gen c31_mtime2 c31_load2 true c31_new_zones (Some prev) = Ok c_new /\
    obs (abs c_old (1%N, c31_example)) = SLoaded 1 7 (Some 100%N) /\
    obs (abs c_old (1%N, c31_sub)) = SGone /\
    obs (abs c_new (1%N, c31_example)) = SLoaded 2 7 (Some 200%N) /\
    obs (abs c_new (1%N, c31_sub)) = SUnserved.
Proof. exact per_zone_refuted_prefix. Qed.

(* Non-vacuity: the hypotheses of c31_per_zone are met by the witness configuration. *)
Example c31_example_hyps :
  prev_ok None /\ NoDup (map zkey c31_new_zones) /\ find_duplicated_zone c31_new_zones = None.
Proof.
  split; [exact I|]. split; [|reflexivity].
  apply find_duplicated_zone_spec. reflexivity.
Qed.

Print Assumptions c31_per_zone.
Print Assumptions c31_independent.
Print Assumptions c31_removed.
Print Assumptions c31_skip_sound.
Print Assumptions c31_config_dup.
Print Assumptions c31_history.
Print Assumptions c31_per_zone_refuted_prefix.
