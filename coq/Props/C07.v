(* C07 — zone selection and RCODEs for unsupported queries. *)
From QV Require Import Model.ZoneTree Model.Query Model.MsgWriter Model.QueryW.
From QV Require Import Base.ListX Model.NameWire Model.Reader Model.RdataLite Model.Server Proofs.ServerP
  Spec.NameWireS Spec.NameRepr Spec.ReaderS Model.CatTree Spec.CatTreeS Proofs.CatTreeCatP Model.ServerCat Proofs.ServerCatP Proofs.ServerNumP Proofs.ServerSimP.

(* A request that passes the generic pre-processing is dispatched on its opcode:
   anything but QUERY gets NOTIMP, regardless of the catalog, and carries no data. *)
Theorem c07_dispatch : forall answer verify cfg req o w0, wf_cfg cfg -> wf_bytes req ->
  prescan verify cfg req = Ok (PClean o w0) ->
  rd_opcode (r0_of req) = Ok o /\ no_data w0 /\
  handle_message answer verify cfg req =
    Ok (Some (if (o =? OPCODE_QUERY)%N then handle_query answer cfg w0 else set_rcode w0 RC_NOTIMP)).
Proof. exact clean_dispatch. Qed.

(* The QUERY decision table: QTYPE AXFR/IXFR/MAILA/MAILB and QCLASS ANY give NOTIMP whatever the
   catalog holds; otherwise the catalog entry chosen by [cat_lookup]: none => REFUSED, not loaded /
   failed => SERVFAIL, loaded => the zone's answer. *)
Theorem c07_query_table : forall answer cfg w, no_data w ->
  match w_question w with
  | None => handle_query answer cfg w = set_rcode w RC_FORMERR
  | Some q =>
    if existsb (N.eqb (q_type q)) [QTYPE_IXFR; QTYPE_AXFR; QTYPE_MAILB; QTYPE_MAILA] || (q_class q =? QCLASS_ANY)%N
    then handle_query answer cfg w = set_rcode w RC_NOTIMP
    else match cat_lookup (c_catalog cfg) (name_key (q_name q)) (q_class q) None with
         | None => handle_query answer cfg w = set_rcode w RC_REFUSED
         | Some e =>
           match e_kind e with
           | ELoaded z => handle_query answer cfg w =
                          apply_body w (answer z q (c_transport cfg) (w_avail w - w_cursor w))
           | _ => handle_query answer cfg w = set_rcode w RC_SERVFAIL
           end
         end
  end.
Proof. exact handle_query_table. Qed.

(* [cat_lookup] is the longest-suffix match within the class (the flat reference map of C22). *)
Theorem c07_longest_suffix : forall es qname class,
  match cat_lookup es qname class None with
  | None => forall e, In e es -> ~ ((e_class e =? class)%N = true /\ is_suffix (e_name e) qname = true)
  | Some e =>
    In e es /\ (e_class e =? class)%N = true /\ is_suffix (e_name e) qname = true /\
    forall e', In e' es -> (e_class e' =? class)%N = true -> is_suffix (e_name e') qname = true ->
               length (e_name e') <= length (e_name e)
  end.
Proof.
  intros es qname class. pose proof (cat_lookup_spec es qname class None _ eq_refl) as H.
  destruct (cat_lookup es qname class None) as [e|].
  - destruct H as ([H|H] & _ & C); [discriminate|]. destruct H as (A & B & D). repeat split; auto.
  - exact (proj2 H).
Qed.

(* NOTIMP / REFUSED / SERVFAIL responses set by these paths carry no records and have AA clear. *)
Theorem c07_error_responses_empty : forall w rc, no_data w -> no_data (set_rcode w rc) /\ w_rcode (set_rcode w rc) = rc.
Proof. exact set_rcode_no_data. Qed.

(* Records and AA only ever come from a clean QUERY answered out of a Loaded zone. *)
Theorem c07_data_only_from_loaded_zone : forall answer verify cfg req w, wf_cfg cfg -> wf_bytes req ->
  handle_message answer verify cfg req = Ok (Some w) -> ~ no_data w ->
  exists w0 q e z, prescan verify cfg req = Ok (PClean OPCODE_QUERY w0) /\ w_question w0 = Some q /\
    cat_lookup (c_catalog cfg) (name_key (q_name q)) (q_class q) None = Some e /\ e_kind e = ELoaded z /\
    w = apply_body w0 (answer z q (c_transport cfg) (w_avail w0 - w_cursor w0)).
Proof. exact data_only_from_loaded_zone. Qed.

(* ---- C07 o C22: the same statements over the REAL catalog structure (the hash-map tree) ---- *)

(* For EVERY catalog reachable from [new()] by a history of inserts and removes (lookups, gets and
   iterations interleaved), and every name and class: the tree's own lookup
   (HashMapTreeCatalog::lookup, Model/CatTree.v) does not panic, and the flat lookup the server model
   dispatches on, run on the flat view of that tree, returns exactly the same entry — same class,
   same name modulo ASCII case, same kind ([srv_entry], [c07_srv_entry_fields]).  So
   [c07_query_table], [c07_longest_suffix] and [c07_data_only_from_loaded_zone] hold verbatim with
   [c_catalog cfg = flat_of_tree c] for the real structure [c]. *)
Theorem c07_catalog_tree_link : forall (h : list (cat_op entry_kind)) c xs, cat_run cat_new h = Ok (c, xs) ->
  forall nm cls, exists r, CatTree.cat_lookup c nm cls = Ok r /\
    Server.cat_lookup (flat_of_tree c) (lower_name nm) cls None = option_map srv_entry r.
Proof. exact tree_link_history. Qed.

Theorem c07_srv_entry_fields : forall e,
  Server.e_class (srv_entry e) = CatTree.e_class e /\ Server.e_name (srv_entry e) = lower_name (CatTree.e_name e) /\
  Server.e_kind (srv_entry e) = CatTree.e_val e.
Proof. exact srv_entry_fields. Qed.

(* The link is not specific to the tree: for ANY catalog implementation refining C22's flat reference map
   ([m] stores every entry at its own key, [l] lists exactly its entries) the server model's lookup on the
   flat view of the listing is the specification's longest-suffix lookup ... *)
Theorem c07_catalog_refinement_link : forall (m : refmap tentry) (l : list tentry) cls q r,
  rm_consistent CatTree.e_name CatTree.e_class m -> rm_is_iter CatTree.e_name CatTree.e_class m l ->
  rm_is_lookup m cls q r ->
  Server.cat_lookup (map srv_entry l) q cls None = option_map srv_entry r.
Proof. exact flat_lookup_refmap. Qed.

(* ... in particular for SingleZoneCatalog (src/db/single_zone_catalog.rs) *)
Theorem c07_single_zone_link : forall (e : tentry) nm cls,
  Server.cat_lookup [srv_entry e] (lower_name nm) cls None = option_map srv_entry (single_lookup e nm cls).
Proof. exact single_lookup_flat. Qed.

(* loading a configuration (Catalog::insert of every entry in order; an equal (class, name) replaces)
   never panics and yields a well-formed tree *)
Theorem c07_tree_of_entries_ok : forall es, exists c, tree_of_entries es = Ok c /\ wf_cat c.
Proof. exact tree_of_entries_ok. Qed.

(* the QUERY decision table with the tree's lookup in place of the flat one *)
Theorem c07_query_table_tree : forall answer cfg (c : tcatalog) w q ls, wf_cat c -> c_catalog cfg = flat_of_tree c ->
  w_question w = Some q -> name_key (q_name q) = lower_name ls ->
  exists r, CatTree.cat_lookup c ls (q_class q) = Ok r /\
    handle_query answer cfg w =
      if existsb (N.eqb (q_type q)) [QTYPE_IXFR; QTYPE_AXFR; QTYPE_MAILB; QTYPE_MAILA] || (q_class q =? QCLASS_ANY)%N
      then set_rcode w RC_NOTIMP
      else match r with
           | None => set_rcode w RC_REFUSED
           | Some e =>
             match CatTree.e_val e with
             | ELoaded z => apply_body w (answer z q (c_transport cfg) (w_avail w - w_cursor w))
             | _ => set_rcode w RC_SERVFAIL
             end
           end.
Proof. exact handle_query_tree. Qed.

(* end to end: a request that passes the pre-processing with opcode QUERY, against a server whose
   catalog is the tree [c]: the question is the spec-level decoding [ls] of the request's question and
   the response is decided by the tree's lookup of [ls] *)
Theorem c07_clean_query_tree : forall answer verify cfg (c : tcatalog) req w0, wf_cfg cfg -> wf_bytes req -> wf_cat c ->
  c_catalog cfg = flat_of_tree c ->
  prescan verify cfg req = Ok (PClean OPCODE_QUERY w0) ->
  match w_question w0 with
  | None => handle_message answer verify cfg req = Ok (Some (set_rcode w0 RC_FORMERR))
  | Some q =>
    exists ls r1 r, decodes_question req 12 ls (q_type q) (q_class q) (r_cursor r1) /\ q_name q = name_of ls /\
      CatTree.cat_lookup c ls (q_class q) = Ok r /\
      handle_message answer verify cfg req = Ok (Some (
        if existsb (N.eqb (q_type q)) [QTYPE_IXFR; QTYPE_AXFR; QTYPE_MAILB; QTYPE_MAILA] || (q_class q =? QCLASS_ANY)%N
        then set_rcode w0 RC_NOTIMP
        else match r with
             | None => set_rcode w0 RC_REFUSED
             | Some e =>
               match CatTree.e_val e with
               | ELoaded z => apply_body w0 (answer z q (c_transport cfg) (w_avail w0 - w_cursor w0))
               | _ => set_rcode w0 RC_SERVFAIL
               end
             end))
  end.
Proof. exact clean_query_tree. Qed.

(* ---- what is handed to query answering ---------------------------------------------------------------
   The server model carries an ABSTRACT Writer (cursor / limit / available / ARCOUNT).  For a request that
   passes the pre-processing as a clean QUERY with its question and without TSIG, the real Writer of C12
   (Model/MsgWriter.v), driven as Server::handle_message drives it ([QueryW.prepare_w]: Writer::new with the
   transport's limit, id / QR / opcode / RD, add_question, set_edns, set_limit) with the values the server
   model computed and a buffer of the configured size, succeeds and has EXACTLY the abstract Writer's cursor,
   limit, available space and ARCOUNT — so the space [w_avail - w_cursor] the dispatch passes to the zone's
   answer, and the limit / EDNS size the byte-level composition [respond_w] is run with, are the real ones. *)
Theorem c07_answering_writer_agrees : forall verify cfg req w0 q buf, wf_cfg cfg -> wf_bytes req ->
  prescan verify cfg req = Ok (PClean OPCODE_QUERY w0) -> Server.w_tsig w0 = None -> Server.w_question w0 = Some q ->
  length buf = c_buflen cfg ->
  exists w, prepare_w buf (match c_transport cfg with Tcp => true | Udp => false end)
                      (Server.w_id w0) (Server.w_rd w0) (labels_of (Reader.q_name q)) (Reader.q_type q) (Reader.q_class q)
                      (option_map fst (Server.w_edns w0)) (Server.w_limit w0) = Some w /\
    MsgWriter.w_cursor w = Server.w_cursor w0 /\ MsgWriter.w_limit w = Server.w_limit w0 /\
    MsgWriter.w_avail w = Server.w_avail w0 /\ MsgWriter.w_ar w = Server.w_arcount w0.
Proof. exact prepare_w_agrees. Qed.

(* ... and its numbers: the full pre-scan invariant holds (available + OPT reservation = limit, 512 <= limit
   <= buffer), the cursor is 12 + the question's size (nothing else has been written), and the limit is the
   transport's unless the EDNS negotiation over UDP changed it. *)
Theorem c07_clean_query_numbers : forall verify cfg req o w q, wf_cfg cfg -> wf_bytes req ->
  prescan verify cfg req = Ok (PClean o w) -> Server.w_tsig w = None -> Server.w_question w = Some q ->
  (exists seen, srv_inv cfg seen w) /\
  Server.w_cursor w = 12 + length (n_wire (Reader.q_name q)) + 4 /\ Server.w_buflen w = c_buflen cfg /\
  length (n_wire (Reader.q_name q)) <= 255 /\
  let L0 := Nat.min (match c_transport cfg with Tcp => tcp_limit | Udp => udp_limit end) (c_buflen cfg) in
  (Server.w_edns w = None -> Server.w_limit w = L0) /\ (c_transport cfg = Tcp -> Server.w_limit w = L0).
Proof. exact clean_query_numbers. Qed.

(* Non-vacuity: a. (Loaded 0), b.a. (NotYetLoaded) and a second insert of B.A. (FailedToLoad, replacing
   the equal key) in class IN; x.B.a. selects the replaced entry in the tree and in its flat view. *)
Example c07_tree_example :
  let es := [CatTree.mkEntry [[97%N]] 1%N (ELoaded 0); CatTree.mkEntry [[98%N]; [97%N]] 1%N ENotYetLoaded;
             CatTree.mkEntry [[66%N]; [65%N]] 1%N EFailedToLoad] in
  exists c, tree_of_entries es = Ok c /\ length (flat_of_tree c) = 2 /\
    CatTree.cat_lookup c [[120%N]; [66%N]; [97%N]] 1%N = Ok (Some (CatTree.mkEntry [[66%N]; [65%N]] 1%N EFailedToLoad)) /\
    Server.cat_lookup (flat_of_tree c) [[120%N]; [98%N]; [97%N]] 1%N None =
      Some (Server.mkEntry 1%N [[98%N]; [97%N]] EFailedToLoad).
Proof. cbv zeta. eexists. split; [vm_compute; reflexivity|]. repeat split. Qed.

Print Assumptions c07_dispatch.
Print Assumptions c07_query_table.
Print Assumptions c07_longest_suffix.
Print Assumptions c07_error_responses_empty.
Print Assumptions c07_data_only_from_loaded_zone.
Print Assumptions c07_catalog_tree_link.
Print Assumptions c07_srv_entry_fields.
Print Assumptions c07_tree_of_entries_ok.
Print Assumptions c07_query_table_tree.
Print Assumptions c07_clean_query_tree.
Print Assumptions c07_catalog_refinement_link.
Print Assumptions c07_single_zone_link.
Print Assumptions c07_answering_writer_agrees.
Print Assumptions c07_clean_query_numbers.
