(* C07 — zone selection and RCODEs for unsupported queries. *)
From QV Require Import Base.ListX Model.NameWire Model.Reader Model.RdataLite Model.Server Proofs.ServerP.

(* A request that passes the generic pre-processing is dispatched on its opcode:
   anything but QUERY gets NOTIMP, regardless of the catalog, and carries no data. *)
Theorem c07_dispatch : forall answer verify cfg req o w0, wf_cfg cfg -> wf_bytes req ->
  prescan verify cfg req = Ok (PClean o w0) ->
  rd_opcode (r0_of req) = Ok o /\ no_data w0 /\
  handle_message answer verify cfg req =
    Ok (Some (if (o =? OPCODE_QUERY)%N then handle_query answer cfg w0 else set_rcode w0 RC_NOTIMP)).
Proof. exact clean_dispatch. Qed.

(* The QUERY decision table: QTYPE AXFR/IXFR/MAILA/MAILB and QCLASS ANY give NOTIMP whatever the
   catalog holds; otherwise the catalog entry chosen by [cat_lookup]: none => REFUSED, not loaded /
   failed => SERVFAIL, loaded => the zone's answer. *)
Theorem c07_query_table : forall answer cfg w, no_data w ->
  match w_question w with
  | None => handle_query answer cfg w = set_rcode w RC_FORMERR
  | Some q =>
    if existsb (N.eqb (q_type q)) [QTYPE_IXFR; QTYPE_AXFR; QTYPE_MAILB; QTYPE_MAILA] || (q_class q =? QCLASS_ANY)%N
    then handle_query answer cfg w = set_rcode w RC_NOTIMP
    else match cat_lookup (c_catalog cfg) (name_key (q_name q)) (q_class q) None with
         | None => handle_query answer cfg w = set_rcode w RC_REFUSED
         | Some e =>
           match e_kind e with
           | ELoaded z => handle_query answer cfg w =
                          apply_body w (answer z q (c_transport cfg) (w_avail w - w_cursor w))
           | _ => handle_query answer cfg w = set_rcode w RC_SERVFAIL
           end
         end
  end.
Proof. exact handle_query_table. Qed.

(* [cat_lookup] is the longest-suffix match within the class (the flat reference map of C22). *)
Theorem c07_longest_suffix : forall es qname class,
  match cat_lookup es qname class None with
  | None => forall e, In e es -> ~ ((e_class e =? class)%N = true /\ is_suffix (e_name e) qname = true)
  | Some e =>
    In e es /\ (e_class e =? class)%N = true /\ is_suffix (e_name e) qname = true /\
    forall e', In e' es -> (e_class e' =? class)%N = true -> is_suffix (e_name e') qname = true ->
               length (e_name e') <= length (e_name e)
  end.
Proof.
  intros es qname class. pose proof (cat_lookup_spec es qname class None _ eq_refl) as H.
  destruct (cat_lookup es qname class None) as [e|].
  - destruct H as ([H|H] & _ & C); [discriminate|]. destruct H as (A & B & D). repeat split; auto.
  - exact (proj2 H).
Qed.

(* NOTIMP / REFUSED / SERVFAIL responses set by these paths carry no records and have AA clear. *)
Theorem c07_error_responses_empty : forall w rc, no_data w -> no_data (set_rcode w rc) /\ w_rcode (set_rcode w rc) = rc.
Proof. exact set_rcode_no_data. Qed.

(* Records and AA only ever come from a clean QUERY answered out of a Loaded zone. *)
Theorem c07_data_only_from_loaded_zone : forall answer verify cfg req w, wf_cfg cfg -> wf_bytes req ->
  handle_message answer verify cfg req = Ok (Some w) -> ~ no_data w ->
  exists w0 q e z, prescan verify cfg req = Ok (PClean OPCODE_QUERY w0) /\ w_question w0 = Some q /\
    cat_lookup (c_catalog cfg) (name_key (q_name q)) (q_class q) None = Some e /\ e_kind e = ELoaded z /\
    w = apply_body w0 (answer z q (c_transport cfg) (w_avail w0 - w_cursor w0)).
Proof. exact data_only_from_loaded_zone. Qed.

Print Assumptions c07_dispatch.
Print Assumptions c07_query_table.
Print Assumptions c07_longest_suffix.
Print Assumptions c07_error_responses_empty.
Print Assumptions c07_data_only_from_loaded_zone.
