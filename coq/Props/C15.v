(* C15 — the message reader is total, atomic and faithful.
   Theorems are stated for ANY Rdata::read function [rd] that never panics and
   only succeeds when the RDATA lies inside the message (rd_total / rd_bounds);
   they are instantiated below with the modelled reader of the types that need no
   decompression ([rd_lite]); the full RDATA reader is the subject of C18. *)
From QV Require Import Base.ListX Model.NameWire Model.Reader Model.RdataLite
  Model.RdataFull Spec.NameWireS Spec.NameRepr Spec.ReaderS Proofs.NameWireP Proofs.ReaderP Proofs.RdataLiteP Proofs.RdataFullP.

Definition rd_total (rd : rdata_reader) := forall c t b cur l, rd c t b cur l <> Panic.
Definition rd_bounds (rd : rdata_reader) :=
  forall c t b cur l x, rd c t b cur l = Ok x -> cur + N.to_nat l <= length b.

(* Every operation returns a value or an error, never panics (rewind needs its mark). *)
Theorem c15_total : forall rd, rd_total rd -> rd_bounds rd ->
  forall r op, rinv r -> op_ok r op -> snd (step rd r op) <> Panic.
Proof. exact step_total. Qed.

(* An operation that fails leaves the reader (cursor and mark) unchanged. *)
Theorem c15_atomic : forall rd, rd_total rd -> rd_bounds rd ->
  forall r op e, rinv r -> snd (step rd r op) = Err e -> fst (step rd r op) = r.
Proof. exact step_atomic. Qed.

(* The invariant (>= 12 octets, cursor and mark inside the message) is preserved, so ... *)
Theorem c15_cursor_inv : forall rd, rd_total rd -> rd_bounds rd ->
  forall r op, rinv r -> rinv (fst (step rd r op)).
Proof. exact step_inv. Qed.

(* ... totality holds along every sequence of operations from any valid reader. *)
Theorem c15_total_seq : forall rd, rd_total rd -> rd_bounds rd ->
  forall ops r, rinv r -> ops_ok rd r ops ->
  rinv (fst (run rd r ops)) /\ Forall (fun o => o <> Panic) (snd (run rd r ops)).
Proof. exact run_total. Qed.

(* A freshly constructed reader satisfies the invariant. *)
Theorem c15_new_inv : forall b r, wf_bytes b -> reader_new b = Ok r -> rinv r.
Proof.
  intros b r Hwf H. unfold reader_new in H. change header_size with 12 in H.
  destruct (12 <=? length b) eqn:E; inversion H; subst. apply Nat.leb_le in E.
  unfold rinv; simpl. repeat split; auto; try lia. discriminate.
Qed.

(* Successful reads agree with the independent decoder on every field. *)
Theorem c15_faithful_question : forall r q, rinv r -> snd (read_question r) = Ok q ->
  exists ls, decodes_question (r_octets r) (r_cursor r) ls (q_type q) (q_class q)
               (r_cursor (fst (read_question r))) /\
             q_name q = name_of ls /\
             r_octets (fst (read_question r)) = r_octets r /\
             r_mark (fst (read_question r)) = r_mark r.
Proof. intros r q Hinv. exact (proj2 (proj2 (proj2 (read_question_facts r Hinv))) q). Qed.

Theorem c15_faithful_rr : forall rd, rd_total rd -> rd_bounds rd ->
  forall r rr, rinv r -> snd (read_rr rd r) = Ok rr ->
  exists ls raw_ttl rdlen rdstart,
    decodes_rr_fixed (r_octets r) (r_cursor r) ls (rr_type rr) (rr_class rr) raw_ttl rdlen rdstart
                     (r_cursor (fst (read_rr rd r))) /\
    rr_owner rr = name_of ls /\ rr_ttl rr = spec_ttl raw_ttl /\
    rd (rr_class rr) (rr_type rr) (r_octets r) rdstart rdlen = Ok (rr_rdata rr) /\
    r_octets (fst (read_rr rd r)) = r_octets r /\ r_mark (fst (read_rr rd r)) = r_mark r.
Proof. intros rd T B r rr Hinv. exact (proj2 (proj2 (proj2 (read_rr_facts rd T B r Hinv))) rr). Qed.

(* Peeking then parsing is reading. *)
Theorem c15_peek_consistent : forall rd, rd_total rd -> rd_bounds rd ->
  forall r rr, rinv r -> snd (read_rr rd r) = Ok rr ->
  exists p, peek_rr r = Ok p /\ peek_parse rd r p = read_rr rd r.
Proof. intros rd _ B. exact (peek_consistent rd B). Qed.

(* The modelled RDATA reader meets the two hypotheses, and returns the RDATA octets unchanged. *)
Theorem c15_rd_lite_ok : rd_total rd_lite /\ rd_bounds rd_lite.
Proof.
  split; [exact rd_lite_total|]. intros c t b cur l x H. exact (proj1 (rd_lite_bounds c t b cur l x H)).
Qed.

(* ... and so does the full Rdata::read model of C18 (every class/type, with name decompression),
   which is the reader the correspondence suite runs. *)
Theorem c15_rd_full_ok : rd_total rd_full /\ rd_bounds rd_full.
Proof. split; [exact rd_full_total|exact rd_full_bounds]. Qed.

(* Regression witness: before the fix: commit skip_rr/peek_rr panicked on a 13-octet message. *)
Theorem c15_total_refuted_prefix :
  let msg := [0;0;0;0; 0;0;0;1; 0;0;0;0; 0]%N in
  peek_core_prefix (mkReader msg 12 None) = Panic /\
  peek_core (mkReader msg 12 None) = Err UnexpectedEomInField.
Proof. exact peek_prefix_panics. Qed.

Print Assumptions c15_total.
Print Assumptions c15_atomic.
Print Assumptions c15_cursor_inv.
Print Assumptions c15_total_seq.
Print Assumptions c15_new_inv.
Print Assumptions c15_faithful_question.
Print Assumptions c15_faithful_rr.
Print Assumptions c15_peek_consistent.
Print Assumptions c15_rd_lite_ok.
Print Assumptions c15_rd_full_ok.
Print Assumptions c15_total_refuted_prefix.
