(* C11 — TSIG MACs match RFC 8945 and detect tampering.
   Statements only; every proof is [exact <lemma from Proofs/TsigMsgP.v>].
   [hmac] is universally quantified: the theorems hold for every MAC function (the
   second-preimage resistance of HMAC is the stated cryptographic assumption of c11_tamper). *)
From QV Require Import Base.ListX Model.TsigMsg Spec.Tsig8945S Spec.TsigRepr Proofs.TsigEncP Proofs.TsigMsgP Proofs.TsigInjP Proofs.TsigTotalP.

(* The octets the signer feeds to the authenticator are the digest components of RFC 8945
   4.3.1-4.3.3 / 5.3.1, in all three modes, for every message, key name, time, fudge, error,
   other data, original ID and prior MAC. *)
Theorem c11_sign_digest_eq : forall p t d m a sent_id,
  prepared_repr p t -> t_alg t = salg_name (alg_s a) -> wf_smsg m ->
  (N.of_nat (length (t_other t)) < 65536)%N -> (N.of_nat (length (dmode_mac d)) <= 65535)%N ->
  sign_digest p (sent_prefix sent_id m) (smode_of d) a = Ok (spec_digest d m t).
Proof. exact sign_digest_spec. Qed.

(* sign_request / sign_response / sign_subsequent return the RDATA of RFC 8945 4.2 carrying the
   full MAC of that digest, and the MAC itself; they do not panic. *)
Theorem c11_sign : forall hmac, (forall a k d, length (hmac a k d) = output_size a) ->
  forall p t d m a key sent_id,
  prepared_repr p t -> t_alg t = salg_name (alg_s a) -> wf_smsg m ->
  (N.of_nat (length (t_other t)) < 65536)%N -> (N.of_nat (length (dmode_mac d)) <= 65535)%N ->
  (N.of_nat (wire_len (t_alg t) + 16 + output_size a + length (t_other t)) <= 65535)%N ->
  sign hmac p (sent_prefix sent_id m) (smode_of d) a key = Ok (spec_sign (mac_fn_of hmac) d m t (alg_s a) key).
Proof. exact sign_spec. Qed.

(* Writer::finish_with_mac with BOTH set_edns and a signing set_tsig: the OPT RR (RFC 6891 6.1.2, with the
   upper extended-RCODE bits in its TTL) is appended first, and the TSIG RDATA / MAC are the RFC 8945 ones
   for the message INCLUDING that OPT RR - it precedes the TSIG RR, so it is under the MAC. *)
Theorem c11_finish_edns_tsig : forall hmac, (forall a k d, length (hmac a k d) = output_size a) ->
  forall p t d m a key sent_id e,
  prepared_repr p t -> t_alg t = salg_name (alg_s a) -> wf_smsg m ->
  (N.of_nat (length (t_other t)) < 65536)%N -> (N.of_nat (length (dmode_mac d)) <= 65535)%N ->
  (N.of_nat (wire_len (t_alg t) + 16 + output_size a + length (t_other t)) <= 65535)%N ->
  (e_extended_rcode_upper_bits e < 256)%N ->
  let m' := with_opt m (e_udp_payload_size e) (e_extended_rcode_upper_bits e) in
  finish_tail hmac (sent_prefix sent_id m) (Some e) (Some (tmode_of d a key, p)) =
  Ok (sent_prefix sent_id m',
      Some (fst (spec_sign (mac_fn_of hmac) d m' t (alg_s a) key),
            Some (snd (spec_sign (mac_fn_of hmac) d m' t (alg_s a) key)))).
Proof. exact finish_edns_tsig_spec. Qed.

(* ... and without EDNS the message is signed as it is. *)
Theorem c11_finish_plain_tsig : forall hmac, (forall a k d, length (hmac a k d) = output_size a) ->
  forall p t d m a key sent_id,
  prepared_repr p t -> t_alg t = salg_name (alg_s a) -> wf_smsg m ->
  (N.of_nat (length (t_other t)) < 65536)%N -> (N.of_nat (length (dmode_mac d)) <= 65535)%N ->
  (N.of_nat (wire_len (t_alg t) + 16 + output_size a + length (t_other t)) <= 65535)%N ->
  finish_tail hmac (sent_prefix sent_id m) None (Some (tmode_of d a key, p)) =
  Ok (sent_prefix sent_id m,
      Some (fst (spec_sign (mac_fn_of hmac) d m t (alg_s a) key), Some (snd (spec_sign (mac_fn_of hmac) d m t (alg_s a) key)))).
Proof. exact finish_plain_tsig_spec. Qed.

(* Reading the TSIG RR of 4.2 (owner and algorithm in any letter case) yields the fields. *)
Theorem c11_read : forall t, wf_stsig t ->
  read_tsig_try_from (tsig_read_rr t) = Ok (read_of t) /\
  r_time_signed (read_of t) = Some (u48 (t_time t)) /\ r_fudge (read_of t) = Some (t_fudge t) /\
  r_mac (read_of t) = Some (t_mac t) /\ r_original_id (read_of t) = Some (t_orig_id t) /\
  r_error (read_of t) = Some (t_error t) /\ r_other (read_of t) = Some (t_other t).
Proof. exact read_spec. Qed.

(* The verifier feeds the same RFC digest to the authenticator. *)
Theorem c11_verify_digest_eq : forall t d m sent_id, wf_stsig t -> wf_smsg m ->
  (N.of_nat (length (dmode_mac d)) <= 65535)%N ->
  read_digest (read_of t) (sent_prefix sent_id m) (vmode_of d) = Ok (spec_digest d m t).
Proof. exact read_digest_spec. Qed.

(* verify_* returns exactly what RFC 8945 5.2 prescribes, error precedence included. *)
Theorem c11_verify : forall hmac t d m a key now sent_id,
  wf_stsig t -> wf_smsg m -> canon (t_alg t) = salg_name (alg_s a) ->
  (now < 281474976710656)%N -> (N.of_nat (length (dmode_mac d)) <= 65535)%N ->
  verify hmac (read_of t) (sent_prefix sent_id m) (vmode_of d) a key (be48 now)
  = res_of (spec_verify (mac_fn_of hmac) d m t (alg_s a) key now).
Proof. exact verify_spec. Qed.

(* Ok iff the MAC size is allowed, the MAC is the leftmost octets of the MAC of the RFC digest,
   and |now - time signed| <= fudge. *)
Theorem c11_verify_iff : forall hmac t d m a key now sent_id,
  wf_stsig t -> wf_smsg m -> canon (t_alg t) = salg_name (alg_s a) ->
  (now < 281474976710656)%N -> (N.of_nat (length (dmode_mac d)) <= 65535)%N ->
  (verify hmac (read_of t) (sent_prefix sent_id m) (vmode_of d) a key (be48 now) = Ok tt
   <-> mac_len_ok (alg_s a) (length (t_mac t)) /\
       t_mac t = firstn (length (t_mac t)) (hmac a key (spec_digest d m t)) /\
       time_ok t now).
Proof. exact verify_iff_plain. Qed.

(* Error precedence: FormErr for a disallowed MAC size, else BadSig for a wrong MAC, else BadTime;
   never a panic. *)
Theorem c11_verify_errors : forall hmac t d m a key now sent_id,
  wf_stsig t -> wf_smsg m -> canon (t_alg t) = salg_name (alg_s a) ->
  (now < 281474976710656)%N -> (N.of_nat (length (dmode_mac d)) <= 65535)%N ->
  let v := verify hmac (read_of t) (sent_prefix sent_id m) (vmode_of d) a key (be48 now) in
  let okmac := mac_matches (mac_fn_of hmac) d m t (alg_s a) key in
  let oklen := mac_len_ok (alg_s a) (length (t_mac t)) in
  v <> Panic /\
  (v = Err VFormErr <-> ~ oklen) /\
  (v = Err BadSig <-> oklen /\ ~ okmac) /\
  (v = Err BadTime <-> oklen /\ okmac /\ ~ time_ok t now).
Proof. exact verify_errors. Qed.

(* check_time's u64 arithmetic on 48-bit times: the addition never saturates. *)
Theorem c11_check_time_no_overflow : forall ts fudge,
  (ts < 281474976710656)%N -> (fudge < 65536)%N -> (N.min (ts + fudge) u64_max = ts + fudge)%N.
Proof. exact check_time_no_overflow. Qed.

Theorem c11_check_time : forall t now,
  (t_time t < 281474976710656)%N -> (t_fudge t < 65536)%N -> (now < 281474976710656)%N ->
  check_time (u48 (t_time t)) (t_fudge t) (u48 now) = if time_okb t now then Ok tt else Err BadTime.
Proof. exact check_time_spec. Qed.

(* The digest encoding is injective on the covered fields, for equal lengths of the components
   that carry no length prefix (message body, key name, algorithm name): whatever covered octet
   changes, the MAC input changes. *)
Theorem c11_digest_injective : forall d d' m m' t t',
  same_mode d d' -> wf_smsg m -> wf_smsg m' -> wf_stsig t -> wf_stsig t' ->
  (N.of_nat (length (dmode_mac d)) < 65536)%N -> (N.of_nat (length (dmode_mac d')) < 65536)%N ->
  length (m_body m) = length (m_body m') ->
  length (canon_wire (t_key t)) = length (canon_wire (t_key t')) ->
  length (canon_wire (t_alg t)) = length (canon_wire (t_alg t')) ->
  spec_digest d m t = spec_digest d' m' t' ->
  dmode_mac d = dmode_mac d' /\ covered_msg m t = covered_msg m' t' /\
  match d with
  | DSubsequent _ => covered_timers t = covered_timers t'
  | _ => covered_vars t = covered_vars t'
  end.
Proof. exact digest_injective. Qed.

(* Tampering is detected: a message that differs from a verifying one in a covered field while
   carrying the same MAC is answered FORMERR or BADSIG - given that the MAC function does not
   collide on the two (distinct) digests at the truncation length in use.  That hypothesis is
   the cryptographic assumption; everything else is proved. *)
Theorem c11_tamper_rejected : forall mac_fn d d' m m' t t' a key now,
  same_mode d d' -> wf_smsg m -> wf_smsg m' -> wf_stsig t -> wf_stsig t' ->
  (N.of_nat (length (dmode_mac d)) < 65536)%N -> (N.of_nat (length (dmode_mac d')) < 65536)%N ->
  length (m_body m) = length (m_body m') ->
  length (canon_wire (t_key t)) = length (canon_wire (t_key t')) ->
  length (canon_wire (t_alg t)) = length (canon_wire (t_alg t')) ->
  mac_matches mac_fn d m t a key -> t_mac t' = t_mac t ->
  (dmode_mac d <> dmode_mac d' \/ covered_msg m t <> covered_msg m' t' \/
   match d with DSubsequent _ => covered_timers t <> covered_timers t' | _ => covered_vars t <> covered_vars t' end) ->
  (forall x y, x <> y -> x = spec_digest d m t -> y = spec_digest d' m' t' ->
     firstn (length (t_mac t)) (mac_fn a key x) <> firstn (length (t_mac t)) (mac_fn a key y)) ->
  spec_verify mac_fn d' m' t' a key now = SFormErr \/ spec_verify mac_fn d' m' t' a key now = SBadSig.
Proof. exact tamper_rejected. Qed.

(* The length side conditions of c11_digest_injective are necessary: RFC 8945 4.3 concatenates
   the message and the variables without a separator, so two different (message, TSIG) pairs
   with different body lengths can have the same digest (the Other Data of one holds the
   variables of the other). *)
Example c11_injectivity_needs_lengths :
  let k := [[97]]%N in let a := salg_name SSha1 in
  let t' := mkStsig k a 1 2 [] 7 0 [] in
  let t := mkStsig k a 3 4 [] 7 0 (comp_variables t') in
  let m := mkSmsg 0 0 0 0 0 0 [] in
  let m' := mkSmsg 0 0 0 0 0 0 (canon_wire k ++ u16 255 ++ u32 0 ++ canon_wire a ++ u48 3 ++ u16 4 ++ u16 0 ++ u16 32) in
  spec_digest DRequest m t = spec_digest DRequest m' t' /\ m_body m <> m_body m' /\ t_time t <> t_time t'.
Proof. cbv zeta. split; [vm_compute; reflexivity|]. split; [discriminate|vm_compute; discriminate]. Qed.

(* Non-vacuity: a concrete record, message and MAC function meet the hypotheses of c11_verify_iff
   and the verification succeeds; one second outside the fudge window it is BADTIME. *)
Example c11_example :
  let hmac := fun (a : alg) (k d : bytes) => firstn (output_size a) (k ++ d ++ repeat 0%N 32) in
  let m := mkSmsg 4660 256 1 0 0 0 [1; 97; 0; 0; 1; 0; 1]%N in
  let t0 := mkStsig [[107; 69; 121]]%N (salg_name SSha256) 1000 300 [] 4660 0 [] in
  let t := with_mac t0 (firstn 16 (hmac HmacSha256 [9; 9]%N (spec_digest DRequest m t0))) in
  wf_stsig t /\ wf_smsg m /\
  verify hmac (read_of t) (sent_prefix 1 m) VRequest HmacSha256 [9; 9]%N (be48 1300) = Ok tt /\
  verify hmac (read_of t) (sent_prefix 1 m) VRequest HmacSha256 [9; 9]%N (be48 1301) = Err BadTime /\
  verify hmac (read_of t) (sent_prefix 1 m) VRequest HmacSha256 [9; 8]%N (be48 1300) = Err BadSig.
Proof.
  cbv zeta. split.
  - unfold wf_stsig, valid_sname.
    repeat split;
      try (apply wf_bytesb_spec; vm_compute; reflexivity);
      try (apply N.ltb_lt; vm_compute; reflexivity);
      try (apply N.leb_le; vm_compute; reflexivity);
      try (apply Nat.leb_le; vm_compute; reflexivity);
      repeat constructor;
      try (apply wf_bytesb_spec; vm_compute; reflexivity);
      try (apply Nat.leb_le; vm_compute; reflexivity).
  - split; [unfold wf_smsg; repeat split; try (apply N.ltb_lt; vm_compute; reflexivity); apply wf_bytesb_spec; reflexivity|].
    repeat split; vm_compute; reflexivity.
Qed.

(* Totality on everything the Reader can deliver: ANY RDATA accepted by validate_as_tsig (not only
   encodings of structured records) converts without panic, and all accessor ranges lie inside it ... *)
Theorem c11_try_from_total : forall rr, validate_as_tsig (rr_rdata rr) = Ok tt ->
  rr_type rr = TYPE_TSIG -> rr_class rr = QCLASS_ANY -> rr_ttl rr = 0%N ->
  exists r, read_tsig_try_from rr = Ok r /\ r_rdata r = rr_rdata rr /\
    exists ol, r_algo_len r + r_mac_len r + ol + 16 = length (rr_rdata rr).
Proof. exact try_from_total. Qed.

(* ... and verify_* then never panics, for every message of at least 12 octets with ARCOUNT <> 0, with
   the algorithm looked up by the RR's algorithm name (what the server does). *)
Theorem c11_verify_total : forall hmac r ol msg mode a key now,
  r_algo_len r + r_mac_len r + ol + 16 = length (r_rdata r) ->
  alg_from_name (r_algorithm r) = Some a ->
  12 <= length msg -> be_dec (slice msg 10 12) <> 0%N ->
  (match mode with VResponse pm => (N.of_nat (length pm) <= 65535)%N | _ => True end) ->
  verify hmac r msg mode a key now <> Panic.
Proof. exact verify_total. Qed.

Print Assumptions c11_sign_digest_eq.
Print Assumptions c11_sign.
Print Assumptions c11_read.
Print Assumptions c11_verify_digest_eq.
Print Assumptions c11_verify.
Print Assumptions c11_verify_iff.
Print Assumptions c11_verify_errors.
Print Assumptions c11_check_time_no_overflow.
Print Assumptions c11_check_time.
Print Assumptions c11_digest_injective.
Print Assumptions c11_tamper_rejected.
Print Assumptions c11_try_from_total.
Print Assumptions c11_verify_total.
Print Assumptions c11_finish_edns_tsig.
Print Assumptions c11_finish_plain_tsig.
