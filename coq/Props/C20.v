(* C20 — the zone store holds exactly the records added to it.
   Statements only; every proof is [exact <lemma from Proofs/Zone*.v>].
   [req] is Rdata::equals, assumed transitive.  A zone is what HashMapTreeZone::new followed by any
   sequence of adds produces ([zone_build]; rejected adds are part of the history). *)
From QV Require Import Base.Res Base.Octets Gen.ZoneConsts Model.ZoneTree Spec.ZoneLookupS
  Model.RdataBuf Proofs.ZoneRrsetP Proofs.ZoneTopP Proofs.ZoneIterP Proofs.ZoneIterSmP Proofs.ZoneStoreP Proofs.RdataBufP
  Model.ZoneReal Spec.ZoneRealS Proofs.ZoneRealP.
From QV Require Model.RdataM Spec.RdataEqS Model.RdataSetM Proofs.RdataSetP.

(* the shared runner (Extract/ExZone.v) also extracts the validation model: keep it in this cone so
   that `make Props/...vo` rebuilds everything the extraction loads *)
From QV Require Model.ZoneValid Spec.ZoneValidS.


(* ================================================================================================
   The theorems for the REAL Rdata::equals: model side [req_real] = Model/RdataM.v [equals] (C19's model
   of Rdata::equals), specification side [spec_req] = Spec/RdataEqS.v [spec_equals] (the RFC
   characterisation).  Only hypothesis on the records: every RDATA is an octet string (u8 elements).
   Nothing is assumed about Rdata::equals. *)

Theorem c20_req_real_is_equals : forall c t a b, wf_bytes a -> wf_bytes b ->
  RdataM.equals c t a b = Ok (req_real c t a b) /\ req_real c t a b = RdataEqS.spec_equals c t a b.
Proof. intros c t a b Ha Hb. split; [apply equals_req_real|apply req_real_spec]; assumption. Qed.

Theorem c20_add_result_real : forall apex cls wide recs z, Forall wf_record recs ->
  zone_build req_real (zone_new apex cls wide) recs = Some z ->
  forall r, wf_record r ->
  exists z', zone_add req_real z r = Ok (z', add_verdict apex cls (accepted apex cls recs) r) /\
             (add_verdict apex cls (accepted apex cls recs) r <> None -> z' = z) /\
             zone_build req_real (zone_new apex cls wide) (recs ++ [r]) = Some z'.
Proof. exact real_add_result. Qed.

Theorem c20_iter_by_node_real : forall apex cls wide recs z, Forall wf_record recs ->
  zone_build req_real (zone_new apex cls wide) recs = Some z ->
  let R := accepted apex cls recs in
  NoDup (map (fun nd => lc (fst nd)) (zone_iter_by_node z)) /\
  (forall m, In m (map (fun nd => lc (fst nd)) (zone_iter_by_node z)) <->
             is_suffixb (lc apex) m && exists_name apex R m = true) /\
  (forall n d, In (n, d) (zone_iter_by_node z) -> d = spec_rrsets spec_req cls R (lc n)).
Proof. exact real_iter_nodes. Qed.

Theorem c20_iter_by_rrset_real : forall apex cls wide recs z, Forall wf_record recs ->
  zone_build req_real (zone_new apex cls wide) recs = Some z ->
  let R := accepted apex cls recs in
  (forall n rs, In (n, rs) (zone_iter_by_rrset z) ->
     spec_rrset spec_req cls R (lc n) (rs_type rs) = Some rs) /\
  (forall m ty rs, is_suffixb (lc apex) m = true -> spec_rrset spec_req cls R m ty = Some rs ->
     exists n, lc n = m /\ In (n, rs) (zone_iter_by_rrset z)) /\
  NoDup (map (fun x => (lc (fst x), rs_type (snd x))) (zone_iter_by_rrset z)).
Proof. exact real_iter_rrsets. Qed.

Theorem c20_iter_names_spelled_real : forall apex cls wide recs z, Forall wf_record recs ->
  zone_build req_real (zone_new apex cls wide) recs = Some z ->
  (forall n d, In (n, d) (zone_iter_by_node z) -> spelled apex (accepted apex cls recs) (lc n) = n) /\
  (forall n rs, In (n, rs) (zone_iter_by_rrset z) -> spelled apex (accepted apex cls recs) (lc n) = n).
Proof. exact real_iter_names_spelled. Qed.

Theorem c20_soa_ns_real : forall apex cls wide recs z, Forall wf_record recs ->
  zone_build req_real (zone_new apex cls wide) recs = Some z ->
  let R := accepted apex cls recs in
  zone_soa z = single_of spec_req cls R (lc apex) 6 /\ zone_ns z = single_of spec_req cls R (lc apex) 2 /\
  exists d, hd_error (zone_iter_by_node z) = Some (zone_name z, d) /\
            zone_soa z = option_map to_single (rr_lookup TYPE_SOA d) /\
            zone_ns z = option_map to_single (rr_lookup TYPE_NS d).
Proof. exact real_soa_ns. Qed.

(* what an RRset of the specification holds, in C19's terms: the RDATAs of the accepted records of that
   owner and type, reduced by [nodup_by spec_equals] — the function c19_set proves RdataSetOwned::from_iter
   computes and c19_set_meaning explains (subsequence in insertion order, members pairwise unequal,
   every input has an equal member, each member is the first of its equality class) *)
Theorem c20_rrset_is_c19_set : forall cls R m ty rs,
  spec_rrset spec_req cls R m ty = Some rs ->
  rs_type rs = ty /\
  rs_rdatas rs = RdataEqS.nodup_by (RdataEqS.spec_equals cls ty) [] (map r_rdata (records_at R m ty)).
Proof. exact spec_rrset_nodup_by. Qed.

(* the zone model keeps an RdataSetOwned as the list of its RDATAs; for the real equality that list-level
   insert IS C19's octet-buffer model of RdataSetOwned::insert (Model/RdataSetM.v: Vec<u8> with u16 length
   prefixes in either byte order, the loop over the members calling Rdata::equals with early exit): on a
   buffer holding [kept], insert of [r] never fails, returns the encoding of [rdataset_insert req_real kept r]
   and the flag "was inserted"; iterating that buffer yields the list back.  (RDATA of at most 65535 octets:
   the invariant of the Rdata type.) *)
Theorem c20_rdataset_real_buffer : forall be c t kept r,
  Forall RdataSetP.small kept -> Forall wf_bytes kept -> RdataSetP.small r -> wf_bytes r ->
  RdataSetM.set_insert be c t (RdataSetP.inner_of be kept) r =
    Ok (RdataSetP.inner_of be (rdataset_insert req_real c t kept r),
        negb (existsb (fun ex => req_real c t r ex) kept)) /\
  RdataSetM.set_iter be (RdataSetP.inner_of be (rdataset_insert req_real c t kept r)) =
    rdataset_insert req_real c t kept r.
Proof.
  intros be c t kept r Hs Hw Hr Hwr. split.
  - apply rdataset_insert_is_buffer; assumption.
  - apply rdataset_insert_buffer_iter; assumption.
Qed.

(* every RDATA stored in the zone is an octet string again (so the hypotheses of C19 hold for whatever
   is compared next) *)
Theorem c20_stored_rdata_real : forall apex cls wide recs z, Forall wf_record recs ->
  zone_build req_real (zone_new apex cls wide) recs = Some z ->
  forall n d rs rd, In (n, d) (zone_iter_by_node z) -> In rs d -> In rd (rs_rdatas rs) -> wf_bytes rd.
Proof. exact real_build_wf. Qed.

(* Non-vacuity with the real equality: SOA twice with MNAME/RNAME in other letter case (one RDATA), CH-class-
   free IN zone with SRV _x: same target in other case (one RDATA in class IN), NS valid / NS + junk in two
   cases (octet-wise: both junk variants kept). *)
Example c20_example_real :
  let c := [99%N] in
  let soa l := ([2; l; 115; 1; 99; 0; 1; 114; 1; 99; 0] ++ repeat 0 20)%N in
  let srv l := [0; 1; 0; 2; 0; 53; 2; l; 115; 1; 99; 0]%N in
  let ns l := [2; l; 115; 1; 99; 0]%N in
  let recs :=
    [ mk_record [c] 6 1 3600 (soa 110%N); mk_record [c] 6 1 3600 (soa 78%N);
      mk_record [c] 33 1 3600 (srv 110%N); mk_record [c] 33 1 3600 (srv 78%N);
      mk_record [c] 2 1 3600 (ns 110%N); mk_record [c] 2 1 3600 (ns 78%N);
      mk_record [c] 2 1 3600 (ns 110%N ++ [9%N]); mk_record [c] 2 1 3600 (ns 78%N ++ [9%N]) ] in
  Forall wf_record recs /\
  exists z, zone_build req_real (zone_new [c] 1 false) recs = Some z /\
    map snd (zone_iter_by_rrset z) =
      [mk_rrset 2 3600 [ns 110%N; ns 110%N ++ [9%N]; ns 78%N ++ [9%N]];
       mk_rrset 6 3600 [soa 110%N]; mk_rrset 33 3600 [srv 110%N]] /\
    zone_soa z = Some (3600%N, [soa 110%N]).
Proof.
  cbv zeta. split.
  - repeat constructor; apply wf_bytesb_spec; reflexivity.
  - eexists. split; [vm_compute; reflexivity|]. vm_compute. repeat split.
Qed.

(* ================================================================================================
   Parametric library versions: any RDATA equality that is transitive per (class, type). *)
Definition req_transitive (req : N -> N -> bytes -> bytes -> bool) : Prop :=
  forall cls ty a b c, req cls ty a b = true -> req cls ty b c = true -> req cls ty a c = true.

(* add never panics, returns exactly the verdict of the specification (computed from the flat
   list of records accepted so far), and a rejected add returns the SAME tree — hence every
   lookup and iteration is unchanged (despite the doc comment's disclaimer of atomicity). *)
Theorem c20_add_result : forall req, req_transitive req ->
  forall apex cls wide recs z r,
  zone_build req (zone_new apex cls wide) recs = Some z ->
  exists z', zone_add req z r = Ok (z', add_verdict apex cls (accepted apex cls recs) r) /\
             (add_verdict apex cls (accepted apex cls recs) r <> None -> z' = z) /\
             zone_build req (zone_new apex cls wide) (recs ++ [r]) = Some z'.
Proof. exact add_result. Qed.

(* the verdict is Ok exactly when the owner is at/below the apex, the class is the zone's, and the
   TTL equals that of the existing RRset of this owner and type (if any) *)
Theorem c20_add_ok_iff : forall req apex cls R r,
  add_verdict apex cls R r = None <->
  in_zone apex (r_owner r) = true /\ r_class r = cls /\
  (forall rs, spec_rrset req cls R (lc (r_owner r)) (r_type r) = Some rs -> rs_ttl rs = r_ttl r).
Proof. exact add_verdict_none. Qed.

(* and the error reported is the first failing condition, in the order of the code *)
Theorem c20_add_err_kind : forall apex cls R r,
  add_verdict apex cls R r =
    if negb (in_zone apex (r_owner r)) then Some NotInZone
    else if negb (r_class r =? cls)%N then Some ClassMismatch
    else if negb (ttl_ok R r) then Some TtlMismatch else None.
Proof. exact add_verdict_kinds. Qed.

(* iter_by_node yields every existing name (apex, owners and their ancestors down to the apex —
   empty non-terminals included) exactly once, each with exactly its RRsets in type order *)
Theorem c20_iter_by_node : forall req, req_transitive req ->
  forall apex cls wide recs z,
  zone_build req (zone_new apex cls wide) recs = Some z ->
  let R := accepted apex cls recs in
  NoDup (map (fun nd => lc (fst nd)) (zone_iter_by_node z)) /\
  (forall m, In m (map (fun nd => lc (fst nd)) (zone_iter_by_node z)) <->
             is_suffixb (lc apex) m && exists_name apex R m = true) /\
  (forall n d, In (n, d) (zone_iter_by_node z) -> d = spec_rrsets req cls R (lc n)).
Proof. exact build_iter_nodes. Qed.

(* iter_by_rrset yields exactly the RRsets the specification derives from the accepted records
   (first TTL, RDATAs in order of first appearance without later equal ones), each (owner, type) once *)
Theorem c20_iter_by_rrset : forall req, req_transitive req ->
  forall apex cls wide recs z,
  zone_build req (zone_new apex cls wide) recs = Some z ->
  let R := accepted apex cls recs in
  (forall n rs, In (n, rs) (zone_iter_by_rrset z) ->
     spec_rrset req cls R (lc n) (rs_type rs) = Some rs) /\
  (forall m ty rs, is_suffixb (lc apex) m = true -> spec_rrset req cls R m ty = Some rs ->
     exists n, lc n = m /\ In (n, rs) (zone_iter_by_rrset z)) /\
  NoDup (map (fun x => (lc (fst x), rs_type (snd x))) (zone_iter_by_rrset z)).
Proof. exact build_iter_rrsets. Qed.

(* the names iteration yields are spelled as the zone spells them (apex as given to new, any other
   name as in the first accepted record at or below it): with c20_iter_by_node / c20_iter_by_rrset
   this determines the iterated items exactly, letter case included *)
Theorem c20_iter_names_spelled : forall req, req_transitive req ->
  forall apex cls wide recs z,
  zone_build req (zone_new apex cls wide) recs = Some z ->
  (forall n d, In (n, d) (zone_iter_by_node z) -> spelled apex (accepted apex cls recs) (lc n) = n) /\
  (forall n rs, In (n, rs) (zone_iter_by_rrset z) -> spelled apex (accepted apex cls recs) (lc n) = n).
Proof. exact build_iter_names_spelled. Qed.

(* Node::iter as coded — the explicit-stack state machine driven until exhaustion — yields, for
   ANY tree, exactly the pre-order walk the theorems above talk about, within the model's fuel *)
Theorem c20_iter_state_machine : forall t, node_iter_sm t = Some (node_iter t).
Proof. exact node_iter_sm_correct. Qed.

(* RdataSetOwned as coded — one octet buffer, every RDATA behind its u16 length, a cursor walking it —
   is the list of RDATAs the zone model uses, for RDATA of at most 65535 octets (the invariant of the
   Rdata type): iterating the encoding of a list yields the list, and insert on the buffer is
   rdataset_insert on the list *)
Theorem c20_rdataset_buffer : forall l, Forall short l -> buf_rdatas (encode l) = l.
Proof. exact buf_rdatas_encode. Qed.

Theorem c20_rdataset_insert : forall req cls ty s rd, Forall short s ->
  buf_insert req cls ty (encode s) rd = encode (rdataset_insert req cls ty s rd).
Proof. exact buf_insert_encode. Qed.

(* soa() / ns() are the specification's apex SOA / NS RRsets and agree with the first item of the
   iteration (the apex node) *)
Theorem c20_soa_ns : forall req, req_transitive req ->
  forall apex cls wide recs z,
  zone_build req (zone_new apex cls wide) recs = Some z ->
  let R := accepted apex cls recs in
  zone_soa z = single_of req cls R (lc apex) 6 /\ zone_ns z = single_of req cls R (lc apex) 2 /\
  exists d, hd_error (zone_iter_by_node z) = Some (zone_name z, d) /\
            zone_soa z = option_map to_single (rr_lookup TYPE_SOA d) /\
            zone_ns z = option_map to_single (rr_lookup TYPE_NS d).
Proof. exact build_soa_ns. Qed.

(* every accepted record's owner is in the zone, so the side condition of c20_iter_by_rrset is
   met by every RRset of the accepted records — stated on the model: a non-vacuity example *)
Example c20_example :
  let a := [99%N] in let b := [98%N] in let uB := [66%N] in
  let recs :=
    [ mk_record [a] 6 1 3600 [0]%N;
      mk_record [[120%N]; b; a] 1 1 3600 [127; 0; 0; 1]%N;
      mk_record [[120%N]; uB; a] 1 1 3600 [127; 0; 0; 2]%N;
      mk_record [[120%N]; b; a] 1 1 3600 [127; 0; 0; 1]%N;
      mk_record [[120%N]; b; a] 1 1 60 [127; 0; 0; 3]%N;
      mk_record [b] 1 1 3600 [127; 0; 0; 4]%N;
      mk_record [b; a] 16 3 3600 [0]%N ] in
  exists z, zone_build req_simple (zone_new [a] 1 false) recs = Some z /\
    map (add_verdict [a] 1 (accepted [a] 1 (firstn 4 recs))) (skipn 4 recs)
      = [Some TtlMismatch; Some NotInZone; Some ClassMismatch] /\
    map (fun nd => lc (fst nd)) (zone_iter_by_node z) = [[a]; [b; a]; [[120%N]; b; a]] /\
    map snd (zone_iter_by_rrset z) =
      [mk_rrset 6 3600 [[0]%N]; mk_rrset 1 3600 [[127; 0; 0; 1]; [127; 0; 0; 2]]%N] /\
    zone_soa z = Some (3600%N, [[0]%N]) /\ zone_ns z = None.
Proof. cbv zeta. eexists. split; [vm_compute; reflexivity|]. vm_compute. repeat split. Qed.

Print Assumptions c20_req_real_is_equals.
Print Assumptions c20_add_result_real.
Print Assumptions c20_iter_by_node_real.
Print Assumptions c20_iter_by_rrset_real.
Print Assumptions c20_iter_names_spelled_real.
Print Assumptions c20_soa_ns_real.
Print Assumptions c20_rrset_is_c19_set.
Print Assumptions c20_rdataset_real_buffer.
Print Assumptions c20_stored_rdata_real.
Print Assumptions c20_add_result.
Print Assumptions c20_add_ok_iff.
Print Assumptions c20_add_err_kind.
Print Assumptions c20_iter_by_node.
Print Assumptions c20_iter_by_rrset.
Print Assumptions c20_iter_names_spelled.
Print Assumptions c20_iter_state_machine.
Print Assumptions c20_soa_ns.
Print Assumptions c20_rdataset_buffer.
Print Assumptions c20_rdataset_insert.
