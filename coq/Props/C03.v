(* C03 — responses echo the request header and question.
   [handle_message] is the model of Server::handle_message (Model/Server.v); [answer] (query
   answering, C05) and [verify] (TSIG HMAC verification, C10/C11) are universally quantified. *)
From QV Require Import Base.ListX Model.NameWire Model.Reader Model.RdataLite Model.Server
  Spec.NameWireS Spec.NameRepr Spec.ReaderS Proofs.ReaderP Proofs.ServerP.

(* No response at all exactly for: fewer than 12 octets, QR set, or more than one question. *)
Theorem c03_silent_iff : forall answer verify cfg req, wf_cfg cfg -> wf_bytes req ->
  (handle_message answer verify cfg req = Ok None <->
   (length req < 12 \/ rd_qr (r0_of req) = Ok true \/
    (exists qd, rd_qdcount (r0_of req) = Ok qd /\ (2 <= qd)%N))).
Proof. exact handle_message_silent_iff. Qed.

(* Every response carries the request's ID and opcode, RD only for opcode QUERY; the question is
   the one read from the request (or absent); QR=1, RA=0 and Z=0 are constants of the response
   type (rendered so by the correspondence runner and compared with the real octets). *)
Theorem c03_header_and_question : forall answer verify cfg req w, wf_cfg cfg -> wf_bytes req ->
  handle_message answer verify cfg req = Ok (Some w) ->
  hdr_echo req w /\ question_echo req w.
Proof.
  intros answer verify cfg req w Hc Hw H.
  destruct (handle_message_response answer verify cfg req w Hc Hw H) as (A & B & _). split; assumption.
Qed.

(* The echoed question is the spec-level decoding of the request's question. *)
Theorem c03_question_is_spec : forall req r1 q, wf_bytes req -> 12 <= length req ->
  read_question (r0_of req) = (r1, Ok q) ->
  exists ls, decodes_question req 12 ls (q_type q) (q_class q) (r_cursor r1) /\ q_name q = name_of ls.
Proof.
  intros req r1 q Hw H12 E. pose proof (read_question_facts (r0_of req) (r0_inv req Hw H12)) as (_ & _ & _ & F).
  rewrite E in F. cbn [fst snd] in F. destruct (F q eq_refl) as (ls & D & N & _). eauto.
Qed.

(* Non-vacuity: a 17-octet query for the root gets a response echoing it. *)
Example c03_example :
  let req := [18;52; 1;0; 0;1; 0;0; 0;0; 0;0; 0; 0;1; 0;1]%N in
  let cfg := mkConfig Udp 1232 1232 [] [] 0 in
  wf_cfg cfg /\ wf_bytes req /\
  exists w, handle_message (fun _ _ _ _ => empty_body) (fun _ _ _ _ _ _ => VOk) cfg req = Ok (Some w) /\
            w_id w = 4660%N /\ w_rcode w = RC_REFUSED /\ w_rd w = true.
Proof.
  cbv zeta. split; [unfold wf_cfg; cbn [c_edns_size c_transport c_buflen]; lia|]. split; [apply wf_bytesb_spec; reflexivity|].
  eexists. split; [vm_compute; reflexivity|]. repeat split.
Qed.

Print Assumptions c03_silent_iff.
Print Assumptions c03_header_and_question.
Print Assumptions c03_question_is_spec.
