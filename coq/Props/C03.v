(* C03 — responses echo the request header and question.
   [handle_message] is the model of Server::handle_message (Model/Server.v); [answer] (query
   answering, C05) and [verify] (TSIG HMAC verification, C10/C11) are universally quantified. *)
From QV Require Import Model.ZoneTree Model.Query Model.MsgWriter Spec.MsgWriterS Proofs.MsgWriterNameP Model.QueryW Proofs.ServerEchoWP
  Proofs.ServerPlainP Proofs.ServerHdrP Proofs.ServerHdr3P.
From QV Require Import Base.ListX Model.NameWire Model.Reader Model.RdataLite Model.Server
  Spec.NameWireS Spec.NameRepr Spec.ReaderS Spec.MsgWalkS Proofs.ReaderP Proofs.ServerP Proofs.ServerEchoP.

(* No response at all exactly for: fewer than 12 octets, QR set, or more than one question. *)
Theorem c03_silent_iff : forall answer verify cfg req, wf_cfg cfg -> wf_bytes req ->
  (handle_message answer verify cfg req = Ok None <->
   (length req < 12 \/ rd_qr (r0_of req) = Ok true \/
    (exists qd, rd_qdcount (r0_of req) = Ok qd /\ (2 <= qd)%N))).
Proof. exact handle_message_silent_iff. Qed.

(* Every response carries the request's ID and opcode, RD only for opcode QUERY; the question is
   the one read from the request (or absent); QR=1, RA=0 and Z=0 are constants of the response
   type (rendered so by the correspondence runner and compared with the real octets). *)
Theorem c03_header_and_question : forall answer verify cfg req w, wf_cfg cfg -> wf_bytes req ->
  handle_message answer verify cfg req = Ok (Some w) ->
  hdr_echo req w /\ question_echo req w.
Proof.
  intros answer verify cfg req w Hc Hw H.
  destruct (handle_message_response answer verify cfg req w Hc Hw H) as (A & B & _). split; assumption.
Qed.

(* The echoed question is the spec-level decoding of the request's question. *)
Theorem c03_question_is_spec : forall req r1 q, wf_bytes req -> 12 <= length req ->
  read_question (r0_of req) = (r1, Ok q) ->
  exists ls, decodes_question req 12 ls (q_type q) (q_class q) (r_cursor r1) /\ q_name q = name_of ls.
Proof.
  intros req r1 q Hw H12 E. pose proof (read_question_facts (r0_of req) (r0_inv req Hw H12)) as (_ & _ & _ & F).
  rewrite E in F. cbn [fst snd] in F. destruct (F q eq_refl) as (ls & D & N & _). eauto.
Qed.

(* Non-vacuity: a 17-octet query for the root gets a response echoing it. *)
Example c03_example :
  let req := [18;52; 1;0; 0;1; 0;0; 0;0; 0;0; 0; 0;1; 0;1]%N in
  let cfg := mkConfig Udp 1232 1232 [] [] 0 in
  wf_cfg cfg /\ wf_bytes req /\
  exists w, handle_message (fun _ _ _ _ => empty_body) (fun _ _ _ _ _ _ => VOk) cfg req = Ok (Some w) /\
            w_id w = 4660%N /\ w_rcode w = RC_REFUSED /\ w_rd w = true.
Proof.
  cbv zeta. split; [unfold wf_cfg; cbn [c_edns_size c_transport c_buflen]; lia|]. split; [apply wf_bytesb_spec; reflexivity|].
  eexists. split; [vm_compute; reflexivity|]. repeat split.
Qed.

(* ---- the octet-for-octet echo, as theorems over the BYTE-LEVEL composition -------------------------
   [respond_w] / [respond_plain] (Model/QueryW.v) are what the server-level runner executes for a
   response: Writer::new, id/QR/opcode/RD, add_question, EDNS reservation and limit, then either the
   whole query answering through the Writer interface or a bare RCODE, then finish — on the Writer
   model of C12.  [qname_uncompressed req]: the label sequence at offset 12 of the request ends in
   the root label (no compression pointer). *)

(* request side (C14/C15): the question the Reader returns, re-serialised (name wire form, case as
   received, big-endian QTYPE and QCLASS), IS the request's octets [12, end of the question) *)
Theorem c03_question_octets : forall req r1 q, wf_bytes req -> 12 <= length req ->
  read_question (r0_of req) = (r1, Ok q) -> qname_uncompressed req ->
  exists ls, Reader.q_name q = name_of ls /\ labels_of (Reader.q_name q) = ls /\
    r_cursor r1 = 12 + length (nm_wire ls ++ be16 (Reader.q_type q) ++ be16 (Reader.q_class q)) /\
    slice req 12 (r_cursor r1) = nm_wire ls ++ be16 (Reader.q_type q) ++ be16 (Reader.q_class q).
Proof. exact question_octets. Qed.

(* writer side (C12): whatever query answering adds afterwards, the finished message carries the first
   question uncompressed, case preserved, at offset 12 *)
Theorem c03_writer_keeps_question : forall negttl buf tcp id rd qname qtype qclass edns limit z len b,
  respond_w negttl buf tcp id rd qname qtype qclass edns limit z = Some (len, b) ->
  let Q := nm_wire qname ++ be16 qtype ++ be16 qclass in
  slice b 12 (12 + length Q) = Q /\ 12 + length Q <= len.
Proof. exact respond_w_question. Qed.

(* the composition: response octets [12, end of question) = request octets [12, end of question),
   for every response the server model sends with a question, answered (respond_w) or not (respond_plain) *)
Theorem c03_question_echo_octets : forall answer verify cfg req w q, wf_cfg cfg -> wf_bytes req ->
  handle_message answer verify cfg req = Ok (Some w) -> Server.w_question w = Some q -> qname_uncompressed req ->
  exists r1, read_question (r0_of req) = (r1, Ok q) /\ 12 <= length req /\
    (forall negttl buf tcp id rd edns limit z len b,
       respond_w negttl buf tcp id rd (labels_of (Reader.q_name q)) (Reader.q_type q) (Reader.q_class q) edns limit z = Some (len, b) ->
       r_cursor r1 <= len /\ slice b 12 (r_cursor r1) = slice req 12 (r_cursor r1)) /\
    (forall buf tcp id rd edns limit rcode len b,
       respond_plain buf tcp id rd (labels_of (Reader.q_name q)) (Reader.q_type q) (Reader.q_class q) edns limit rcode = Some (len, b) ->
       r_cursor r1 <= len /\ slice b 12 (r_cursor r1) = slice req 12 (r_cursor r1)).
Proof. exact handle_message_echo. Qed.

(* The header at the byte level, for the responses that do not come from query answering (REFUSED, NOTIMP
   for the special QTYPEs / QCLASS ANY, SERVFAIL): [respond_plain] is a run of the Writer operation language
   of C12 (respond_plain_run), so C12's message-level round trip applies: the INDEPENDENT RFC 1035 decoder of
   Spec/MsgWriterS.v, applied to the finished octets, returns the ID, QR = 1, opcode 0, AA = TC = 0, RD as
   given, RA = 0, Z = 0, the RCODE, exactly one question (the given name modulo ASCII case here; octet for
   octet by c03_writer_keeps_question), no answer/authority records, and — iff an EDNS size was given —
   exactly one OPT: owner root, class = that size, TTL field 0 (no extended-RCODE bits, version 0). *)
Theorem c03_plain_response_decodes : forall buf tcp id rd qname qt qc edns limit rcode len b,
  (id < 65536)%N -> wf_name qname -> length (nm_wire qname) <= 255 -> (qt < 65536)%N -> (qc < 65536)%N ->
  (rcode < 16)%N -> (forall sz, edns = Some sz -> (sz < 65536)%N) ->
  respond_plain buf tcp id rd qname qt qc edns limit rcode = Some (len, b) ->
  exists m, decode_msg (firstn len b) = Some m /\
    m_id m = id /\ N.testbit (m_flags2 m) 7 = true /\ ((m_flags2 m / 8) mod 16 = 0)%N /\
    N.testbit (m_flags2 m) 2 = false /\ N.testbit (m_flags2 m) 1 = false /\ N.testbit (m_flags2 m) 0 = rd /\
    N.testbit (m_flags3 m) 7 = false /\ ((m_flags3 m / 16) mod 8 = 0)%N /\ (m_flags3 m mod 16 = rcode)%N /\
    (exists d, m_qs m = [d] /\ map (map lower) qname = map (map lower) (dq_name d) /\ dq_type d = qt /\ dq_class d = qc) /\
    m_an m = [] /\ m_ns m = [] /\
    match edns with
    | None => m_ar m = []
    | Some sz => exists d, m_ar m = [d] /\ dr_owner d = [] /\ dr_type d = 41%N /\ dr_class d = sz /\ dr_ttl d = 0%N
    end.
Proof. exact respond_plain_decodes. Qed.

(* End to end from the request: a response of the server model with a question that does not come from query
   answering, rendered by the byte-level composition, decodes (independent decoder) to the REQUEST's ID, QR = 1,
   opcode 0, AA = TC = 0, the model's RD, RA = Z = 0, the RCODE, the question's type and class, no records, and an
   OPT (owner root, class = the configured payload size, TTL 0) exactly when the model's response is an EDNS one. *)
Theorem c03_plain_response_end_to_end : forall answer verify cfg req w q buf tcp limit rcode len b, wf_cfg cfg -> wf_bytes req ->
  handle_message answer verify cfg req = Ok (Some w) -> Server.w_question w = Some q -> (rcode < 16)%N ->
  respond_plain buf tcp (Server.w_id w) (Server.w_rd w) (labels_of (Reader.q_name q)) (Reader.q_type q) (Reader.q_class q)
                (option_map fst (Server.w_edns w)) limit rcode = Some (len, b) ->
  exists m, decode_msg (firstn len b) = Some m /\
    sbe16 req 0 = Some (m_id m) /\ N.testbit (m_flags2 m) 7 = true /\ ((m_flags2 m / 8) mod 16 = 0)%N /\
    N.testbit (m_flags2 m) 2 = false /\ N.testbit (m_flags2 m) 1 = false /\ N.testbit (m_flags2 m) 0 = Server.w_rd w /\
    N.testbit (m_flags3 m) 7 = false /\ ((m_flags3 m / 16) mod 8 = 0)%N /\ (m_flags3 m mod 16 = rcode)%N /\
    (exists d, m_qs m = [d] /\ dq_type d = Reader.q_type q /\ dq_class d = Reader.q_class q) /\
    m_an m = [] /\ m_ns m = [] /\
    match Server.w_edns w with
    | None => m_ar m = []
    | Some _ => exists d, m_ar m = [d] /\ dr_owner d = [] /\ dr_type d = 41%N /\ dr_class d = c_edns_size cfg /\ dr_ttl d = 0%N
    end.
Proof. exact plain_response_end_to_end. Qed.

(* ... and for the ANSWERED responses ([respond_w]: the whole query answering of C05 through the Writer of
   C12): the message starts with the given ID (big-endian) and its third octet has QR = 1, opcode 0 and RD as
   given, whatever query answering does (AA / TC share that octet and are set and cleared on the way; the
   RCODE is in the next one).  Invariant HK through every Writer-interface operation, clear_rrs and finish. *)
Theorem c03_answered_response_header : forall negttl buf tcp id rd qname qtype qclass edns limit z len b,
  respond_w negttl buf tcp id rd qname qtype qclass edns limit z = Some (len, b) ->
  slice b 0 2 = be16 id /\
  exists x, nth_error b 2 = Some x /\ (x < 256)%N /\ N.testbit x 7 = true /\ ((x / 8) mod 16 = 0)%N /\ N.testbit x 0 = rd.
Proof. exact respond_w_header. Qed.

(* ... and RA = 0, Z = 0: the fourth octet (RA | Z | RCODE) of every answered response is below 16.  It starts
   at 0, only set_rcode touches it, and the answering logic only passes RCODEs that fit in 4 bits (the lifting
   of Proofs/QueryInv16P.v requires set_rcode to preserve the invariant for such RCODEs only). *)
Theorem c03_answered_response_ra_z : forall negttl buf tcp id rd qname qtype qclass edns limit z len b,
  respond_w negttl buf tcp id rd qname qtype qclass edns limit z = Some (len, b) ->
  exists y, nth_error b 3 = Some y /\ (y < 16)%N.
Proof. exact respond_w_ra_z. Qed.

(* Non-vacuity: wWw.a. IN A, mixed case, REFUSED: the 11 question octets come back unchanged *)
Example c03_echo_example :
  let req := [18;52; 1;0; 0;1; 0;0; 0;0; 0;0; 3;119;87;119;1;97;0; 0;1; 0;1]%N in
  wf_bytes req /\ qname_uncompressed req /\
  exists r1 q len b, read_question (r0_of req) = (r1, Ok q) /\ r_cursor r1 = 23 /\
    respond_plain (repeat 0%N 64) false 4660 true (labels_of (Reader.q_name q)) (Reader.q_type q) (Reader.q_class q) None 512 5
      = Some (len, b) /\ len = 23 /\ slice b 12 23 = slice req 12 23.
Proof.
  cbv zeta. split; [apply wf_bytesb_spec; reflexivity|]. split; [exists 19; vm_compute; reflexivity|].
  do 4 eexists. split; [vm_compute; reflexivity|]. split; [reflexivity|]. split; [vm_compute; reflexivity|].
  split; reflexivity.
Qed.

Print Assumptions c03_silent_iff.
Print Assumptions c03_header_and_question.
Print Assumptions c03_question_is_spec.
Print Assumptions c03_question_octets.
Print Assumptions c03_writer_keeps_question.
Print Assumptions c03_question_echo_octets.
Print Assumptions c03_plain_response_decodes.
Print Assumptions c03_answered_response_header.
Print Assumptions c03_plain_response_end_to_end.
Print Assumptions c03_answered_response_ra_z.
