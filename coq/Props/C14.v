(* C14 — wire-format name decoding matches RFC 1035.
   Statements only; every proof is [exact <lemma from Proofs/NameWire.v>]. *)
From QV Require Import Base.ListX Model.NameWire Spec.NameWireS Spec.NameRepr Proofs.NameWireP Proofs.NameWireSP.

(* Decoding a possibly compressed name succeeds exactly on the inputs the
   independent relation [decodes_name] accepts, with the same name and the same
   first-chunk length — for every buffer and every start offset (in or out of range). *)
Theorem c14_parse_sound_complete : forall b start nm l, wf_bytes b ->
  (parse_compressed_name b start = Ok (nm, l) <->
   exists ls, decodes_name b start ls l /\ nm = name_of ls).
Proof. exact parse_compressed_iff. Qed.

(* It never panics and never runs out of the model's fuel. *)
Theorem c14_parse_total : forall b start,
  parse_compressed_name b start <> Panic /\ parse_compressed_name b start <> Err OutOfFuel.
Proof. exact parse_compressed_total. Qed.

(* When the independent decoder fails, an error (not a panic) is returned. *)
Theorem c14_parse_err : forall b start, wf_bytes b ->
  ~ (exists ls l, decodes_name b start ls l) ->
  exists e, parse_compressed_name b start = Err e /\ e <> OutOfFuel.
Proof. exact parse_compressed_err. Qed.

(* The relation is functional, so "the" name and length are well defined. *)
Theorem c14_spec_functional : forall b cs i ls e, decodes b cs i ls e ->
  forall ls' e', decodes b cs i ls' e' -> ls = ls' /\ e = e'.
Proof. exact decodes_fun. Qed.

(* Skipping agrees with parsing on acceptance and length. *)
Theorem c14_skip_agrees : forall b start nm l, wf_bytes b ->
  parse_compressed_name b start = Ok (nm, l) ->
  skip_compressed_name (skipn start b) = Ok l.
Proof. exact skip_agrees. Qed.

Theorem c14_skip_total : forall b,
  skip_compressed_name b <> Panic /\ skip_compressed_name b <> Err OutOfFuel.
Proof. exact skip_compressed_total. Qed.

(* Uncompressed parsing accepts exactly the pointer-free names (and, with
   use_all, only those that fill the buffer). *)
Theorem c14_uncompressed : forall b all nm l, wf_bytes b ->
  (parse_uncompressed_name b all = Ok (nm, l) <->
   exists ls, decodes_uncompressed b ls l /\ nm = name_of ls /\ (all = true -> l = length b)).
Proof. exact parse_uncompressed_iff. Qed.

Theorem c14_uncompressed_total : forall b all,
  parse_uncompressed_name b all <> Panic /\ parse_uncompressed_name b all <> Err OutOfFuel.
Proof. exact parse_uncompressed_total. Qed.

(* Validation is parsing without the allocation: same acceptance, same error, same length. *)
Theorem c14_validate_agrees : forall b all,
  validate_uncompressed_name b all = map_ok snd (parse_uncompressed_name b all).
Proof. exact validate_agrees. Qed.

(* The executable decoder used as the oracle on implementation output is the relation. *)
Theorem c14_oracle_is_spec : forall b start ls l,
  spec_decode_name b start = Some (ls, l) <-> decodes_name b start ls l.
Proof. exact spec_decode_name_iff. Qed.

(* Regression witness: the code as it was before the fix: commit panicked
   exactly for a start offset at or past the end of the buffer. *)
Theorem c14_start_eq_len_refuted_prefix : forall b start,
  parse_compressed_name_prefix b start = Panic <-> length b <= start.
Proof. exact prefix_panics_iff. Qed.

(* Non-vacuity: a concrete compressed name meets the hypotheses and decodes. *)
Example c14_example :
  let b := [1; 97; 0; 3; 119; 119; 119; 192; 0]%N in
  wf_bytes b /\
  parse_compressed_name b 3 = Ok (name_of [[119; 119; 119]; [97]]%N, 6) /\
  decodes_name b 3 [[119; 119; 119]; [97]]%N 6.
Proof.
  cbv zeta. split; [apply wf_bytesb_spec; reflexivity|]. split; [vm_compute; reflexivity|].
  exists 9. split; [|split; [reflexivity|vm_compute; lia]].
  set (b := [1; 97; 0; 3; 119; 119; 119; 192; 0]%N).
  refine (dec_label b 3 3 3%N [[97%N]] 9 eq_refl _ _ _ _); [lia|lia|simpl; lia|].
  refine (dec_ptr b 3 7 192%N 0%N [[97%N]] 3 eq_refl _ eq_refl _ _); [lia|simpl; lia|].
  refine (dec_label b 0 0 1%N [] 3 eq_refl _ _ _ _); [lia|lia|simpl; lia|].
  exact (dec_root b 0 2 eq_refl).
Qed.

Print Assumptions c14_parse_sound_complete.
Print Assumptions c14_parse_total.
Print Assumptions c14_parse_err.
Print Assumptions c14_spec_functional.
Print Assumptions c14_skip_agrees.
Print Assumptions c14_skip_total.
Print Assumptions c14_uncompressed.
Print Assumptions c14_uncompressed_total.
Print Assumptions c14_validate_agrees.
Print Assumptions c14_oracle_is_spec.
Print Assumptions c14_start_eq_len_refuted_prefix.
