(* C13 — name compression only emits valid, permitted pointers.
   Statements only; proofs are in Proofs/MsgWriter*P.v.  The theorems are about every single
   name the writer emits (owner names, QNAMEs, names inside RDATA), for every writer state that
   satisfies the invariant on the three compression anchors ([priors_ok]) and every hint that
   obeys the API contract.  That [priors_ok] is preserved across whole RR operations is not
   proved (docs/C13.md); the check decides the message-level statement on every run with the
   extracted specification (judge13) on the implementation's output. *)
From QV Require Import Spec.MsgWriterS.
From QV Require Import Base.ListX Model.MsgWriter Proofs.MsgWriterP Proofs.MsgWriterScanP
     Proofs.MsgWriterNameP Proofs.MsgWriterTabP Proofs.MsgWriterTopP Proofs.MsgWriterInvP
     Proofs.MsgWriterClosP Proofs.MsgWriterNameSP Proofs.MsgWriterLayP Proofs.MsgWriterOpP
     Proofs.MsgWriterStepP Proofs.MsgWriterMsgP Proofs.MsgWriterDecP Proofs.MsgWriterHdrP Proofs.MsgWriterRtP.
From QV Require Import Spec.MsgWriterAbsS.

(* What is written for an owner name is either the plain wire form, or k leading labels and
   ONE pointer; the pointer leads strictly before the first octet of this name, to a label
   (never to another pointer) from which the remaining labels of the name are decodable using
   only octets written earlier ([emitted], Proofs/MsgWriterNameP.v).  Never a panic. *)
Theorem c13_owner_pointer_valid : forall h n w, nb w -> wf_name n -> priors_ok w ->
  hint_contract h n w ->
  match write_hinted_name h n w with
  | Ok (_, w') => emitted (exactf (w_mode w)) n (w_buf w') (w_cursor w) (w_cursor w')
  | Err (e, _) => e = Truncation
  | Panic => False
  end.
Proof. exact top_hinted_emitted. Qed.

(* The same for QNAMEs and compressible names inside RDATA. *)
Theorem c13_unhinted_pointer_valid : forall n w, nb w -> wf_name n -> priors_ok w ->
  match write_unhinted_name n w with
  | Ok (_, w') => emitted (exactf (w_mode w)) n (w_buf w') (w_cursor w) (w_cursor w')
  | Err (e, _) => e = Truncation
  | Panic => False
  end.
Proof. exact top_unhinted_emitted. Qed.

(* The PriorName handed back (and pushed into hint vectors) is again a valid anchor. *)
Theorem c13_anchor_valid : forall h n w pr p w', nb w -> wf_name n -> priors_ok w ->
  hint_contract h n w -> write_hinted_name h n w = Ok (pr, w') -> pr = Some p ->
  prior_ok (w_buf w') (w_cursor w') p.
Proof. exact top_anchor. Qed.

(* The heuristic two-name scan never panics and only reports real suffix matches. *)
Theorem c13_scan_sound : forall b cur cp n o1 o2, oprior_ok b cur o1 -> oprior_ok b cur o2 ->
  exists cs, (let* c0 := opt_build b (nm_len n) o1 in
              let* c1 := opt_build b (nm_len n) o2 in
              scan b cp 0 n (c0, c1)) = Ok cs
             /\ forall m, longest_match cs = Some m -> match_ok b cur cp n m.
Proof. exact search_ok. Qed.

(* Compression disabled: no pointer, whatever the hint — the plain wire form is written. *)
Theorem c13_disabled_owner : forall h n w pr w', w_mode w = Disabled ->
  write_hinted_name h n w = Ok (pr, w') ->
  slice (w_buf w') (w_cursor w) (w_cursor w') = nm_wire n /\ w_cursor w' = w_cursor w + length (nm_wire n).
Proof. exact disabled_plain_hinted. Qed.

Theorem c13_disabled_unhinted : forall n w pr w', w_mode w = Disabled ->
  write_unhinted_name n w = Ok (pr, w') ->
  slice (w_buf w') (w_cursor w) (w_cursor w') = nm_wire n /\ w_cursor w' = w_cursor w + length (nm_wire n).
Proof. exact disabled_plain_unhinted. Qed.

(* SRV, Chaosnet A, unknown types: the regenerated component table has no compressible name
   outside RFC 1035's eleven name-carrying types, and an uncompressible name component is
   written in plain wire form. *)
Theorem c13_no_compressible_component : forall class ty, ~ In ty rfc1035_name_types ->
  Forall (fun c => c <> CtCompressible) (component_types class ty).
Proof. exact no_compressible_outside_1035. Qed.

Theorem c13_srv_ch_a_components :
  component_types CLASS_IN TYPE_SRV = [CtFixed 6; CtUncompressible] /\
  component_types CLASS_CH TYPE_A = [CtUncompressible].
Proof. split; reflexivity. Qed.

Theorem c13_uncompressible_plain : forall n w pr w', write_uncompressed_name n w = Ok (pr, w') ->
  slice (w_buf w') (w_cursor w) (w_cursor w') = nm_wire n /\ w_cursor w' = w_cursor w + length (nm_wire n).
Proof. exact uncompressed_plain. Qed.

(* ---- the anchor invariant, for ALL operation sequences ------------------------------------
   [L] is the ghost set of label starts of the names written so far; [NInv w h L] says: L is
   closed under the decoding step, every step from a member reads only octets of [12, cursor)
   outside the RDLENGTH field [h, h+2) of the record being written (so neither header writes nor
   RDLENGTH back-patching nor later appends change what a member decodes to), every member
   decodes, every pointer met leads strictly backwards to another member (a label, never a
   pointer), and the three compression anchors are members. *)

(* A name write under the invariant: never a panic; what is emitted is the plain wire form or
   k < |n| labels plus ONE pointer whose target is a member of the OLD set L (a label start of a
   name written earlier), strictly before this name; the invariant holds again for a set L' that
   only gained offsets inside the octets just written; the PriorName handed back is a member. *)
Theorem c13_owner_pointer_into_label_starts : forall hl h n w L, NInv w hl L -> wf_name n ->
  hint_contract h n w -> hint_in h w L ->
  match write_hinted_name h n w with
  | Ok (pr, w') => emittedL n (w_buf w') (w_cursor w) (w_cursor w') L /\
                   exists L', grew w w' L L' /\ NInv w' hl L' /\ (forall p, pr = Some p -> L' (p_ptr p)) /\
                              emittedT (exactf (w_mode w)) n (w_buf w') (w_cursor w) (w_cursor w') L L'
  | Err (e, _) => e = Truncation
  | Panic => False
  end.
Proof. exact hinted_into_label_starts. Qed.

Theorem c13_unhinted_pointer_into_label_starts : forall hl n w L, NInv w hl L -> wf_name n ->
  match write_unhinted_name n w with
  | Ok (pr, w') => emittedL n (w_buf w') (w_cursor w) (w_cursor w') L /\
                   exists L', grew w w' L L' /\ NInv w' hl L' /\ (forall p, pr = Some p -> L' (p_ptr p)) /\
                              emittedT (exactf (w_mode w)) n (w_buf w') (w_cursor w) (w_cursor w') L L'
  | Err (e, _) => e = Truncation
  | Panic => False
  end.
Proof. exact unhinted_into_label_starts. Qed.

(* Every operation preserves the full invariant [AInv] (which contains NInv for the whole state,
   the names every anchor and every live hint-vector slot stands for, and the QNAME anchor's
   independence of everything at or above rr_start) -- in particular across the RDLENGTH
   back-patch of add_rr, rollbacks of failed operations and clear_rrs. *)
Theorem c13_anchor_invariant_all_ops : forall d g L o, AInv d g L -> op_wf o -> op_contract d g o ->
  match step d o with
  | Ok (d', r) => exists L', AInv d' (gstep d g o r) L'
  | _ => False
  end.
Proof. exact step_ok_all. Qed.

(* The finished message of ANY operation sequence obeying the hint contract: there is a set LF of
   offsets in [12, len) that is closed under decoding inside the message: each member holds a label
   length octet, the next position is a member or a pointer leading strictly backwards to a member,
   and every member decodes to a name reading only the message body. *)
Theorem c13_message_pointers_valid_partial : forall buf limit w0 ops, writer_new buf limit = Ok w0 ->
  run_contract (mkD w0 []) g0 ops ->
  exists rr, run_writer buf limit ops = Ok rr /\
    match rr_final rr with
    | Some (len, b) =>
      exists LF, closed b header_size len (length b) LF /\ decodable b len LF /\ len <= length b
    | None => True
    end.
Proof. exact run_writer_ok. Qed.

(* MESSAGE LEVEL.  The finished message of ANY operation sequence obeying the hint contract has a
   layout [yF] (questions, then records incl. the OPT/TSIG pseudo-records) tiling [12, len) whose name
   chunks stand, in order, for the names of the abstract message of the succeeded operations; by
   [PLay] / [chunk_ok] / [shape_at] every chunk is the plain wire form, or k < |name| labels followed
   by ONE pointer pp with pp strictly before the chunk and pp a member of LF, and LF is EXACTLY the set
   of label starts (root octets included) of the chunks of the layout ([p_tight]); chunks of
   uncompressible RDATA names (SRV, Chaosnet A; [parts_at]: comp = false -> plain) carry no pointer, and
   RDATA without name components is raw octets ([parts_shape] against the regenerated component table,
   which has no compressible name outside RFC 1035's types: c13_no_compressible_component). *)
Theorem c13_message_pointers_valid : forall buf limit w0 ops, writer_new buf limit = Ok w0 ->
  run_contract (mkD w0 []) g0 ops ->
  exists rr, run_writer buf limit ops = Ok rr /\
    match rr_final rr with
    | Some (len, b) =>
      exists d wF LF yF,
        run (mkD w0 []) ops = Ok (d, rr_outcomes rr, true) /\
        (forall t, w_tsig (d_w d) = Some t -> tsig_wf t) /\
        len = w_cursor wF /\ b = w_buf wF /\ NInv wF (length b) LF /\
        PLay b LF yF (w_rr_start (d_w d)) len /\
        Forall2 q_desc (y_qs yF) (am_qs (areplay am0 ops (rr_outcomes rr))) /\
        Forall2 rr_desc2 (y_rrs yF)
          (am_an (areplay am0 ops (rr_outcomes rr)) ++ am_ns (areplay am0 ops (rr_outcomes rr)) ++
           am_ar (areplay am0 ops (rr_outcomes rr)) ++ pseudo (d_w d)) /\
        FLay (d_w d) (mkLay (y_qs yF) (firstn (length (y_rrs yF) - length (pseudo (d_w d))) (y_rrs yF)))
             (areplay am0 ops (rr_outcomes rr)) /\
        slice b 4 12 = be16 (w_qd (d_w d)) ++ be16 (w_an (d_w d)) ++ be16 (w_ns (d_w d)) ++ be16 (w_ar (d_w d)) /\
        agree 4 (w_buf (d_w d)) b
    | None => True
    end.
Proof. exact run_writer_layout. Qed.

(* THROUGH THE SPECIFICATION'S OWN CHECKER.  For every contract-obeying operation sequence the finished
   message decodes under the independent RFC 1035 decoder, and the decoded message passes the pointer
   rules of Spec/MsgWriterS.v (check_qs / check_rrs / check_name / check_parts -- the core of judge13):
   walking the names in message order, every pointer that ends a name's first chunk leads strictly before
   that name to a label start (root octets included) collected from the names decoded BEFORE it; the
   uncompressible RDATA names (SRV, Chaosnet A) carry no pointer; and an item written while compression
   was DISABLED carries no pointer at all -- for any expected-item lists whose a_nocomp flags are those
   of the mode each item of the abstract message was written in ([qflag], [rflag]). *)
Theorem c13_spec_pointer_rules_hold : forall buf limit w0 ops, writer_new buf limit = Ok w0 ->
  run_contract (mkD w0 []) g0 ops -> Forall op_wf ops -> Forall op_wf2 ops -> Forall op_wf3 ops ->
  exists rr, run_writer buf limit ops = Ok rr /\
    match rr_final rr with
    | Some (len, b) =>
      exists m, decode_msg (firstn len b) = Some m /\
        ptr_ok (firstn len b) m (am_qs (areplay am0 ops (rr_outcomes rr))) (am_an (areplay am0 ops (rr_outcomes rr)))
          (am_ns (areplay am0 ops (rr_outcomes rr)))
          (am_ar (areplay am0 ops (rr_outcomes rr)) ++
           pseudo_of (am_mode (areplay am0 ops (rr_outcomes rr))) (hreplay ah0 ops (rr_outcomes rr)))
    | None => True
    end.
Proof. exact pointer_rules. Qed.

(* Non-vacuity: after a question for "a." in a concrete buffer the hypotheses hold
   (QNAME anchor at offset 12), and writing "www.a." emits "www" + a pointer to offset 12. *)
Definition ex_w : writer :=
  mkW ([0;0;0;0;0;0;0;0;0;0;0;0; 1;97;0; 0;1;0;1]%N ++ repeat 0%N 30) 19 49 49 19 SecQuestion 1 0 0 0
      (Some (mkPrior 12 2)) None None Standard None None.
Example c13_example :
  nb ex_w /\ wf_name [[119; 119; 119]; [97]]%N /\ priors_ok ex_w /\
  match write_unhinted_name [[119; 119; 119]; [97]]%N ex_w with
  | Ok (_, w') => slice (w_buf w') 19 (w_cursor w') = [3; 119; 119; 119; 192; 12]%N
  | _ => False
  end.
Proof.
  split; [split; simpl; lia|]. split.
  { split; [|simpl; lia]. repeat constructor; simpl; lia. }
  split; [|vm_compute; reflexivity].
  split; [|split; exact I].
  unfold ex_w, oprior_ok, prior_ok; cbn [w_qname w_buf w_cursor p_ptr p_len].
  split; [lia|]. split; [apply Nat.leb_le; reflexivity|].
  split; [exists 1%N; split; reflexivity|].
  exists [[97%N]]. split; [|reflexivity].
  match goal with |- name_at ?B _ _ _ => set (b := B) end.
  change [[97%N]] with [slice b (12 + 1) (12 + 1 + N.to_nat 1)].
  apply na_label; [reflexivity|lia|lia|simpl; lia|].
  apply na_root; [simpl; lia|reflexivity].
Qed.

(* The extracted pointer-rule checker accepts a model run with pointers and rejects the same
   message with the pointer redirected to a non-label offset. *)
Definition ex13_ops : list wop :=
  [OAddQuestion [[119; 119; 119]; [97]]%N 1 1;
   OAddRr SecAnswer HsQname [[119; 119; 119]; [97]]%N 5 1 300 [1; 98; 1; 97; 0]%N false].
Example c13_judge_example :
  match run_writer (repeat 0%N 64) 64 ex13_ops with
  | Ok rr => judge13 64 64 ex13_ops (rr_outcomes rr) (rr_regs rr) (rr_final rr) = VOk
             /\ match rr_final rr with
                | Some (len, b) =>
                  judge13 64 64 ex13_ops (rr_outcomes rr) (rr_regs rr)
                          (Some (len, firstn 24 b ++ [13%N] ++ skipn 25 b)) <> VOk
                | None => False end
  | _ => False
  end.
Proof. vm_compute. split; [reflexivity|discriminate]. Qed.

(* the anchor invariant is satisfiable (fresh writer), and ex_w of the example above satisfies NInv's
   ingredients priors_ok / nb *)
Example c13_invariant_nonvacuous :
  match writer_new (repeat 0%N 64) 64 with
  | Ok w0 => AInv (mkD w0 []) g0 L0
  | _ => False
  end.
Proof.
  destruct (writer_new (repeat 0%N 64) 64) as [w0| |] eqn:E; [|vm_compute in E; discriminate..].
  eapply AInv_new; eauto.
Qed.

Print Assumptions c13_owner_pointer_valid.
Print Assumptions c13_unhinted_pointer_valid.
Print Assumptions c13_anchor_valid.
Print Assumptions c13_scan_sound.
Print Assumptions c13_disabled_owner.
Print Assumptions c13_disabled_unhinted.
Print Assumptions c13_no_compressible_component.
Print Assumptions c13_srv_ch_a_components.
Print Assumptions c13_uncompressible_plain.
Print Assumptions c13_owner_pointer_into_label_starts.
Print Assumptions c13_unhinted_pointer_into_label_starts.
Print Assumptions c13_anchor_invariant_all_ops.
Print Assumptions c13_message_pointers_valid_partial.
Print Assumptions c13_message_pointers_valid.
Print Assumptions c13_spec_pointer_rules_hold.
