(* C28 — rate limiting counts correctly under concurrent requests.
   Statements only; every proof is [exact <lemma from Proofs/RrlConcP.v>]. *)
From QV Require Import Base.Res Base.Octets Model.Rrl Model.RrlConc Model.RrlConcT Proofs.RrlP Proofs.RrlConcP Proofs.RrlConcTP.
Local Open Scope N_scope.

(* MAIN: ANY number of threads (one entry of [bursts] per thread: how many requests of the
   stream it handles), ANY schedule (which thread moves next, which clock value and random
   draw it sees; labels of blocked threads stutter), all clock readings inside one interval
   [lo, hi] shorter than a second in which the bucket gets no refill (cell_ok): once every
   thread has finished, exactly min(n, tokens) responses were sent and n - min(n, tokens) were
   limited, where tokens = what the bucket held at the start (avail).  No update to the
   shared count is lost or double-counted. *)
Theorem c28_exact : forall p k lo hi e bursts sched,
  wf_params p -> cell_ok p k hi e -> hi - lo < nanos_per_sec ->
  Forall (fun l => lo <= label_now l <= hi) sched ->
  let s' := crun p k (cinit e bursts) sched in
  all_done s' = true ->
  let n := N.of_nat (list_sum bursts) in
  N.of_nat (c_sent s') = N.min n (avail p k e) /\
  N.of_nat (c_limited s') = n - N.min n (avail p k e).
Proof. exact conc_exact. Qed.

(* On a fresh server (the bucket does not hold the stream's key yet): min(n, rate x window). *)
Theorem c28_exact_fresh : forall p k lo hi e bursts sched,
  wf_params p -> key_eqb (e_key e) k = false -> hi - lo < nanos_per_sec ->
  Forall (fun l => lo <= label_now l <= hi) sched ->
  let s' := crun p k (cinit e bursts) sched in
  all_done s' = true ->
  let n := N.of_nat (list_sum bursts) in
  let cap := rate_of p (k_category k) * p_window p in
  N.of_nat (c_sent s') = N.min n cap /\ N.of_nat (c_limited s') = n - N.min n cap.
Proof. exact conc_exact_fresh. Qed.

(* Table level (Model/RrlConcT.v): the whole `Vec<Mutex<Entry>>`, ONE LOCK PER BUCKET, threads of
   many streams (each thread its own key; Acquire waits only for its own bucket's lock), any
   schedule, every hash function: if no thread of another stream shares stream k's bucket, then
   once k's threads are done exactly min(n_k, tokens) of k's responses were sent — threads
   working on other buckets cannot disturb the count. *)
Theorem c28_table_exact : forall (hkey : key -> N) p k lo hi t work sched,
  wf_params p -> cell_ok p k hi (t_get t (slot hkey t k)) -> hi - lo < nanos_per_sec ->
  Forall (fun l => lo <= label_now l <= hi) sched ->
  (forall w, In w work -> fst w <> k -> slot hkey t (fst w) <> slot hkey t k) ->
  let s' := trun hkey p (tinit t work) sched in
  all_done (proj hkey k s') = true ->
  let n := N.of_nat (list_sum (bursts_of k work)) in
  let tokens := avail p k (t_get t (slot hkey t k)) in
  N.of_nat (ts_sent s' k) = N.min n tokens /\ N.of_nat (ts_limited s' k) = n - N.min n tokens.
Proof. exact table_exact. Qed.

(* what stream k sees of the table-level system is the single-bucket system, step for step *)
Theorem c28_table_projection : forall (hkey : key -> N) p k sched s, separated hkey k s ->
  proj hkey k (trun hkey p s sched) = crun p k (proj hkey k s) sched.
Proof. exact trun_proj. Qed.

(* The inductive invariant behind it (mutual exclusion, reads are current, every sent
   response took one token, limited only when empty, nothing pending is forgotten) holds
   initially and is kept by every step. *)
Theorem c28_invariant_init : forall p k hi e bursts, cell_ok p k hi e ->
  inv p k hi (avail p k e) (list_sum bursts) (cinit e bursts).
Proof. exact inv_init. Qed.

Theorem c28_invariant_step : forall p k lo hi A0 n s s' tid now rnd,
  wf_params p -> hi - lo < nanos_per_sec -> lo <= now <= hi ->
  inv p k hi A0 n s -> cstep p k s (tid, now, rnd) = Some s' -> inv p k hi A0 n s'.
Proof. exact inv_step. Qed.

(* No deadlock and no panic inside the critical section: while some thread is unfinished,
   some thread can take a step (so complete runs exist for every workload). *)
Theorem c28_progress : forall p k lo hi A0 n s now rnd,
  wf_params p -> hi - lo < nanos_per_sec -> lo <= now <= hi ->
  inv p k hi A0 n s -> all_done s = false ->
  exists tid s', cstep p k s (tid, now, rnd) = Some s'.
Proof. exact conc_progress. Qed.

(* Consequently every workload has a complete schedule inside the window: the hypothesis
   "all threads are done" of c28_exact is satisfiable for every number of threads and bursts. *)
Theorem c28_can_finish : forall p k lo hi e bursts, wf_params p -> cell_ok p k hi e ->
  hi - lo < nanos_per_sec -> lo <= hi ->
  exists sched, Forall (fun l => lo <= label_now l <= hi) sched /\
                all_done (crun p k (cinit e bursts) sched) = true.
Proof. exact conc_can_finish. Qed.

(* The critical section of the interleaving model is process_response on the stream's bucket. *)
Theorem c28_cell_step_is_process_response : forall (hname : bytes -> N) (hkey : key -> N) p t c k now rnd,
  subject_to_rrl c = true -> key_of hname p c = Some k -> t_len t <> 0 ->
  process_response hname hkey p t c now rnd =
  let idx := bucket_index hkey t k in
  let* (e', act) := cell_step p k (t_get t idx) now rnd in
  Ok (t_set t idx e', apply_action c act).
Proof. exact process_response_is_cell_step. Qed.

(* The theorem is about the lock: the same system without it loses an update (two
   responses sent with one token), the same schedule under the lock sends one. *)
Theorem c28_lockless_refuted :
  let s' := crun_nolock cw_params cw_key (cinit cw_cell [1%nat; 1%nat]) cw_sched in
  all_done s' = true /\ c_sent s' = 2%nat /\ avail cw_params cw_key cw_cell = 1 /\
  c_sent (crun cw_params cw_key (cinit cw_cell [1%nat; 1%nat]) cw_sched) = 1%nat.
Proof. exact lockless_loses_update. Qed.

(* Non-vacuity: three threads (2, 1, 2 requests), rate 3 x window 1, a 120-label schedule
   with waiting threads: the run completes, 3 sent, 2 limited. *)
Example c28_example :
  let s' := crun cx_params cw_key (cinit (mkEntry init_key 0 0) [2; 1; 2]%nat) cx_sched in
  all_done s' = true /\ c_sent s' = 3%nat /\ c_limited s' = 2%nat.
Proof. exact conc_example. Qed.

Print Assumptions c28_exact.
Print Assumptions c28_exact_fresh.
Print Assumptions c28_table_exact.
Print Assumptions c28_table_projection.
Print Assumptions c28_invariant_init.
Print Assumptions c28_invariant_step.
Print Assumptions c28_progress.
Print Assumptions c28_can_finish.
Print Assumptions c28_cell_step_is_process_response.
Print Assumptions c28_lockless_refuted.
