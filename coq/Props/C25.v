(* C25 — $INCLUDE behaves like textual inclusion with origin scoping.
   Statements only; proofs are in Proofs/ZfFsP.v. *)
From QV Require Import Base.Res Base.Octets Model.ZfFs Model.ZfMini Spec.ZfFsS Proofs.ZfFsP.

(* For every per-file line parser, every file system (also cyclic ones), every depth limit and
   every starting file: once the fuel exceeds some bound, iterating fs::Parser::next yields
   exactly the records (with path and line) of the structural expansion, followed by its
   first error if there is one.  In particular the iteration terminates (it is never the
   model's OutOfFuel for large fuel): the depth bound is the measure. *)
Theorem c25_stack_eq_expand :
  forall (Origin Own Ttl Cls Rec SErr L : Type)
         (pline : ctx Origin Own Ttl Cls -> L -> lres Origin Own Ttl Cls Rec SErr)
         (fs : path -> option (list (nat * L))) (max_depth : nat) p0 c0 t0,
  exists f0, forall fuel, f0 <= fuel ->
    run_stack Origin Own Ttl Cls Rec SErr L pline fs max_depth fuel [(p0, 0, c0, t0)] =
    result_of Rec SErr
      (fst (expand Origin Own Ttl Cls Rec SErr L pline fs max_depth [] p0 c0 t0))
      (final_of Origin Own Ttl Cls SErr (snd (expand Origin Own Ttl Cls Rec SErr L pline fs max_depth [] p0 c0 t0))).
Proof. intros. apply run_eq_expand. Qed.

Theorem c25_terminates :
  forall (Origin Own Ttl Cls Rec SErr L : Type)
         (pline : ctx Origin Own Ttl Cls -> L -> lres Origin Own Ttl Cls Rec SErr)
         (fs : path -> option (list (nat * L))) (max_depth : nat) p0 c0 t0,
  exists f0, forall fuel, f0 <= fuel ->
    run_stack Origin Own Ttl Cls Rec SErr L pline fs max_depth fuel [(p0, 0, c0, t0)] <> Err OutOfFuel.
Proof.
  intros. destruct (run_eq_expand Origin Own Ttl Cls Rec SErr L pline fs max_depth p0 c0 t0) as [f0 H].
  exists f0. intros fuel Hf. rewrite (H fuel Hf).
  destruct (final_of _ _ _ _ _ _); simpl; discriminate.
Qed.

(* Nesting deeper than the limit: an $INCLUDE met when no further level is allowed is the
   error IncludesTooDeep at that line, with the chain of includes that led there. *)
Theorem c25_depth :
  forall (Origin Own Ttl Cls Rec SErr L : Type)
         (pline : ctx Origin Own Ttl Cls -> L -> lres Origin Own Ttl Cls Rec SErr)
         (fs : path -> option (list (nat * L))) chain p c n l t ip o c',
  pline c l = LInc _ _ _ _ _ _ ip o c' ->
  expand Origin Own Ttl Cls Rec SErr L pline fs 0 chain p c ((n, l) :: t) =
  ([], OBad _ _ _ _ _ p (ETooDeep _ n (chain ++ [(p, n)]))).
Proof. intros. eapply expand_too_deep. eassumption. Qed.

(* The context functions of the code are the ones the property text describes. *)
Theorem c25_context_scoping :
  forall (Origin Own Ttl Cls : Type) (c e : ctx Origin Own Ttl Cls) (o : option Origin),
  ctx_for_include _ _ _ _ c o = start_ctx _ _ _ _ c o /\
  ctx_after_include _ _ _ _ c e = resume_ctx _ _ _ _ c e /\
  c_origin _ _ _ _ (resume_ctx _ _ _ _ c e) = c_origin _ _ _ _ c /\
  start_ctx _ _ _ _ c None = c.
Proof. intros. split; [apply start_ctx_eq|]. repeat split. Qed.

(* Non-vacuity: root includes sub/a with an origin; a record with omitted owner after the
   include uses the included file's last owner under the ROOT's restored origin. *)
Definition ex_fs (p : path) : option (list (nat * mline)) :=
  if list_eq_dec N.eq_dec p [114; 47; 122]%N (* "r/z" *) then
    Some [(1, MOrigin [101; 46]%N); (2, MInclude [115; 47; 97]%N (Some [111; 46]%N));
          (3, MRec None 5 [1; 2; 3; 4]%N); (4, MRec (Some [119]%N) 6 [1; 2; 3; 4]%N)]
  else if list_eq_dec N.eq_dec p [114; 47; 115; 47; 97]%N (* "r/s/a" *) then
    Some [(1, MRec (Some [120]%N) 7 [9; 9; 9; 9]%N); (2, MInclude [114; 47; 122]%N None)]
  else None.

Example c25_example :
  mini_run ex_fs 1 50 [114; 47; 122]%N =
  Ok ([([114; 47; 115; 47; 97], 1%nat, ([120; 46; 111; 46], 7, [9; 9; 9; 9]))]%N,
      Some ([114; 47; 115; 47; 97]%N,
            ETooDeep _ 2 [([114; 47; 122]%N, 2); ([114; 47; 115; 47; 97]%N, 2)])) /\
  mini_run (fun p => if list_eq_dec N.eq_dec p [114; 47; 115; 47; 97]%N
                     then Some [(1, MRec (Some [120]%N) 7 [9; 9; 9; 9]%N)] else ex_fs p) 1 50 [114; 47; 122]%N =
  Ok ([([114; 47; 115; 47; 97], 1%nat, ([120; 46; 111; 46], 7, [9; 9; 9; 9]));
       ([114; 47; 122], 3%nat, ([120; 46; 111; 46], 5, [1; 2; 3; 4]));
       ([114; 47; 122], 4%nat, ([119; 46; 101; 46], 6, [1; 2; 3; 4]))]%N, None).
Proof. split; vm_compute; reflexivity. Qed.

(* ======================================================================================= *)
(* The per-file parser as an ITERATOR WITH STATE (as in the Rust code: every stack entry owns a
   zone_file::Parser<File>), and its instance with the FULL zone-file parser model of C24.     *)
From Coq Require Import String Ascii.
From QV Require Import Model.NameWire Model.ZfReader Model.ZfParser Spec.ZfValidS Model.ZfInc Spec.ZfIncS
  Proofs.ZfIncP Proofs.ZfIncFullP Proofs.ZfIncLinesP Proofs.ZfPathP.

(* For every per-file iterator (next / context get / context set / creation on a file's content),
   file system and depth limit: if the spec's per-file budget k is not exhausted, then iterating
   fs::Parser::next (with enough fuel) yields exactly the records of the structural expansion
   [gexpand], followed by its first error / its end. *)
Theorem c25_iter_stack_eq_expand :
  forall (Origin Own Ttl Cls Rec SErr Num P F : Type)
         (pnext : P -> pres Origin Rec SErr Num P) (pctx : P -> ZfFs.ctx Origin Own Ttl Cls)
         (pwith : P -> ZfFs.ctx Origin Own Ttl Cls -> P) (pnew : F -> ZfFs.ctx Origin Own Ttl Cls -> P)
         (fs : path -> option F) (size : P -> nat) (max_depth : nat) p0 n0 s0 k,
  snd (gexpand Origin Own Ttl Cls Rec SErr Num P F pnext pctx pwith pnew fs size max_depth [] p0 k s0)
    <> GFuel _ _ _ _ _ _ ->
  exists f0, forall fuel, f0 <= fuel ->
    ZfInc.run Origin Own Ttl Cls Rec SErr Num P F pnext pctx pwith pnew fs max_depth fuel [(p0, n0, s0)] =
    (fst (gexpand Origin Own Ttl Cls Rec SErr Num P F pnext pctx pwith pnew fs size max_depth [] p0 k s0),
     gfinal_of Origin Own Ttl Cls SErr Num
       (snd (gexpand Origin Own Ttl Cls Rec SErr Num P F pnext pctx pwith pnew fs size max_depth [] p0 k s0))).
Proof. intros. apply run_eq_gexpand. assumption. Qed.

Theorem c25_iter_depth :
  forall (Origin Own Ttl Cls Rec SErr Num P F : Type)
         (pnext : P -> pres Origin Rec SErr Num P) (pctx : P -> ZfFs.ctx Origin Own Ttl Cls)
         (pwith : P -> ZfFs.ctx Origin Own Ttl Cls -> P) (pnew : F -> ZfFs.ctx Origin Own Ttl Cls -> P)
         (fs : path -> option F) (size : P -> nat) chain p k s n ip o s',
  pnext s = PInc _ _ _ _ _ n ip o s' ->
  gexpand Origin Own Ttl Cls Rec SErr Num P F pnext pctx pwith pnew fs size 0 chain p (S k) s =
  ([], GBad _ _ _ _ _ _ p (ITooDeep _ _ n (chain ++ [(p, n)]))).
Proof. intros. eapply gexpand_too_deep. eassumption. Qed.

(* The first-wave formulation (a file = pre-split logical lines + a pure line parser) is the special
   case of the iterator formulation whose per-file state is (context, remaining lines) and whose
   `next` skips the silent lines: the two structural expansions coincide (budget = lines + 1), and the
   iterator machine on such states yields the first-wave expansion. *)
Theorem c25_lines_are_iter :
  forall (Origin Own Ttl Cls Rec SErr L : Type)
         (pline : ZfFs.ctx Origin Own Ttl Cls -> L -> ZfFs.lres Origin Own Ttl Cls Rec SErr)
         (fs : path -> option (list (nat * L))) (max_depth : nat) p0 n0 c0 t0,
  gexpand Origin Own Ttl Cls Rec SErr nat (lstate Origin Own Ttl Cls L) (list (nat * L))
    (lnext Origin Own Ttl Cls Rec SErr L pline) (lctx Origin Own Ttl Cls L) (lwith Origin Own Ttl Cls L)
    (lnew Origin Own Ttl Cls L) fs (lsize Origin Own Ttl Cls L) max_depth [] p0 (S (length t0)) (c0, t0) =
  (fst (expand Origin Own Ttl Cls Rec SErr L pline fs max_depth [] p0 c0 t0),
   conv_out Origin Own Ttl Cls SErr (snd (expand Origin Own Ttl Cls Rec SErr L pline fs max_depth [] p0 c0 t0))) /\
  exists f0, forall fuel, f0 <= fuel ->
    ZfInc.run Origin Own Ttl Cls Rec SErr nat (lstate Origin Own Ttl Cls L) (list (nat * L))
      (lnext Origin Own Ttl Cls Rec SErr L pline) (lctx Origin Own Ttl Cls L) (lwith Origin Own Ttl Cls L)
      (lnew Origin Own Ttl Cls L) fs max_depth fuel [(p0, n0, (c0, t0))] =
    (fst (expand Origin Own Ttl Cls Rec SErr L pline fs max_depth [] p0 c0 t0),
     gfinal_of _ _ _ _ _ _ (conv_out Origin Own Ttl Cls SErr
                              (snd (expand Origin Own Ttl Cls Rec SErr L pline fs max_depth [] p0 c0 t0)))).
Proof.
  intros. split; [apply gexpand_lines; apply Nat.lt_succ_diag_r|apply lines_iter_run].
Qed.

(* "Relative include paths resolve against the including file's directory" (compute_path =
   Path::parent + Path::join), read at the string level: an includer `dir/base` (base without `/`,
   dir not empty and not ending in `/`) resolves `rel` to `dir/rel`, and to `rel` itself when rel is
   absolute; an includer that is a bare file name resolves `rel` to `rel`. *)
Theorem c25_relative_paths :
  forall dir base rel : bytes, base <> [] -> no_slash base ->
  compute_path base rel = Some rel /\
  (dir <> [] -> last dir 0%N <> 47%N ->
   compute_path (dir ++ 47%N :: base) rel =
   Some (match rel with (47%N :: _)%list => rel | _ => dir ++ 47%N :: rel end)).
Proof.
  intros dir base rel Hne Hb. split; [apply compute_path_bare; assumption|].
  intros Hd Hl. apply compute_path_in_dir; assumption.
Qed.

(* THE ZONE-FILE PARSER.  [full_run] = the include machine whose per-file parser is the model of
   <zone_file::Parser as Iterator>::next of C24 (Model/ZfParser.v) on the files' octets;
   [full_expand_root] = the structural expansion with the same parser.  A path names a regular file
   with its content (FFile) or a directory (FDir: File::open succeeds, the first read fails — the
   per-file parser reports an I/O error, GeneralIo).  For every file system in
   which every file that can be opened has a parent directory (the assumption stated in
   compute_path's comment), every depth limit, root path and root content: *)
Theorem c25_full_stack_eq_expand :
  forall (fs : path -> option fobj) (max_depth : nat) (p0 : path) (o0 : fobj),
  (forall p c, fs p = Some c -> has_parent p) -> has_parent p0 ->
  exists f0, forall fuel, f0 <= fuel ->
    full_run fs max_depth fuel [(p0, 0%N, full_root o0)] =
    (fst (full_expand_root fs max_depth p0 o0),
     gfinal_of _ _ _ _ _ _ (snd (full_expand_root fs max_depth p0 o0))).
Proof. intros fs d p0 c0 H1 H2. exact (full_run_eq_expand fs H1 d p0 c0 H2). Qed.

(* ... and the fuel is no assumption of the run: WHATEVER fuel the (extracted) machine is given, a result
   other than the model's own "out of fuel" is the structural expansion (runs are stable under more
   fuel).  ocaml/run_c25f.ml uses 200 000 and would print `out-of-fuel` otherwise. *)
Theorem c25_full_any_fuel :
  forall (fs : path -> option fobj) (max_depth : nat) (p0 : path) (o0 : fobj) (fuel : nat),
  (forall p c, fs p = Some c -> has_parent p) -> has_parent p0 ->
  snd (full_run fs max_depth fuel [(p0, 0%N, full_root o0)]) <> FOutOfFuel _ _ ->
  full_run fs max_depth fuel [(p0, 0%N, full_root o0)] =
  (fst (full_expand_root fs max_depth p0 o0), gfinal_of _ _ _ _ _ _ (snd (full_expand_root fs max_depth p0 o0))).
Proof. intros fs d p0 o0 fuel H1 H2. exact (full_run_any_fuel fs H1 d p0 o0 H2 fuel). Qed.

(* ... the run ends (for all large fuel) with the end of the root file or with an error of
   fs::Parser — never a panic, never the model's fuel (neither the machine's, nor the per-file
   parser's, nor the spec's budget) — and every record yielded through any nesting of includes is
   valid in the sense of C24 (good absolute owner, type not NULL/OPT/TSIG, RDATA accepted by the
   model of Rdata::validate): C24 holds across include boundaries. *)
Theorem c25_full_total_valid :
  forall (fs : path -> option fobj) (max_depth : nat) (p0 : path) (o0 : fobj),
  (forall p c, fs p = Some c -> has_parent p) -> has_parent p0 ->
  exists f0, forall fuel, f0 <= fuel ->
    exists items,
      (full_run fs max_depth fuel [(p0, 0%N, full_root o0)] = (items, FDone _ _) \/
       exists p e, full_run fs max_depth fuel [(p0, 0%N, full_root o0)] = (items, FBad _ _ p e)) /\
      Forall (fun it : full_item =>
                good_name (rr_owner (snd it)) /\ ~ In (rr_type (snd it)) forbidden_types /\
                rdata_validate (rr_class (snd it)) (rr_type (snd it)) (rr_rdata (snd it)) = Ok true) items.
Proof. exact full_run_total_valid. Qed.

(* [has_parent], the hypothesis of the theorems above (the assumption written in compute_path's doc
   comment), excludes exactly the empty path and "/" — neither can be opened as a zone file. *)
Theorem c25_has_parent_iff : forall p : path, has_parent p <-> p <> [] /\ p <> [47%N].
Proof.
  intros p. unfold has_parent. rewrite path_parent_none. tauto.
Qed.

(* WHAT CROSSES AN INCLUDE BOUNDARY, in the fields of zone_file::Context.  At an $INCLUDE line that
   can be followed, the expansion is: the included file parsed by a fresh parser (reader at line 1,
   column 1, outside parentheses, no error) whose context is the includer's previous owner,
   previous TTL, previous class and default TTL, with the origin named by the directive if there is
   one and the includer's otherwise; then the includer's own parser — its reader exactly where it
   was — with ITS OWN origin and the previous owner, previous TTL, previous class and default TTL
   ($TTL) the included file ended with. *)
Theorem c25_full_include_boundary :
  forall (fs : path -> option fobj) d chain p k s n ip org s' newp content,
  full_pnext s = PInc _ _ _ _ _ n ip org (FP s') -> compute_path p ip = Some newp -> fs newp = Some (FFile content) ->
  full_expand fs (S d) chain p (S k) s =
  (let child := FP (mkParser false (rd_new content)
                  (mkCtx (match org with Some o => Some o | None => ZfParser.c_origin (ps_ctx s') end)
                         (c_prev_owner (ps_ctx s')) (c_prev_ttl (ps_ctx s')) (c_prev_class (ps_ctx s'))
                         (c_default_ttl (ps_ctx s')))) in
   let '(it, o) := full_expand fs d (chain ++ [(p, n)]) newp (S (full_size child)) child in
   match o with
   | GCtx _ _ _ _ _ _ cend =>
       let '(it', o') := full_expand fs (S d) chain p k
                           (FP (mkParser (ps_error s') (ps_rd s')
                              (mkCtx (ZfParser.c_origin (ps_ctx s')) (c_owner _ _ _ _ cend) (c_ttl _ _ _ _ cend)
                                     (c_class _ _ _ _ cend) (c_dttl _ _ _ _ cend)))) in
       (it ++ it', o')
   | bad => (it, bad)
   end).
Proof. exact full_expand_include. Qed.

(* (the parser handed back at an $INCLUDE line is always one on a readable file, so the previous
   theorem covers every followed include of a regular file) and an $INCLUDE that names a DIRECTORY is
   the included "file"'s I/O error, reported against the directory's path; nothing resumes. *)
Theorem c25_full_include_directory :
  forall (fs : path -> option fobj) d chain p k s n ip org s' newp,
  full_pnext s = PInc _ _ _ _ _ n ip org s' -> compute_path p ip = Some newp ->
  (exists q, s' = FP q) /\
  (fs newp = Some FDir ->
   full_expand fs (S d) chain p (S k) s = ([], GBad _ _ _ _ _ _ newp (ISyntax _ _ EIo))).
Proof.
  intros fs d chain p k s n ip org s' newp H1 H2. split.
  - eapply full_pnext_inc_fp. exact H1.
  - intros H3. eapply full_expand_include_dir; eassumption.
Qed.

(* Non-vacuity on real text: the root sets origin e. and $TTL 5 and includes s/a with origin o.;
   the included file has a relative owner (x -> x.o.), then $TTL 60, $ORIGIN q. and y (-> y.q.);
   back in the root, the record with omitted owner gets y.q. (the included file's last owner), and
   `w` is relative to the root's RESTORED origin (w.e.) while its omitted TTL is the included
   file's $TTL 60 (the default TTL is not restored).  With depth limit 0 the $INCLUDE is an error. *)
Definition octets (s : string) : bytes := map N_of_ascii (list_ascii_of_string s).
Definition exf_root := octets "$ORIGIN e.
$TTL 5
$INCLUDE s/a o.
 7 IN A 1.2.3.4
w A 1.2.3.5
".
Definition exf_inc := octets "x 9 IN A 9.9.9.9
$TTL 60
$ORIGIN q.
y A 1.1.1.1
".
Definition exf (p : path) : option fobj :=
  if list_eq_dec N.eq_dec p (octets "r/z") then Some (FFile exf_root)
  else if list_eq_dec N.eq_dec p (octets "r/s/a") then Some (FFile exf_inc)
  else if list_eq_dec N.eq_dec p (octets "r/s/../s") then Some FDir else None.
Definition exf_view (x : list full_item * full_final) :=
  (map (fun it : full_item => (fst it, n_wire (rr_owner (snd it)), rr_ttl (snd it), rr_rdata (snd it))) (fst x), snd x).

Example c25_full_example :
  option_map exf_view (full_open_and_run exf 1 60 (octets "r/z")) =
  Some ([(octets "r/s/a", 1, [1; 120; 1; 111; 0], 9, [9; 9; 9; 9]);
         (octets "r/s/a", 4, [1; 121; 1; 113; 0], 60, [1; 1; 1; 1]);
         (octets "r/z", 4, [1; 121; 1; 113; 0], 7, [1; 2; 3; 4]);
         (octets "r/z", 5, [1; 119; 1; 101; 0], 60, [1; 2; 3; 5])]%N, FDone _ _) /\
  option_map exf_view (full_open_and_run exf 0 60 (octets "r/z")) =
  Some ([], FBad _ _ (octets "r/z") (ITooDeep _ _ 3%N [(octets "r/z", 3%N)])) /\
  full_expand_root exf 1 (octets "r/z") (FFile exf_root) =
  (fst (full_run exf 1 60 [(octets "r/z", 0%N, full_root (FFile exf_root))]),
   snd (full_expand_root exf 1 (octets "r/z") (FFile exf_root))) /\
  (* a file that includes the directory it lies in *)
  snd (full_run exf 1 60 [(octets "r/s/a", 0%N, full_root (FFile (octets "$INCLUDE ../s")))]) =
  FBad _ _ (octets "r/s/../s") (ISyntax _ _ EIo).
Proof. split; [|split; [|split]]; vm_compute; reflexivity. Qed.

Print Assumptions c25_stack_eq_expand.
Print Assumptions c25_terminates.
Print Assumptions c25_depth.
Print Assumptions c25_context_scoping.
Print Assumptions c25_iter_stack_eq_expand.
Print Assumptions c25_iter_depth.
Print Assumptions c25_full_stack_eq_expand.
Print Assumptions c25_full_total_valid.
Print Assumptions c25_full_include_boundary.
Print Assumptions c25_full_include_directory.
Print Assumptions c25_lines_are_iter.
Print Assumptions c25_relative_paths.
Print Assumptions c25_has_parent_iff.
Print Assumptions c25_full_any_fuel.
