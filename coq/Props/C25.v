(* C25 — $INCLUDE behaves like textual inclusion with origin scoping.
   Statements only; proofs are in Proofs/ZfFsP.v. *)
From QV Require Import Base.Res Base.Octets Model.ZfFs Model.ZfMini Spec.ZfFsS Proofs.ZfFsP.

(* For every per-file line parser, every file system (also cyclic ones), every depth limit and
   every starting file: once the fuel exceeds some bound, iterating fs::Parser::next yields
   exactly the records (with path and line) of the structural expansion, followed by its
   first error if there is one.  In particular the iteration terminates (it is never the
   model's OutOfFuel for large fuel): the depth bound is the measure. *)
Theorem c25_stack_eq_expand :
  forall (Origin Own Ttl Cls Rec SErr L : Type)
         (pline : ctx Origin Own Ttl Cls -> L -> lres Origin Own Ttl Cls Rec SErr)
         (fs : path -> option (list (nat * L))) (max_depth : nat) p0 c0 t0,
  exists f0, forall fuel, f0 <= fuel ->
    run_stack Origin Own Ttl Cls Rec SErr L pline fs max_depth fuel [(p0, 0, c0, t0)] =
    result_of Rec SErr
      (fst (expand Origin Own Ttl Cls Rec SErr L pline fs max_depth [] p0 c0 t0))
      (final_of Origin Own Ttl Cls SErr (snd (expand Origin Own Ttl Cls Rec SErr L pline fs max_depth [] p0 c0 t0))).
Proof. intros. apply run_eq_expand. Qed.

Theorem c25_terminates :
  forall (Origin Own Ttl Cls Rec SErr L : Type)
         (pline : ctx Origin Own Ttl Cls -> L -> lres Origin Own Ttl Cls Rec SErr)
         (fs : path -> option (list (nat * L))) (max_depth : nat) p0 c0 t0,
  exists f0, forall fuel, f0 <= fuel ->
    run_stack Origin Own Ttl Cls Rec SErr L pline fs max_depth fuel [(p0, 0, c0, t0)] <> Err OutOfFuel.
Proof.
  intros. destruct (run_eq_expand Origin Own Ttl Cls Rec SErr L pline fs max_depth p0 c0 t0) as [f0 H].
  exists f0. intros fuel Hf. rewrite (H fuel Hf).
  destruct (final_of _ _ _ _ _ _); simpl; discriminate.
Qed.

(* Nesting deeper than the limit: an $INCLUDE met when no further level is allowed is the
   error IncludesTooDeep at that line, with the chain of includes that led there. *)
Theorem c25_depth :
  forall (Origin Own Ttl Cls Rec SErr L : Type)
         (pline : ctx Origin Own Ttl Cls -> L -> lres Origin Own Ttl Cls Rec SErr)
         (fs : path -> option (list (nat * L))) chain p c n l t ip o c',
  pline c l = LInc _ _ _ _ _ _ ip o c' ->
  expand Origin Own Ttl Cls Rec SErr L pline fs 0 chain p c ((n, l) :: t) =
  ([], OBad _ _ _ _ _ p (ETooDeep _ n (chain ++ [(p, n)]))).
Proof. intros. eapply expand_too_deep. eassumption. Qed.

(* The context functions of the code are the ones the property text describes. *)
Theorem c25_context_scoping :
  forall (Origin Own Ttl Cls : Type) (c e : ctx Origin Own Ttl Cls) (o : option Origin),
  ctx_for_include _ _ _ _ c o = start_ctx _ _ _ _ c o /\
  ctx_after_include _ _ _ _ c e = resume_ctx _ _ _ _ c e /\
  c_origin _ _ _ _ (resume_ctx _ _ _ _ c e) = c_origin _ _ _ _ c /\
  start_ctx _ _ _ _ c None = c.
Proof. intros. split; [apply start_ctx_eq|]. repeat split. Qed.

(* Non-vacuity: root includes sub/a with an origin; a record with omitted owner after the
   include uses the included file's last owner under the ROOT's restored origin. *)
Definition ex_fs (p : path) : option (list (nat * mline)) :=
  if list_eq_dec N.eq_dec p [114; 47; 122]%N (* "r/z" *) then
    Some [(1, MOrigin [101; 46]%N); (2, MInclude [115; 47; 97]%N (Some [111; 46]%N));
          (3, MRec None 5 [1; 2; 3; 4]%N); (4, MRec (Some [119]%N) 6 [1; 2; 3; 4]%N)]
  else if list_eq_dec N.eq_dec p [114; 47; 115; 47; 97]%N (* "r/s/a" *) then
    Some [(1, MRec (Some [120]%N) 7 [9; 9; 9; 9]%N); (2, MInclude [114; 47; 122]%N None)]
  else None.

Example c25_example :
  mini_run ex_fs 1 50 [114; 47; 122]%N =
  Ok ([([114; 47; 115; 47; 97], 1%nat, ([120; 46; 111; 46], 7, [9; 9; 9; 9]))]%N,
      Some ([114; 47; 115; 47; 97]%N,
            ETooDeep _ 2 [([114; 47; 122]%N, 2); ([114; 47; 115; 47; 97]%N, 2)])) /\
  mini_run (fun p => if list_eq_dec N.eq_dec p [114; 47; 115; 47; 97]%N
                     then Some [(1, MRec (Some [120]%N) 7 [9; 9; 9; 9]%N)] else ex_fs p) 1 50 [114; 47; 122]%N =
  Ok ([([114; 47; 115; 47; 97], 1%nat, ([120; 46; 111; 46], 7, [9; 9; 9; 9]));
       ([114; 47; 122], 3%nat, ([120; 46; 111; 46], 5, [1; 2; 3; 4]));
       ([114; 47; 122], 4%nat, ([119; 46; 101; 46], 6, [1; 2; 3; 4]))]%N, None).
Proof. split; vm_compute; reflexivity. Qed.

Print Assumptions c25_stack_eq_expand.
Print Assumptions c25_terminates.
Print Assumptions c25_depth.
Print Assumptions c25_context_scoping.
