(* C29 — worker pools run every accepted task and shut down cleanly.
   Statements only; every proof is [exact <lemma from Proofs/Pool*.v>].
   [step true] is the LTS of the repaired src/thread.rs, [step false] the loop as it was;
   [reachable fx s] = s is reached from a state right after ThreadGroup::start_pool (any
   number of permanent workers, submitters with arbitrary programs, shutdown and await
   callers) by ANY finite sequence of labels, i.e. under every interleaving, every
   notify_one choice, every spurious wake-up and every timer firing. *)
From Coq Require Import Permutation.
From QV Require Import Model.Pool Model.PoolTrace Spec.PoolS Proofs.PoolLemmas Proofs.PoolInv Proofs.PoolP
  Proofs.PoolProgress Proofs.PoolMeasure Proofs.PoolTraceP Proofs.PoolWitness.

(* The invariant is inductive: it survives every step of every thread. *)
Theorem c29_inv_step : forall s l s', Inv s -> step true s l = Some s' -> Inv s'.
Proof. exact inv_step. Qed.

Theorem c29_inv_reachable : forall s, reachable true s -> Inv s.
Proof. exact inv_reachable. Qed.

(* Every accepted task is in exactly one of {queued, running, done}; no task is started twice. *)
Theorem c29_exactly_once : forall s, reachable true s -> exactly_one_place s /\ never_twice s.
Proof. exact exactly_once_reachable. Qed.

(* Once an await_shutdown call has returned, all accepted tasks are done, nothing is
   queued or running, and no thread of the group is live. *)
Theorem c29_await : forall s, reachable true s -> await_ok s.
Proof. exact await_reachable. Qed.

(* A submit / submit_or_spawn whose pool section runs after the pool's shutdown returns
   Err(ShuttingDown) and changes nothing; with both flags set nothing is accepted at all. *)
Theorem c29_reject : forall fx, rejects_after_shutdown fx.
Proof. exact rejects_after_shutdown_all. Qed.

Theorem c29_closed : forall fx, closed_after_shutdown fx.
Proof. exact closed_after_shutdown_all. Qed.

(* Whenever ThreadGroup::shut_down has set its flag and the group lock is free (in
   particular once the call has returned) the pool's flag is set too, so by c29_reject
   every later submission is refused. *)
Theorem c29_group_shutdown_closes_pool : forall s, reachable true s -> gsd s = true -> glock s = false -> psd s = true.
Proof. exact group_shutdown_closes_pool. Qed.

(* `available_workers -= 1` and `thread_count -= 1` never underflow (no panic). *)
Theorem c29_no_underflow : forall s, reachable true s -> crashed s = false.
Proof. exact no_crash_reachable. Qed.

(* No deadlock: in every reachable state in which ThreadGroup::shut_down has set its flag,
   either every thread is finished or some thread can take a step that is neither a
   spurious wake-up nor a timer firing. *)
Theorem c29_progress : forall s, reachable true s -> no_deadlock true s.
Proof. exact no_deadlock_reachable. Qed.

(* ... and once both shutdown flags are set every such step strictly decreases the
   measure [mu] in a well-founded order: shutdown terminates, without fairness assumption. *)
Theorem c29_measure : decreases_after_shutdown true mu.
Proof. exact mu_decreases_reachable. Qed.

Theorem c29_measure_wf : well_founded lex_lt.
Proof. exact lex_lt_wf. Qed.

(* Trace validation is sound: a recorded trace that [validate] accepts from an initial
   state is the image of a run of the LTS, so its end state enjoys the theorems above. *)
Theorem c29_trace_sound : forall fx s0 evs s, initial s0 -> validate fx s0 evs 0 = (s, None) -> reachable fx s.
Proof. exact validate_reachable. Qed.

Theorem c29_trace_safe : forall s0 evs s, initial s0 -> validate true s0 evs 0 = (s, None) ->
  exactly_one_place s /\ never_twice s /\ await_ok s /\ crashed s = false.
Proof. exact validated_trace_safe. Qed.

(* The loop as it was violates the property: a reachable state of [step false] in which
   await_shutdown has returned while an accepted task is still queued and was never started. *)
Theorem c29_await_refuted_prefix :
  exists s, run false w_init (w_prefix ++ w_old_suffix) = Some s /\
            await_returned s /\ next s = 2 /\ queue s = [1] /\ started s = [0] /\ done s = [0] /\
            tcount s = 0 /\ ~ await_ok s.
Proof. exact old_loop_strands_task. Qed.

(* Non-vacuity: the witness starts in an initial state; the repaired loop refuses the
   old exit after the same prefix and takes the task instead. *)
Example c29_witness_initial : initial w_init.
Proof. exact w_initial. Qed.

Example c29_fixed_takes_task :
  exists s, run true w_init w_prefix = Some s /\
            step true s (LWork 3 false WExitTo None) = None /\
            exists s', step true s (LWork 3 false WTake None) = Some s' /\
                       nth_error (thr s') 3 = Some (WRun Aux 1) /\ queue s' = [].
Proof. exact fixed_loop_takes_task. Qed.

(* Non-vacuity of c29_await / c29_measure: a reachable state of the repaired LTS in which
   await_shutdown has returned with both shutdown flags set and both tasks done. *)
Example c29_fixed_full_run :
  exists s, run true w_init (w_prefix ++ w_fixed_suffix) = Some s /\
            reachable true s /\ await_returned s /\ next s = 2 /\ done s = [1; 0] /\
            psd s = true /\ gsd s = true.
Proof. exact fixed_loop_full_run. Qed.

Print Assumptions c29_inv_step.
Print Assumptions c29_inv_reachable.
Print Assumptions c29_exactly_once.
Print Assumptions c29_await.
Print Assumptions c29_reject.
Print Assumptions c29_closed.
Print Assumptions c29_group_shutdown_closes_pool.
Print Assumptions c29_no_underflow.
Print Assumptions c29_progress.
Print Assumptions c29_measure.
Print Assumptions c29_measure_wf.
Print Assumptions c29_trace_sound.
Print Assumptions c29_trace_safe.
Print Assumptions c29_await_refuted_prefix.
