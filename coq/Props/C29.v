(* C29 — worker pools run every accepted task and shut down cleanly.
   Statements only; every proof is [exact <lemma from Proofs/Pool*.v>].
   [step true] is the LTS of the repaired src/thread.rs, [step false] the loop as it was;
   [reachable fx s] = s is reached from a state right after ThreadGroup::start_pool (any
   number of permanent workers, submitters with arbitrary programs, shutdown and await
   callers) by ANY finite sequence of labels, i.e. under every interleaving, every
   notify_one choice, every spurious wake-up and every timer firing. *)
From Coq Require Import Permutation.
From QV Require Import Model.Pool Spec.PoolS Proofs.PoolLemmas Proofs.PoolInv Proofs.PoolP Proofs.PoolWitness.

(* The invariant is inductive: it survives every step of every thread. *)
Theorem c29_inv_step : forall s l s', Inv s -> step true s l = Some s' -> Inv s'.
Proof. exact inv_step. Qed.

Theorem c29_inv_reachable : forall s, reachable true s -> Inv s.
Proof. exact inv_reachable. Qed.

(* Every accepted task is in exactly one of {queued, running, done}; no task is started twice. *)
Theorem c29_exactly_once : forall s, reachable true s -> exactly_one_place s /\ never_twice s.
Proof.
  exact (fun s R => conj (exactly_one_place_inv s (inv_reachable s R)) (never_twice_inv s (inv_reachable s R))).
Qed.

(* Once an await_shutdown call has returned, all accepted tasks are done, nothing is
   queued or running, and no thread of the group is live. *)
Theorem c29_await : forall s, reachable true s -> await_ok s.
Proof. exact (fun s R => await_ok_inv s (inv_reachable s R)). Qed.

(* A submit / submit_or_spawn whose pool section runs after the pool's shutdown returns
   Err(ShuttingDown) and changes nothing; with both flags set nothing is accepted at all. *)
Theorem c29_reject : forall fx, rejects_after_shutdown fx.
Proof. exact rejects_after_shutdown_all. Qed.

Theorem c29_closed : forall fx, closed_after_shutdown fx.
Proof. exact closed_after_shutdown_all. Qed.

(* `available_workers -= 1` and `thread_count -= 1` never underflow (no panic). *)
Theorem c29_no_underflow : forall s, reachable true s -> crashed s = false.
Proof. exact (fun s R => no_crash_inv s (inv_reachable s R)). Qed.

(* The loop as it was violates the property: a reachable state of [step false] in which
   await_shutdown has returned while an accepted task is still queued and was never started. *)
Theorem c29_await_refuted_prefix :
  exists s, run false w_init (w_prefix ++ w_old_suffix) = Some s /\
            await_returned s /\ next s = 2 /\ queue s = [1] /\ started s = [0] /\ done s = [0] /\
            tcount s = 0 /\ ~ await_ok s.
Proof. exact old_loop_strands_task. Qed.

(* Non-vacuity: the witness starts in an initial state; the repaired loop refuses the
   old exit after the same prefix and takes the task instead. *)
Example c29_witness_initial : initial w_init.
Proof. exact w_initial. Qed.

Example c29_fixed_takes_task :
  exists s, run true w_init w_prefix = Some s /\
            step true s (LWork 3 false WExitTo None) = None /\
            exists s', step true s (LWork 3 false WTake None) = Some s' /\
                       nth_error (thr s') 3 = Some (WRun Aux 1) /\ queue s' = [].
Proof. exact fixed_loop_takes_task. Qed.

Print Assumptions c29_inv_step.
Print Assumptions c29_inv_reachable.
Print Assumptions c29_exactly_once.
Print Assumptions c29_await.
Print Assumptions c29_reject.
Print Assumptions c29_closed.
Print Assumptions c29_no_underflow.
Print Assumptions c29_await_refuted_prefix.
