(* C06 — zone lookups follow RFC 1034 §4.3.2 and RFC 4592.
   Statements only; every proof is [exact <lemma from Proofs/Zone*.v>].

   [req] is Rdata::equals (class, type, new, existing); only its transitivity is assumed.
   [zone_build req (zone_new apex cls wide) recs] is the zone obtained from HashMapTreeZone::new
   followed by one add per element of [recs] in order (rejected adds included: they leave the
   tree unchanged, see C20); [accepted apex cls recs] is the flat list of the records the
   specification says are accepted.  [spec_lookup*] never looks at a tree. *)
From QV Require Import Base.Res Base.Octets Model.ZoneTree Spec.ZoneLookupS Proofs.ZoneTopP Proofs.ZoneSpellP
  Model.ZoneReal Spec.ZoneRealS Proofs.ZoneRealP.
From QV Require Model.RdataM Spec.RdataEqS.

(* the shared runner (Extract/ExZone.v) also extracts the validation model: keep it in this cone so
   that `make Props/...vo` rebuilds everything the extraction loads *)
From QV Require Model.ZoneValid Spec.ZoneValidS Model.RdataBuf.


(* ================================================================================================
   The theorems for the REAL Rdata::equals.
   Model side: [req_real] = Model/RdataM.v [equals], the model of Rdata::equals that C19 is about.
   Specification side: [spec_req] = Spec/RdataEqS.v [spec_equals], the RFC characterisation (octet
   equality, except that names embedded in the RDATA of the RFC 1035 name-bearing types, SRV in class IN
   and A in class CH compare without ASCII case when both RDATA are valid for the type's format).
   The only hypothesis about the records is that every RDATA is an octet string (each element < 256:
   the u8 type), which is what C19's theorems are about.  Nothing about Rdata::equals is assumed. *)

(* what the instance is: on octet strings the model of Rdata::equals always returns a boolean (the
   [false] that req_real gives to a Panic/Err of [equals] is never used), and that boolean is the
   characterisation *)
Theorem c06_req_real_is_equals : forall c t a b, wf_bytes a -> wf_bytes b ->
  RdataM.equals c t a b = Ok (req_real c t a b) /\ req_real c t a b = RdataEqS.spec_equals c t a b.
Proof. intros c t a b Ha Hb. split; [apply equals_req_real|apply req_real_spec]; assumption. Qed.

Theorem c06_build_total_real : forall apex cls wide recs, Forall wf_record recs ->
  exists z, zone_build req_real (zone_new apex cls wide) recs = Some z.
Proof. exact real_build_total. Qed.

Theorem c06_lookup_refines_real : forall apex cls wide recs z, Forall wf_record recs ->
  zone_build req_real (zone_new apex cls wide) recs = Some z ->
  forall qn ty unchecked sbc, (unchecked = true -> in_zone apex qn = true) ->
  exists r, zone_lookup z qn ty unchecked sbc = Ok r /\
            spec_lookup spec_req apex cls (accepted apex cls recs) qn ty unchecked sbc = Some (norm_lookup r).
Proof. exact real_lookup_refines. Qed.

Theorem c06_lookup_addrs_refines_real : forall apex cls wide recs z, Forall wf_record recs ->
  zone_build req_real (zone_new apex cls wide) recs = Some z ->
  forall qn unchecked sbc, (unchecked = true -> in_zone apex qn = true) ->
  exists r, zone_lookup_addrs z qn unchecked sbc = Ok r /\
            spec_lookup_addrs spec_req apex cls (accepted apex cls recs) qn unchecked sbc = Some (norm_addrs r).
Proof. exact real_lookup_addrs_refines. Qed.

Theorem c06_lookup_all_refines_real : forall apex cls wide recs z, Forall wf_record recs ->
  zone_build req_real (zone_new apex cls wide) recs = Some z ->
  forall qn unchecked sbc, (unchecked = true -> in_zone apex qn = true) ->
  exists r, zone_lookup_all z qn unchecked sbc = Ok r /\
            spec_lookup_all spec_req apex cls (accepted apex cls recs) qn unchecked sbc = Some (norm_all r).
Proof. exact real_lookup_all_refines. Qed.

Theorem c06_lookup_exact_real : forall apex cls wide recs z, Forall wf_record recs ->
  zone_build req_real (zone_new apex cls wide) recs = Some z ->
  forall qn ty unchecked sbc, (unchecked = true -> in_zone apex qn = true) ->
  exists r', spec_lookup spec_req apex cls (accepted apex cls recs) qn ty unchecked sbc = Some r' /\
             zone_lookup z qn ty unchecked sbc = Ok (spell_lookup apex (accepted apex cls recs) r').
Proof. exact real_lookup_exact. Qed.

Theorem c06_lookup_addrs_exact_real : forall apex cls wide recs z, Forall wf_record recs ->
  zone_build req_real (zone_new apex cls wide) recs = Some z ->
  forall qn unchecked sbc, (unchecked = true -> in_zone apex qn = true) ->
  exists r', spec_lookup_addrs spec_req apex cls (accepted apex cls recs) qn unchecked sbc = Some r' /\
             zone_lookup_addrs z qn unchecked sbc = Ok (spell_addrs apex (accepted apex cls recs) r').
Proof. exact real_lookup_addrs_exact. Qed.

Theorem c06_lookup_all_exact_real : forall apex cls wide recs z, Forall wf_record recs ->
  zone_build req_real (zone_new apex cls wide) recs = Some z ->
  forall qn unchecked sbc, (unchecked = true -> in_zone apex qn = true) ->
  exists r', spec_lookup_all spec_req apex cls (accepted apex cls recs) qn unchecked sbc = Some r' /\
             zone_lookup_all z qn unchecked sbc = Ok (spell_all apex (accepted apex cls recs) r').
Proof. exact real_lookup_all_exact. Qed.

(* Non-vacuity with the real equality: apex "c."; c. NS ns.c. / NS NS.C. (one RDATA: names compare
   without case), c. NS "ns.c." + junk octet / NS "NS.C." + junk octet (two RDATAs: malformed RDATA is
   compared octet-wise), MX 10 mx.c. / MX 10 MX.c. (one) / MX 20 mx.c. (another); the lookups return
   the de-duplicated RRsets and the specification agrees. *)
Example c06_example_real :
  let c := [99%N] in
  let ns := [2; 110; 115; 1; 99; 0]%N in let nsU := [2; 78; 83; 1; 67; 0]%N in
  let mx p l := [0; p; 2; l; 120; 1; 99; 0]%N in
  let recs :=
    [ mk_record [c] 2 1 3600 ns; mk_record [c] 2 1 3600 nsU;
      mk_record [c] 2 1 3600 (ns ++ [9%N]); mk_record [c] 2 1 3600 (nsU ++ [9%N]);
      mk_record [c] 15 1 3600 (mx 10%N 109%N); mk_record [c] 15 1 3600 (mx 10%N 77%N); mk_record [c] 15 1 3600 (mx 20%N 109%N) ] in
  Forall wf_record recs /\
  exists z, zone_build req_real (zone_new [c] 1 false) recs = Some z /\
    zone_lookup z [c] 2 false false = Ok (LFound (3600%N, [ns; ns ++ [9%N]; nsU ++ [9%N]]) None) /\
    zone_lookup z [c] 15 false false = Ok (LFound (3600%N, [mx 10%N 109%N; mx 20%N 109%N]) None) /\
    spec_lookup spec_req [c] 1 (accepted [c] 1 recs) [c] 2 false false
      = Some (LFound (3600%N, [ns; ns ++ [9%N]; nsU ++ [9%N]]) None).
Proof.
  cbv zeta. split.
  - repeat constructor; apply wf_bytesb_spec; reflexivity.
  - eexists. split; [vm_compute; reflexivity|]. vm_compute. repeat split.
Qed.

(* ================================================================================================
   Parametric library versions: any RDATA equality that is transitive per (class, type). *)
Definition req_transitive (req : N -> N -> bytes -> bytes -> bool) : Prop :=
  forall cls ty a b c, req cls ty a b = true -> req cls ty b c = true -> req cls ty a c = true.

(* Loading never panics, whatever the records are. *)
Theorem c06_build_total : forall req, req_transitive req ->
  forall apex cls wide recs, exists z, zone_build req (zone_new apex cls wide) recs = Some z.
Proof. exact build_total. Qed.

(* Single-type lookup: for every add history, name, type and option combination (the name at or
   below the apex whenever the caller asked for an unchecked lookup) the tree walk returns, without
   panicking, exactly what the flat-record specification prescribes (names reported
   case-insensitively). *)
Theorem c06_lookup_refines : forall req, req_transitive req ->
  forall apex cls wide recs z qn ty unchecked sbc,
  zone_build req (zone_new apex cls wide) recs = Some z ->
  (unchecked = true -> in_zone apex qn = true) ->
  exists r, zone_lookup z qn ty unchecked sbc = Ok r /\
            spec_lookup req apex cls (accepted apex cls recs) qn ty unchecked sbc = Some (norm_lookup r).
Proof. exact build_lookup_refines. Qed.

Theorem c06_lookup_addrs_refines : forall req, req_transitive req ->
  forall apex cls wide recs z qn unchecked sbc,
  zone_build req (zone_new apex cls wide) recs = Some z ->
  (unchecked = true -> in_zone apex qn = true) ->
  exists r, zone_lookup_addrs z qn unchecked sbc = Ok r /\
            spec_lookup_addrs req apex cls (accepted apex cls recs) qn unchecked sbc = Some (norm_addrs r).
Proof. exact build_lookup_addrs_refines. Qed.

Theorem c06_lookup_all_refines : forall req, req_transitive req ->
  forall apex cls wide recs z qn unchecked sbc,
  zone_build req (zone_new apex cls wide) recs = Some z ->
  (unchecked = true -> in_zone apex qn = true) ->
  exists r, zone_lookup_all z qn unchecked sbc = Ok r /\
            spec_lookup_all req apex cls (accepted apex cls recs) qn unchecked sbc = Some (norm_all r).
Proof. exact build_lookup_all_refines. Qed.

(* Exact form (letter case of the reported names included): the answer IS the specification's
   answer with every reported name (referral child zone, source of synthesis) spelled as the zone
   spells it — the apex as given to new, any other name as in the first accepted record at or below
   it ([spelled], defined on the flat record list). *)
Theorem c06_lookup_exact : forall req, req_transitive req ->
  forall apex cls wide recs z qn ty unchecked sbc,
  zone_build req (zone_new apex cls wide) recs = Some z ->
  (unchecked = true -> in_zone apex qn = true) ->
  exists r', spec_lookup req apex cls (accepted apex cls recs) qn ty unchecked sbc = Some r' /\
             zone_lookup z qn ty unchecked sbc = Ok (spell_lookup apex (accepted apex cls recs) r').
Proof. exact build_lookup_exact. Qed.

Theorem c06_lookup_addrs_exact : forall req, req_transitive req ->
  forall apex cls wide recs z qn unchecked sbc,
  zone_build req (zone_new apex cls wide) recs = Some z ->
  (unchecked = true -> in_zone apex qn = true) ->
  exists r', spec_lookup_addrs req apex cls (accepted apex cls recs) qn unchecked sbc = Some r' /\
             zone_lookup_addrs z qn unchecked sbc = Ok (spell_addrs apex (accepted apex cls recs) r').
Proof. exact build_lookup_addrs_exact. Qed.

Theorem c06_lookup_all_exact : forall req, req_transitive req ->
  forall apex cls wide recs z qn unchecked sbc,
  zone_build req (zone_new apex cls wide) recs = Some z ->
  (unchecked = true -> in_zone apex qn = true) ->
  exists r', spec_lookup_all req apex cls (accepted apex cls recs) qn unchecked sbc = Some r' /\
             zone_lookup_all z qn unchecked sbc = Ok (spell_all apex (accepted apex cls recs) r').
Proof. exact build_lookup_all_exact. Qed.

(* The case left out above — an unchecked lookup of a name that is NOT at or below the apex, which
   the documentation of LookupOptions::unchecked declares a caller error ("may panic or return
   incorrect data") — is characterised exactly, for ANY zone value: a name with fewer labels than
   the apex panics (usize underflow), any other name is answered as if its trailing labels were
   the apex's. *)
Theorem c06_unchecked_outside : forall z qn ty sbc,
  (length qn < length (zone_name z) ->
     zone_lookup z qn ty true sbc = Panic /\ zone_lookup_addrs z qn true sbc = Panic /\
     zone_lookup_all z qn true sbc = Panic) /\
  (length (zone_name z) <= length qn ->
     let qn' := firstn (length qn - length (zone_name z)) qn ++ zone_name z in
     zone_lookup z qn ty true sbc = zone_lookup z qn' ty true sbc /\
     zone_lookup_addrs z qn true sbc = zone_lookup_addrs z qn' true sbc /\
     zone_lookup_all z qn true sbc = zone_lookup_all z qn' true sbc).
Proof. exact unchecked_outside. Qed.

(* The instance of Rdata::equals the runner uses meets the hypothesis. *)
Theorem c06_req_simple_transitive : req_transitive req_simple.
Proof. exact req_simple_trans. Qed.

(* Non-vacuity: apex "c."; records  c. NS, *.c. TXT, b.c. NS (a cut), a.b.c. A (glue), x.A.c. A
   (A.c. is an empty non-terminal), one TTL-mismatched and one out-of-zone add.  The hypotheses are
   met and the lookups give a wildcard synthesis, a referral to the topmost cut, glue when searching
   below cuts, NoRecords at the empty non-terminal and NxDomain below it. *)
Example c06_example :
  let a := [99%N] in let b := [98%N] in let la := [97%N] in let uA := [65%N] in let x := [120%N] in
  let ns := [2; 110; 115; 1; 99; 0]%N in
  let recs :=
    [ mk_record [a] 2 1 3600 ns;
      mk_record [[42%N]; a] 16 1 3600 [1; 97]%N;
      mk_record [b; a] 2 1 3600 ns;
      mk_record [la; b; a] 1 1 3600 [127; 0; 0; 1]%N;
      mk_record [la; b; a] 1 1 7200 [127; 0; 0; 2]%N;
      mk_record [x; uA; a] 1 1 3600 [127; 0; 0; 3]%N;
      mk_record [x] 1 1 3600 [127; 0; 0; 4]%N ] in
  exists z, zone_build req_simple (zone_new [a] 1 false) recs = Some z /\
    length (accepted [a] 1 recs) = 5 /\
    zone_lookup z [x; a] 16 false false = Ok (LFound (3600%N, [[1; 97]%N]) (Some [[42%N]; a])) /\
    zone_lookup z [la; b; a] 1 false false = Ok (LReferral [b; a] (3600%N, [ns])) /\
    zone_lookup z [la; b; a] 1 false true = Ok (LFound (3600%N, [[127; 0; 0; 1]%N]) None) /\
    zone_lookup z [la; a] 1 false false = Ok (LNoRecords None) /\
    zone_lookup z [b; la; a] 1 false false = Ok LNxDomain /\
    zone_lookup z [x] 1 false false = Ok LWrongZone /\
    spec_lookup req_simple [a] 1 (accepted [a] 1 recs) [la; b; a] 1 false false
      = Some (LReferral [b; a] (3600%N, [ns])).
Proof. cbv zeta. eexists. split; [vm_compute; reflexivity|]. vm_compute. repeat split. Qed.

Print Assumptions c06_req_real_is_equals.
Print Assumptions c06_build_total_real.
Print Assumptions c06_lookup_refines_real.
Print Assumptions c06_lookup_addrs_refines_real.
Print Assumptions c06_lookup_all_refines_real.
Print Assumptions c06_lookup_exact_real.
Print Assumptions c06_lookup_addrs_exact_real.
Print Assumptions c06_lookup_all_exact_real.
Print Assumptions c06_build_total.
Print Assumptions c06_lookup_refines.
Print Assumptions c06_lookup_addrs_refines.
Print Assumptions c06_lookup_all_refines.
Print Assumptions c06_lookup_exact.
Print Assumptions c06_lookup_addrs_exact.
Print Assumptions c06_lookup_all_exact.
Print Assumptions c06_unchecked_outside.
Print Assumptions c06_req_simple_transitive.
