(* C18 — RDATA reading, validation and writing are mutually consistent. *)
From QV Require Import Base.ListX Model.NameWire Model.RdataM Spec.RdataFormatS.
