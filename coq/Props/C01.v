(* C01 — no request makes the server panic (the part of it covered by this model:
   Reader, name parsing, OPT/TSIG RDATA validation, the whole pre-scan with the Writer's
   size arithmetic for question/EDNS/TSIG reservations, and the opcode/QTYPE/catalog dispatch).
   Query answering inside a loaded zone ([answer]) and HMAC verification ([verify]) are
   parameters: their own totality is the subject of C05/C06/C12 (writer) and C11. *)
From QV Require Import Base.ListX Model.NameWire Model.Reader Model.RdataLite Model.Server Proofs.ReaderP Proofs.ServerP.

Theorem c01_no_panic_partial : forall answer verify cfg req, wf_cfg cfg -> wf_bytes req ->
  exists x, handle_message answer verify cfg req = Ok x.
Proof. exact handle_message_total. Qed.

(* Regression witnesses of the three panics of the pinned tree are in Props/C14.v
   (c14_start_eq_len_refuted_prefix), Props/C15.v (c15_total_refuted_prefix) and below:
   before the fix: commit, a failing set_tsig was unwrapped. *)
Example c01_tsig_reservation_can_fail :
  (* UDP, no EDNS: 512-octet limit; QNAME and TSIG key/algorithm names of 255 octets *)
  let w := mkResp 0 0 false 0 false false None None None empty_body 271 512 512 2000 0 in
  let t := mkTsigOut [] (TUnsigned []) XRC_BADKEY (255 + 255 + 26) [] in
  set_tsig w t = Err WTruncation /\ set_tsig_or_truncate w t = (set_tc w, false).
Proof. split; vm_compute; reflexivity. Qed.

Print Assumptions c01_no_panic_partial.
