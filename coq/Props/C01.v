(* C01 — no request makes the server panic.
   c01_no_panic: the COMPOSED model (Model/ServerW.v) — request side: Reader, name parsing, OPT/TSIG
   RDATA validation, the whole pre-scan, the opcode/QTYPE/catalog dispatch (Model/Server.v); response
   side for a clean QUERY in a Loaded zone: the query model (Model/Query.v) over the tree zone
   (Model/ZoneTree.v) driving the octet-level Writer (Model/MsgWriter.v) up to and including finish —
   returns a response or none, never Panic; every other response without a TSIG (NOTIMP / REFUSED /
   SERVFAIL to a clean QUERY; FORMERR, BADVERS, ... decided by the pre-scan) is likewise produced in
   octets by the Writer model (QueryW.respond_plain, ServerW.serialize_resp).  Still parameters
   (universally quantified): HMAC verification [verify] (its totality on the TSIG model is C11), and
   query answering [answer] for a request whose TSIG VERIFIED; a response that carries a TSIG stays
   abstract (the Writer model has no signing TSIG mode).
   c01_no_panic_partial: the first-wave statement (request side only), kept. *)
From QV Require Import Base.ListX Model.NameWire Model.Reader Model.RdataLite Model.Server Proofs.ReaderP Proofs.ServerP.
From QV Require Import Model.ZoneTree Model.Query Model.QueryW Model.ServerW Proofs.ZoneTopP
  Proofs.ComposeTraceP Proofs.ComposeSrvP.

Theorem c01_no_panic_partial : forall answer verify cfg req, wf_cfg cfg -> wf_bytes req ->
  exists x, handle_message answer verify cfg req = Ok x.
Proof. exact handle_message_total. Qed.

(* Regression witnesses of the three panics of the pinned tree are in Props/C14.v
   (c14_start_eq_len_refuted_prefix), Props/C15.v (c15_total_refuted_prefix) and below:
   before the fix: commit, a failing set_tsig was unwrapped. *)
Example c01_tsig_reservation_can_fail :
  (* UDP, no EDNS: 512-octet limit; QNAME and TSIG key/algorithm names of 255 octets *)
  let w := mkResp 0 0 false 0 false false None None None empty_body 271 512 512 2000 0 in
  let t := mkTsigOut [] (TUnsigned []) XRC_BADKEY (255 + 255 + 26) [] in
  set_tsig w t = Err WTruncation /\ set_tsig_or_truncate w t = (set_tc w, false).
Proof. split; vm_compute; reflexivity. Qed.

(* THE COMPOSITION.  For every request (octets < 256), transport, EDNS size in [512, 65535], response
   buffer of the size handle_message demands, key set, verifier, and every catalog whose Loaded
   entries are zones built by adds ([catalog_ok]: zone_build over any record list whose RDATA are
   at most 65535 octets < 256 with 16-bit types, any transitive Rdata::equals, a valid apex Name):
   the composed model returns Ok — a response (the finished OCTETS, or abstract iff it carries a TSIG)
   or none.  Inside: every zone lookup, RDATA name parse, CNAME chase and
   PreviousOwners push of query.rs, every Writer operation it issues (shown to obey the Writer's
   hint contract: Proofs/ComposeKeyP.v), rollbacks, clear_rrs, the error mapping, and finish. *)
Theorem c01_no_panic : forall zones negttl answer verify cfg buf req,
  wf_cfg cfg -> length buf = c_buflen cfg -> catalog_ok cfg zones -> wf_bytes req ->
  exists x, handle_message_w zones negttl answer verify cfg buf req = Ok x.
Proof. intros zones negttl answer verify cfg buf req H1 H2 H3 H4. exact (handle_message_w_total zones negttl answer verify cfg buf H1 H2 (fun _ _ => True) H3 req H4). Qed.

(* the composed dispatch is Server.handle_query's: whenever the composed model answers abstractly,
   the answer is the one of the request-side model *)
Theorem c01_composed_dispatch_same : forall zones negttl answer cfg buf w w',
  handle_query_w zones negttl answer cfg buf w = Ok (RAbs w') -> w' = handle_query answer cfg w.
Proof. exact handle_query_w_same. Qed.

(* Non-vacuity: a catalog with the zone "a." (class IN; a. A 1.2.3.4, a. NS ns.a., ns.a. A 5.6.7.8)
   satisfies catalog_ok, and the query "a. NS" over UDP is answered from it in octets (header, echoed
   question, the NS record with compressed owner and RDATA, the glue address with a hint-vector owner). *)
Definition ex_recs : list record :=
  [mk_record [[97]]%N 1 1 300 [1;2;3;4]%N;
   mk_record [[97]]%N 2 1 300 [2;110;115;1;97;0]%N;
   mk_record [[110;115];[97]]%N 1 1 300 [5;6;7;8]%N].
Definition ex_zone : option zone := zone_build req_simple (zone_new [[97]]%N 1 false) ex_recs.
Definition ex_cfg : config := mkConfig Udp 512 512 [mkEntry 1 [[97]]%N (ELoaded 0)] [] 0.
Definition ex_req : bytes := [0;7; 0;0; 0;1; 0;0; 0;0; 0;0; 1;97;0; 0;2; 0;1]%N.

Example c01_example_catalog_ok : catalog_ok ex_cfg (fun _ => ex_zone).
Proof.
  intros e zid [<-|[]] Hk. inversion Hk; subst zid.
  destruct ex_zone as [z|] eqn:Ez; [|vm_compute in Ez; discriminate].
  exists z, req_simple, [[97]]%N, false, ex_recs. split; [reflexivity|].
  split; [exact req_simple_trans|]. split; [exact Ez|]. split; [reflexivity|].
  split; [split; [split; [repeat constructor; cbv; lia|simpl; lia]|simpl; lia]|].
  split; [|exact I]. repeat constructor; try (cbv; lia); try (apply wf_bytesb_spec; reflexivity).
Qed.

Example c01_example_answer :
  match handle_message_w (fun _ => ex_zone) neg_ttl (fun _ _ _ _ => empty_body) (fun _ _ _ _ _ _ => VOk)
          ex_cfg (repeat 0%N 512) ex_req with
  | Ok (Some (ROctets len b)) =>
    firstn len b = [0;7; 132;0; 0;1; 0;1; 0;0; 0;1;  1;97;0; 0;2; 0;1;
                    192;12; 0;2; 0;1; 0;0;1;44; 0;5; 2;110;115;192;12;
                    192;31; 0;1; 0;1; 0;0;1;44; 0;4; 5;6;7;8]%N
  | _ => False
  end.
Proof. vm_compute. reflexivity. Qed.

Print Assumptions c01_no_panic_partial.
Print Assumptions c01_no_panic.
Print Assumptions c01_composed_dispatch_same.

(* ---- TSIG-bearing responses in octets (Model/ServerWT.v: handle_message_wt) ----
   c01_no_panic_tsig_partial: the EXTENDED composed model - which writes the response's TSIG record with the
   byte-level Writer model (ser_prepare, Writer::set_tsig with the reservation arithmetic, finish_with_mac) instead
   of keeping the abstract response - returns a response or none, never Panic, for every request, transport,
   EDNS size, key set, catalog and every clock below 2^48 s, for every verifier that never accepts a MAC
   ([unverified]: no VOk, no VBadTime) and every hmac: i.e. for all requests whose TSIG is NOT verified - unknown
   key, unknown / mismatching algorithm (BADKEY), wrong MAC (BADSIG), MAC of a forbidden size (FORMERR), incl. the
   TC fallback when OPT + TSIG do not fit (set_tsig_or_truncate).  A Panic of the model would be: a failing or
   panicking Writer step, or Writer::set_tsig refusing a reservation the pre-scan's arithmetic had granted.
   PARTIAL: the signing modes (BADTIME, verified: TsigMode::Response, MAC = hmac over the RFC 8945 digest) are
   in the model and in the correspondence run, but not under this theorem. *)
From QV Require Import Model.ServerWT Proofs.ComposeTsigTopP.

Theorem c01_no_panic_tsig_partial : forall hmac zones negttl answer verify cfg buf req,
  wf_cfg cfg -> length buf = c_buflen cfg -> (c_now cfg < 281474976710656)%N -> unverified verify ->
  catalog_ok cfg zones -> wf_bytes req ->
  exists x, handle_message_wt hmac zones negttl answer verify cfg buf req = Ok x.
Proof.
  intros hmac zones negttl answer verify cfg buf req Hcfg Hbuf Hnow Hunv Hcat Hwf.
  exact (handle_message_wt_total hmac zones negttl answer verify cfg buf Hcfg Hbuf Hnow Hunv (fun _ _ => True) req Hcat Hwf).
Qed.

(* non-vacuity: a verifier that rejects every MAC is [unverified]; with it, a request signed with an unknown key is
   answered NOTAUTH / BADKEY in octets: 12 (header) + 7 (question) + 26 + 1 + 1 (TSIG record, root key and
   algorithm names) *)
Example c01_tsig_example :
  unverified (fun _ _ _ _ _ _ => VBadSig) /\
  match handle_message_wt (fun _ _ _ => []) (fun _ => None) (fun _ _ => 0%N) (fun _ _ _ _ => empty_body)
          (fun _ _ _ _ _ _ => VBadSig) (mkConfig Udp 1232 1232 [] [] 1700000000) (repeat 0%N 1232)
          ([0;7; 0;0; 0;1; 0;0; 0;0; 0;1;  1;97;0; 0;1; 0;1;
            0; 0;250; 0;255; 0;0;0;0; 0;17;  0; 0;0;101;83;241;0; 1;44; 0;0; 0;7; 0;0; 0;0])%N with
  | Ok (Some (ROctets len b)) =>
    firstn len b = [0;7; 128;9; 0;1; 0;0; 0;0; 0;1;  1;97;0; 0;1; 0;1;
                    0; 0;250; 0;255; 0;0;0;0; 0;17;  0; 0;0;101;83;241;0; 1;44; 0;0; 0;7; 0;17; 0;0]%N
  | _ => False
  end.
Proof. split; [intros rd o m a s n; split; discriminate|]. vm_compute. reflexivity. Qed.

Print Assumptions c01_no_panic_tsig_partial.

(* ---- the SIGNING modes of finish_with_mac (pkg-sproof; Proofs/SignFinishP.v, SignSerP.v, SignTopP.v) ----
   c01_no_panic_tsig: c01_no_panic_tsig_partial WITHOUT [unverified]: for EVERY verifier - so also for requests whose
   TSIG verifies (answered NOTIMP / REFUSED / SERVFAIL / FORMERR with a signed TSIG record, or - out of a Loaded zone -
   by the still abstract [answer]) and for those whose time is outside the fudge window (signed BADTIME response with
   6 octets of other data) - and for every hmac whose output has the algorithm's output size ([hmac_len], the ONLY fact
   about HMAC used: Proofs/SignShapeP.v shows that panics and lengths do not depend on the MAC's octets, Proofs/SignLenP.v
   transfers the theorem from the octet-normalised hmac), the extended composed model returns a response or none,
   never Panic.  Inside: Writer::set_tsig with reserved_len = signed_len
   succeeds exactly when the pre-scan reserved; sign_response never panics (message >= 12 octets, ARCOUNT >= 1 because
   set_tsig counted the record, request MAC <= 65535, RDATA <= 65535); the signed record fits the reservation
   key name + algorithm name + 26 + MAC size (+ 6 for BADTIME) - finish_signed_ok2. *)
From QV Require Import Proofs.SignTopP Proofs.SignLenP.
From QV Require Model.TsigMsg.

Theorem c01_no_panic_tsig : forall hmac zones negttl answer verify cfg buf req,
  (forall a k d, length (hmac a k d) = TsigMsg.output_size a) ->
  wf_cfg cfg -> length buf = c_buflen cfg -> (c_now cfg < 281474976710656)%N ->
  catalog_ok cfg zones -> wf_bytes req ->
  exists x, handle_message_wt hmac zones negttl answer verify cfg buf req = Ok x.
Proof.
  intros hmac zones negttl answer verify cfg buf req Hl Hcfg Hbuf Hnow Hcat Hwf.
  exact (handle_message_wt_total_len hmac Hl zones negttl answer verify cfg buf Hcfg Hbuf Hnow (fun _ _ => True) req Hcat Hwf).
Qed.

(* non-vacuity: a constant hmac of the output size meets both hypotheses; a request signed with the installed key
   "." / hmac-sha256 whose time the verifier finds outside the window gets the SIGNED 97-octet NOTAUTH / BADTIME
   response (MAC size 32, error 18, other len 6, other data = the server clock); the same request, verified, is
   answered REFUSED with a signed 91-octet response *)
Definition c01_ex_hmac (a : TsigMsg.alg) (k d : bytes) : bytes := repeat 90%N (TsigMsg.output_size a).
Definition c01_ex_sreq : bytes :=
  ([0;7; 0;0; 0;1; 0;0; 0;0; 0;1;  1;97;0; 0;1; 0;1;
    0; 0;250; 0;255; 0;0;0;0; 0;61;
    11;104;109;97;99;45;115;104;97;50;53;54;0;  0;0;101;83;241;0; 1;44; 0;32] ++ repeat 7 32 ++ [0;7; 0;0; 0;0])%N.
Example c01_signed_example :
  (forall a k d, length (c01_ex_hmac a k d) = TsigMsg.output_size a) /\ (forall a k d, wf_bytes (c01_ex_hmac a k d)) /\
  match handle_message_wt c01_ex_hmac (fun _ => None) (fun _ _ => 0%N) (fun _ _ _ _ => empty_body)
          (fun _ _ _ _ _ _ => VBadTime) (mkConfig Udp 1232 1232 [] [mkKey [] HmacSha256 [1;2;3]%N] 1700000000) (repeat 0%N 1232)
          c01_ex_sreq with
  | Ok (Some (ROctets len b)) =>
    firstn len b = ([0;7; 128;9; 0;1; 0;0; 0;0; 0;1;  1;97;0; 0;1; 0;1;
                     0; 0;250; 0;255; 0;0;0;0; 0;67;
                     11;104;109;97;99;45;115;104;97;50;53;54;0;  0;0;101;83;241;0; 1;44; 0;32] ++ repeat 90 32 ++
                    [0;7; 0;18; 0;6; 0;0;101;83;241;0])%N
  | _ => False
  end /\
  match handle_message_wt c01_ex_hmac (fun _ => None) (fun _ _ => 0%N) (fun _ _ _ _ => empty_body)
          (fun _ _ _ _ _ _ => VOk) (mkConfig Udp 1232 1232 [] [mkKey [] HmacSha256 [1;2;3]%N] 1700000000) (repeat 0%N 1232)
          c01_ex_sreq with
  | Ok (Some (ROctets len b)) => len = 91 /\ nth_error b 3 = Some 5%N
  | _ => False
  end.
Proof.
  split; [intros a k d; apply repeat_length|]. split.
  { intros a k d. unfold c01_ex_hmac. apply Forall_forall. intros x Hx. apply repeat_spec in Hx. subst x. unfold is_octet. lia. }
  split; vm_compute; auto.
Qed.

Print Assumptions c01_no_panic_tsig.

(* Regression for the arithmetic finish_signed_ok2 pins down (the seeded defect "signed_len forgets the 6 octets of
   BADTIME other data"): HMAC-SHA256, root key name, no question, BADTIME: the record takes 1 + 10 + 13 + 16 + 32 + 6
   = 78 octets.  On an 84-octet buffer a state whose reserved_len is 72 (the 6 octets forgotten) makes finish_signed
   PANIC (add_rr(..).unwrap()); the real set_tsig_signed (reserved_len 78) refuses that buffer instead: Truncation. *)
Definition c01_ex_alg : MsgWriter.wname := [[104;109;97;99;45;115;104;97;50;53;54]%N].
Definition c01_ex_time : bytes := [0;0;101;83;241;0]%N.
Example c01_signed_len_without_other_data_refuted :
  match MsgWriter.writer_new (repeat 0%N 84) 84 with
  | Ok w =>
    is_panic (finish_signed c01_ex_hmac TsigMsg.HmacSha256 [] []
                (MsgWriter.set_tsig_f (MsgWriter.set_avail (MsgWriter.set_counts w 0 0 0 1) (MsgWriter.w_avail w - 72))
                   (Some (MsgWriter.mkTsig c01_ex_alg 72 [] c01_ex_time 300 7 18 c01_ex_time)))) = true /\
    match set_tsig_signed 32 c01_ex_alg [] c01_ex_time 300 7 18 c01_ex_time w with
    | Err (MsgWriter.Truncation, _) => True
    | _ => False
    end
  | _ => False
  end.
Proof. vm_compute. auto. Qed.
