(* C27 — rate limiting groups responses into the documented streams.
   Statements only; every proof is [exact <lemma from Proofs/RrlKeyP.v>]. *)
From QV Require Import Base.Res Base.Octets Model.Rrl Spec.RrlBucketS Spec.RrlStreamS Proofs.RrlP Proofs.RrlKeyP Proofs.RrlFreshP.
Local Open Scope N_scope.

(* The setters accept exactly the prefix lengths 0..32 / 0..64, never panic, and store the
   mask "len ones, then zeros" (finite sweep over every length); RrlParams::new = /24, /56. *)
Theorem c27_set_ipv4_prefix_len : forall p l,
  (l <= 32 -> set_ipv4_prefix_len p l = Ok (with_ipv4_netmask p (mask4 l))) /\
  (32 < l -> set_ipv4_prefix_len p l = Err InvalidIpv4PrefixLen).
Proof. exact set_ipv4_prefix_len_spec. Qed.

Theorem c27_set_ipv6_prefix_len : forall p l,
  (l <= 64 -> set_ipv6_prefix_len p l = Ok (with_ipv6_netmask p (mask6 l))) /\
  (64 < l -> set_ipv6_prefix_len p l = Err InvalidIpv6PrefixLen).
Proof. exact set_ipv6_prefix_len_spec. Qed.

Theorem c27_default_prefixes : forall ne nx er w p, params_new ne nx er w = Ok p -> has_prefixes p 24 56.
Proof. exact params_new_prefixes. Qed.

(* Bit level, every prefix length: two IPv4 sources get the same destination word iff their
   top l4 bits agree; two IPv6 sources iff their top l6 (<= 64) bits agree. *)
Theorem c27_v4_mask : forall p l4 l6 a b, has_prefixes p l4 l6 ->
  length a = 4%nat -> wf_bytes a -> length b = 4%nat -> wf_bytes b ->
  (ip_to_dest p (V4 a) = ip_to_dest p (V4 b) <-> same_network 32 l4 (addr_value a) (addr_value b) = true).
Proof. exact dest4_eq_iff. Qed.

Theorem c27_v6_mask : forall p l4 l6 a b, has_prefixes p l4 l6 ->
  length a = 16%nat -> wf_bytes a -> length b = 16%nat -> wf_bytes b ->
  (ip_to_dest p (V6 a) = ip_to_dest p (V6 b) <-> same_network 128 l6 (addr_value a) (addr_value b) = true).
Proof. exact dest6_eq_iff. Qed.

(* ReceivedInfo::new turns exactly the RFC 4291 IPv4-mapped addresses into the embedded
   IPv4 address and leaves everything else alone. *)
Theorem c27_mapped : forall src, wf_ip src ->
  to_saddr (received_info_source src) = canonical (to_saddr src) /\ wf_ip (received_info_source src).
Proof. exact received_info_source_canonical. Qed.

(* What Name::hash feeds the hasher determines the name exactly up to ASCII case. *)
Theorem c27_name_hash_ci : forall a b, wf_name a -> wf_name b ->
  (name_hash_stream a = name_hash_stream b <-> name_eq_ci a b = true).
Proof. exact name_hash_stream_iff. Qed.

(* MAIN (iff characterisation of key equality, every hash function): two responses get the
   same Key exactly when they are in the same stream of the specification, with "same name
   ignoring case" weakened to "same 32-bit hash of the name" — the explicit, documented
   weakening (struct Key keeps only a 32-bit hash of the QNAME / source of synthesis). *)
Theorem c27_key_eq : forall (hname : bytes -> N) p l4 l6 src1 src2 c1 c2 n1 n2,
  has_prefixes p l4 l6 -> wf_ip src1 -> wf_ip src2 ->
  c_source c1 = received_info_source src1 -> c_source c2 = received_info_source src2 ->
  (scategory_of (w_rcode (c_response c1)) = SNoError -> resp_name c1 = Some n1) ->
  (scategory_of (w_rcode (c_response c2)) = SNoError -> resp_name c2 = Some n2) ->
  (key_of hname p c1 <> None /\ key_of hname p c1 = key_of hname p c2
   <-> same_stream_h hname l4 l6 src1 src2 (w_rcode (c_response c1)) (w_rcode (c_response c2)) n1 n2).
Proof. exact key_eq_iff. Qed.

(* Same stream (full specification: prefixes with IPv4-mapped canonicalisation, category,
   name ignoring case / source of synthesis) => same key, for every hash function. *)
Theorem c27_same_stream_same_key : forall (hname : bytes -> N) p l4 l6 src1 src2 c1 c2 n1 n2,
  has_prefixes p l4 l6 -> wf_ip src1 -> wf_ip src2 ->
  c_source c1 = received_info_source src1 -> c_source c2 = received_info_source src2 ->
  (scategory_of (w_rcode (c_response c1)) = SNoError -> resp_name c1 = Some n1) ->
  (scategory_of (w_rcode (c_response c2)) = SNoError -> resp_name c2 = Some n2) ->
  same_stream l4 l6 (mkSResp (to_saddr src1) (w_rcode (c_response c1)) n1)
                    (mkSResp (to_saddr src2) (w_rcode (c_response c2)) n2) = true ->
  key_of hname p c1 <> None /\ key_of hname p c1 = key_of hname p c2.
Proof. exact same_stream_same_key. Qed.

(* Same key => same stream, unless the two names collide in the 32-bit hash. *)
Theorem c27_same_key_same_stream : forall (hname : bytes -> N) p l4 l6 src1 src2 c1 c2 n1 n2,
  has_prefixes p l4 l6 -> wf_ip src1 -> wf_ip src2 ->
  c_source c1 = received_info_source src1 -> c_source c2 = received_info_source src2 ->
  (scategory_of (w_rcode (c_response c1)) = SNoError -> resp_name c1 = Some n1) ->
  (scategory_of (w_rcode (c_response c2)) = SNoError -> resp_name c2 = Some n2) ->
  wf_name n1 -> wf_name n2 ->
  (hash32 hname n1 = hash32 hname n2 -> name_hash_stream n1 = name_hash_stream n2) ->
  key_of hname p c1 <> None -> key_of hname p c1 = key_of hname p c2 ->
  same_stream l4 l6 (mkSResp (to_saddr src1) (w_rcode (c_response c1)) n1)
                    (mkSResp (to_saddr src2) (w_rcode (c_response c2)) n2) = true.
Proof. exact same_key_same_stream. Qed.

(* TCP responses, responses to non-QUERY opcodes and suppressed responses are never limited:
   process_response returns the table and the context unchanged. *)
Theorem c27_exempt : forall (hname : bytes -> N) (hkey : key -> N) p t c now rnd,
  c_transport c = Tcp \/ c_opcode c <> OPCODE_QUERY \/ c_send_response c = false ->
  process_response hname hkey p t c now rnd = Ok (t, c).
Proof. exact exempt_unchanged. Qed.

Theorem c27_subject_is_limitable : forall c,
  subject_to_rrl c = limitable (match c_transport c with Udp => true | Tcp => false end)
                               (c_opcode c) (c_send_response c).
Proof. exact subject_is_limitable. Qed.

(* Under a limit of one response per stream (all rates 1, window 1), for EVERY hash function
   (distinct keys may share a bucket — the second then evicts the first — or not): of two
   responses less than a second apart whose streams have no bucket yet, the first is sent and
   the second is limited if and only if it has the same key. *)
Theorem c27_pair : forall (hname : bytes -> N) (hkey : key -> N) p t c1 c2 k1 k2 now1 now2 rnd1 rnd2,
  wf_params p -> (forall cat, rate_of p cat = 1) -> p_window p = 1 -> wf_table p t ->
  subject_to_rrl c1 = true -> subject_to_rrl c2 = true ->
  key_of hname p c1 = Some k1 -> key_of hname p c2 = Some k2 ->
  abs_bucket hkey p t k1 = None -> abs_bucket hkey p t k2 = None ->
  now1 <= now2 < now1 + nanos_per_sec ->
  exists t1 t2,
    process_response hname hkey p t c1 now1 rnd1 = Ok (t1, apply_action c1 Send) /\
    process_response hname hkey p t1 c2 now2 rnd2
    = Ok (t2, apply_action c2 (if key_eqb k1 k2
                               then action_of_verdict (limited_verdict (p_slip p) rnd2)
                               else Send)).
Proof. exact pair_limited_iff. Qed.

(* The same on a freshly started server (Rrl::new's table): the only requirement left is that
   neither key is the placeholder key the table is initialised with. *)
Theorem c27_pair_fresh : forall (hname : bytes -> N) (hkey : key -> N) p t0 c1 c2 k1 k2 now1 now2 rnd1 rnd2,
  wf_params p -> (forall cat, rate_of p cat = 1) -> p_window p = 1 ->
  subject_to_rrl c1 = true -> subject_to_rrl c2 = true ->
  key_of hname p c1 = Some k1 -> key_of hname p c2 = Some k2 ->
  k1 <> init_key -> k2 <> init_key ->
  now1 <= now2 < now1 + nanos_per_sec ->
  exists t1 t2,
    process_response hname hkey p (rrl_new p t0) c1 now1 rnd1 = Ok (t1, apply_action c1 Send) /\
    process_response hname hkey p t1 c2 now2 rnd2
    = Ok (t2, apply_action c2 (if key_eqb k1 k2
                               then action_of_verdict (limited_verdict (p_slip p) rnd2)
                               else Send)).
Proof. exact pair_limited_iff_fresh. Qed.

(* Non-vacuity: /24 and /56; 192.0.2.1 and ::ffff:192.0.2.200 asking for a.EXAMPLE / A.example
   (NOERROR) are one stream and get one key; 192.0.3.1 is another stream. *)
Definition ex27_params : params := mkParams 1 1 1 1 1 (mask4 24) (mask6 56) 7.
Definition ex27_ctx (src : ipaddr) (q : rname) : ctx :=
  mkCtx (received_info_source src) Udp 0 (Some q) None (mkW 1 0 0 false false false 0) None true.
Definition ex27_mapped : ipaddr := V6 [0; 0; 0; 0; 0; 0; 0; 0; 0; 0; 255; 255; 192; 0; 2; 200].
Definition ex27_n1 : rname := [[97]; [69; 88; 65; 77; 80; 76; 69]].
Definition ex27_n2 : rname := [[65]; [101; 120; 97; 109; 112; 108; 101]].
Example c27_example :
  has_prefixes ex27_params 24 56 /\ wf_ip (V4 [192; 0; 2; 1]) /\ wf_ip ex27_mapped /\
  wf_name ex27_n1 /\ wf_name ex27_n2 /\
  same_stream 24 56 (mkSResp (S4 [192; 0; 2; 1]) 0 ex27_n1) (mkSResp (to_saddr ex27_mapped) 0 ex27_n2) = true /\
  same_stream 24 56 (mkSResp (S4 [192; 0; 2; 1]) 0 ex27_n1) (mkSResp (S4 [192; 0; 3; 1]) 0 ex27_n1) = false /\
  (forall hname : bytes -> N,
     key_of hname ex27_params (ex27_ctx (V4 [192; 0; 2; 1]) ex27_n1)
     = key_of hname ex27_params (ex27_ctx ex27_mapped ex27_n2)).
Proof.
  split; [repeat split; vm_compute; congruence|].
  split; [split; [reflexivity|apply wf_bytesb_spec; reflexivity]|].
  split; [split; [reflexivity|apply wf_bytesb_spec; reflexivity]|].
  split; [repeat constructor|]. split; [repeat constructor|].
  split; [vm_compute; reflexivity|]. split; [vm_compute; reflexivity|].
  intros hname. apply (same_stream_same_key hname ex27_params 24 56 (V4 [192; 0; 2; 1]) ex27_mapped
                         (ex27_ctx (V4 [192; 0; 2; 1]) ex27_n1) (ex27_ctx ex27_mapped ex27_n2) ex27_n1 ex27_n2).
  - repeat split; vm_compute; congruence.
  - split; [reflexivity|apply wf_bytesb_spec; reflexivity].
  - split; [reflexivity|apply wf_bytesb_spec; reflexivity].
  - reflexivity.
  - reflexivity.
  - intros _; reflexivity.
  - intros _; reflexivity.
  - vm_compute; reflexivity.
Qed.

Print Assumptions c27_set_ipv4_prefix_len.
Print Assumptions c27_set_ipv6_prefix_len.
Print Assumptions c27_default_prefixes.
Print Assumptions c27_v4_mask.
Print Assumptions c27_v6_mask.
Print Assumptions c27_mapped.
Print Assumptions c27_name_hash_ci.
Print Assumptions c27_key_eq.
Print Assumptions c27_same_stream_same_key.
Print Assumptions c27_same_key_same_stream.
Print Assumptions c27_exempt.
Print Assumptions c27_subject_is_limitable.
Print Assumptions c27_pair.
Print Assumptions c27_pair_fresh.
