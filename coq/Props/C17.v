(* C17 — Type, Class, Qtype, Qclass, Opcode and Rcode codes round-trip through text.
   Statements only; every proof is [exact <lemma of Proofs/CodeTextP.v or Proofs/DecU16P.v>].
   Values are N with the u16 / u8 bound as hypothesis; texts are arbitrary octet strings.
   [spec_* false] is the RFC 1035 / RFC 3597 reading of a text (Spec/CodeTextS.v: literal RFC
   tables, any letter case, WORD followed by decimal digits); [spec_* true] additionally allows
   one '+' before the digits (Rust's integer syntax). *)
From QV Require Import Base.ListX Model.DecU16 Model.CodeText Spec.CodeTextS Proofs.DecU16P Proofs.CodeTextP.
Local Open Scope N_scope.

(* Rendering any 16-bit value and parsing the text back yields the value. *)
Theorem c17_roundtrip_type : forall v, v < 65536 -> type_from_str (type_to_string v) = Ok v.
Proof. exact type_roundtrip. Qed.
Theorem c17_roundtrip_class : forall v, v < 65536 -> class_from_str (class_to_string v) = Ok v.
Proof. exact class_roundtrip. Qed.
Theorem c17_roundtrip_qtype : forall v, v < 65536 -> qtype_from_str (qtype_to_string v) = Ok v.
Proof. exact qtype_roundtrip. Qed.
Theorem c17_roundtrip_qclass : forall v, v < 65536 -> qclass_from_str (qclass_to_string v) = Ok v.
Proof. exact qclass_roundtrip. Qed.

(* The rendered text is a spelling of the value that the RFCs define (mnemonic of the RFC tables or
   TYPEnnn / CLASSnnn): the tables of the implementation carry the RFC's numbers. *)
Theorem c17_display_denotes_type : forall v, v < 65536 -> spec_type false (type_to_string v) = Some v.
Proof. exact type_display_denotes. Qed.
Theorem c17_display_denotes_class : forall v, v < 65536 -> spec_class false (class_to_string v) = Some v.
Proof. exact class_display_denotes. Qed.
Theorem c17_display_denotes_qtype : forall v, v < 65536 -> spec_qtype false (qtype_to_string v) = Some v.
Proof. exact qtype_display_denotes. Qed.
Theorem c17_display_denotes_qclass : forall v, v < 65536 -> spec_qclass false (qclass_to_string v) = Some v.
Proof. exact qclass_display_denotes. Qed.

(* The parsers accept EXACTLY the texts of the (lenient) RFC reading, with the same value —
   for every octet string. *)
Theorem c17_parse_exact_type : forall s v, type_from_str s = Ok v <-> spec_type true s = Some v.
Proof. exact type_from_str_exact. Qed.
Theorem c17_parse_exact_class : forall s v, class_from_str s = Ok v <-> spec_class true s = Some v.
Proof. exact class_from_str_exact. Qed.
Theorem c17_parse_exact_qtype : forall s v, qtype_from_str s = Ok v <-> spec_qtype true s = Some v.
Proof. exact qtype_from_str_exact. Qed.
Theorem c17_parse_exact_qclass : forall s v, qclass_from_str s = Ok v <-> spec_qclass true s = Some v.
Proof. exact qclass_from_str_exact. Qed.

(* In particular everything the strict RFC reading accepts is accepted, with its value. *)
Theorem c17_accepts_rfc_forms : forall s v,
  (spec_type false s = Some v -> type_from_str s = Ok v) /\
  (spec_class false s = Some v -> class_from_str s = Ok v) /\
  (spec_qtype false s = Some v -> qtype_from_str s = Ok v) /\
  (spec_qclass false s = Some v -> qclass_from_str s = Ok v).
Proof. exact accepts_rfc_forms. Qed.

(* Mnemonics parse case-insensitively: any text equal to a mnemonic of the (regenerated) FromStr
   arms up to ASCII letter case parses to that arm's value. *)
Theorem c17_mnemonic_case_type : forall m v s,
  In (m, v) type_parse_arms -> map lower s = map lower m -> type_from_str s = Ok v.
Proof. exact type_mnemonic_case. Qed.
Theorem c17_mnemonic_case_class : forall m v s,
  In (m, v) class_parse_arms -> map lower s = map lower m -> class_from_str s = Ok v.
Proof. exact class_mnemonic_case. Qed.
Theorem c17_mnemonic_case_qtype : forall m v s,
  In (m, v) (qtype_parse_arms ++ type_parse_arms) -> map lower s = map lower m -> qtype_from_str s = Ok v.
Proof. exact qtype_mnemonic_case. Qed.
Theorem c17_mnemonic_case_qclass : forall m v s,
  In (m, v) (qclass_parse_arms ++ class_parse_arms) -> map lower s = map lower m -> qclass_from_str s = Ok v.
Proof. exact qclass_mnemonic_case. Qed.

(* RFC 3597: TYPEnnn / CLASSnnn parse for every value, for every letter case of the word and any
   number k of leading zeros ([84;89;80;69] = "TYPE", [67;76;65;83;83] = "CLASS"). *)
Theorem c17_generic_type : forall p k v, map lower p = map lower [84; 89; 80; 69] -> v < 65536 ->
  type_from_str (p ++ repeat 48 k ++ u16_display v) = Ok v.
Proof. exact type_generic_form. Qed.
Theorem c17_generic_class : forall p k v, map lower p = map lower [67; 76; 65; 83; 83] -> v < 65536 ->
  class_from_str (p ++ repeat 48 k ++ u16_display v) = Ok v.
Proof. exact class_generic_form. Qed.
Theorem c17_generic_qtype : forall p k v, map lower p = map lower [84; 89; 80; 69] -> v < 65536 ->
  qtype_from_str (p ++ repeat 48 k ++ u16_display v) = Ok v.
Proof. exact qtype_generic_form. Qed.
Theorem c17_generic_qclass : forall p k v, map lower p = map lower [67; 76; 65; 83; 83] -> v < 65536 ->
  qclass_from_str (p ++ repeat 48 k ++ u16_display v) = Ok v.
Proof. exact qclass_generic_form. Qed.

(* Opcode and RCODE conversions accept exactly the 4-bit values (and keep the value);
   an extended RCODE converts to an RCODE exactly when it is below 16. *)
Theorem c17_opcode : forall v c, opcode_try_from v = Ok c <-> v < 16 /\ c = v.
Proof. exact opcode_try_from_spec. Qed.
Theorem c17_rcode : forall v c, rcode_try_from v = Ok c <-> v < 16 /\ c = v.
Proof. exact rcode_try_from_spec. Qed.
Theorem c17_ext_rcode : forall e c, rcode_try_from_ext e = Ok c <-> e < 16 /\ c = e.
Proof. exact rcode_try_from_ext_spec. Qed.
Theorem c17_rcode_ext_roundtrip : forall r, r < 16 -> rcode_try_from_ext (ercode_from_rcode r) = Ok r.
Proof. exact rcode_ext_roundtrip. Qed.

(* No text makes a parser panic (the &text[4..] slice is always on a character boundary). *)
Theorem c17_no_panic : forall s,
  type_from_str s <> Panic /\ class_from_str s <> Panic /\ qtype_from_str s <> Panic /\ qclass_from_str s <> Panic.
Proof.
  exact (fun s => conj (type_from_str_no_panic s) (conj (class_from_str_no_panic s)
                  (conj (qtype_from_str_no_panic s) (qclass_from_str_no_panic s)))).
Qed.

(* The decimal codec underneath (Rust's u16 Display / from_str): general, by induction. *)
Theorem c17_u16_codec : forall v, v < 65536 -> u16_from_str (u16_display v) = Ok v.
Proof. exact u16_codec. Qed.
(* u16::from_str accepts exactly: an optional '+', then one or more decimal digits of value <= 65535. *)
Theorem c17_u16_from_str_spec : forall s v, u16_from_str s = Ok v <-> spec_number true s = Some v.
Proof. exact u16_from_str_spec. Qed.

(* Regression witness for the repaired defect: with the arms matched structurally (the code before the
   fix: commit) a lower-case mnemonic was refused; the repaired parser accepts it. *)
Theorem c17_lowercase_refuted_prefix : type_from_str_prefix [97] = Err UnknownCode /\ type_from_str [97] = Ok 1.
Proof. exact prefix_rejects_lowercase. Qed.

(* Non-vacuity: concrete instances of the hypotheses. *)
Example c17_example_mnemonic : In ([67; 78; 65; 77; 69], 5) type_parse_arms /\
  type_from_str [99; 78; 97; 109; 69] = Ok 5 /\ qtype_from_str [99; 78; 97; 109; 69] = Ok 5 /\
  type_to_string 5 = [67; 78; 65; 77; 69].
Proof. split; [vm_compute; tauto|]. repeat split; vm_compute; reflexivity. Qed.
Example c17_example_generic :
  type_to_string 65280 = [84; 89; 80; 69; 54; 53; 50; 56; 48] /\
  type_from_str ([116; 89; 112; 69] ++ repeat 48 2 ++ u16_display 65280) = Ok 65280 /\
  qclass_to_string 255 = [42] /\ qclass_from_str [42] = Ok 255 /\
  type_from_str [84; 89; 80; 69; 54; 53; 53; 51; 54] = Err BadNumber /\
  spec_type true [84; 89; 80; 69; 43; 49] = Some 1 /\ spec_type false [84; 89; 80; 69; 43; 49] = None.
Proof. repeat split; vm_compute; reflexivity. Qed.

Print Assumptions c17_roundtrip_type.
Print Assumptions c17_roundtrip_class.
Print Assumptions c17_roundtrip_qtype.
Print Assumptions c17_roundtrip_qclass.
Print Assumptions c17_display_denotes_type.
Print Assumptions c17_display_denotes_class.
Print Assumptions c17_display_denotes_qtype.
Print Assumptions c17_display_denotes_qclass.
Print Assumptions c17_parse_exact_type.
Print Assumptions c17_parse_exact_class.
Print Assumptions c17_parse_exact_qtype.
Print Assumptions c17_parse_exact_qclass.
Print Assumptions c17_accepts_rfc_forms.
Print Assumptions c17_mnemonic_case_type.
Print Assumptions c17_mnemonic_case_class.
Print Assumptions c17_mnemonic_case_qtype.
Print Assumptions c17_mnemonic_case_qclass.
Print Assumptions c17_generic_type.
Print Assumptions c17_generic_class.
Print Assumptions c17_generic_qtype.
Print Assumptions c17_generic_qclass.
Print Assumptions c17_opcode.
Print Assumptions c17_rcode.
Print Assumptions c17_ext_rcode.
Print Assumptions c17_rcode_ext_roundtrip.
Print Assumptions c17_no_panic.
Print Assumptions c17_u16_codec.
Print Assumptions c17_u16_from_str_spec.
Print Assumptions c17_lowercase_refuted_prefix.
