(* C30 — I/O providers answer each request once with correct framing.
   Statements only; proofs are in Proofs/FramingP.v and Proofs/FramingSP.v. *)
From QV Require Import Base.Res Base.Octets Base.ListX Gen.IoConsts
  Model.Framing Spec.FramingS Proofs.FramingSP Proofs.FramingP.

Definition handler_bounded (handler : bytes -> option bytes) : Prop :=
  forall m r, handler m = Some r -> (N.of_nat (length r) < 65536)%N.
Definition no_shutdown : nat -> bool := fun _ => false.

Lemma blocking_caps : (65537 <= N.of_nat (N.to_nat TCP_RECV_BUF_LEN_BLOCKING))%N /\
                      (65537 <= N.of_nat (N.to_nat TCP_RESP_BUF_LEN_BLOCKING))%N.
Proof.
  rewrite !N2Nat.id. change TCP_RECV_BUF_LEN_BLOCKING with 65537%N.
  change TCP_RESP_BUF_LEN_BLOCKING with 65537%N. lia.
Qed.
Lemma tokio_caps : (65537 <= N.of_nat (N.to_nat TCP_RECV_BUF_LEN_TOKIO))%N /\
                   (65537 <= N.of_nat (N.to_nat TCP_RESP_BUF_LEN_TOKIO))%N.
Proof.
  rewrite !N2Nat.id. change TCP_RECV_BUF_LEN_TOKIO with 65537%N.
  change TCP_RESP_BUF_LEN_TOKIO with 65537%N. lia.
Qed.

(* Source tie of the repaired close (finding C30-1): both providers end a connection after a
   response-less request through close_after_draining, which [drain_close] models. *)
Lemma close_after_none_drains :
  TCP_CLOSE_AFTER_NONE_DRAINS_BLOCKING = 1%N /\ TCP_CLOSE_AFTER_NONE_DRAINS_TOKIO = 1%N.
Proof. split; reflexivity. Qed.

(* TCP, blocking provider.  For every request list and EVERY way of cutting the concatenated
   framed requests into reads (cuts inside the 2-octet length prefix, several requests in one
   read, reads larger than the free buffer space), followed by any stopping event tl (EOF,
   timeout, I/O error, or nothing), the bytes written are the framed responses of the
   requests in order up to and excluding the first response-less request; the connection is
   then closed because of that request, or else the way tl says. *)
Theorem c30_segmentation_blocking : forall handler reqs segs tl,
  handler_bounded handler ->
  Forall wf_bytes reqs -> Forall (fun m => (N.of_nat (length m) < 65536)%N) reqs ->
  Forall (fun s => s <> []) segs -> stop_tail tl ->
  concat segs = frame_all reqs ->
  run_tcp_blocking handler no_shutdown (map data segs ++ tl) =
  Ok (map frame (take_until_none (map handler reqs)),
      cr (if all_answered handler reqs then tail_end tl else EndNoResponse)).
Proof.
  intros handler reqs segs tl Hb. destruct blocking_caps as [H1 H2].
  exact (run_tcp_segmentation handler _ _ H1 H2 Hb reqs segs tl).
Qed.

(* The same for the Tokio provider's copy of the loop. *)
Theorem c30_segmentation_tokio : forall handler reqs segs tl,
  handler_bounded handler ->
  Forall wf_bytes reqs -> Forall (fun m => (N.of_nat (length m) < 65536)%N) reqs ->
  Forall (fun s => s <> []) segs -> stop_tail tl ->
  concat segs = frame_all reqs ->
  run_tcp_tokio handler no_shutdown (map data segs ++ tl) =
  Ok (map frame (take_until_none (map handler reqs)),
      cr (if all_answered handler reqs then tail_end tl else EndNoResponse)).
Proof.
  intros handler reqs segs tl Hb. destruct tokio_caps as [H1 H2].
  exact (run_tcp_segmentation handler _ _ H1 H2 Hb reqs segs tl).
Qed.

(* Arbitrary streams (also ones that end inside a frame): the complete frames are served,
   the incomplete tail t is never answered.  Any buffer sizes >= 2 + 65535. *)
Theorem c30_stream : forall handler cap rcap segs tl ms t,
  (65537 <= N.of_nat cap)%N -> (65537 <= N.of_nat rcap)%N -> handler_bounded handler ->
  Forall (fun s => s <> []) segs -> stop_tail tl -> wf_bytes (concat segs) ->
  framed ms t (concat segs) ->
  run_tcp handler cap rcap no_shutdown (map data segs ++ tl) =
  Ok (fst (service handler ms (tail_end tl)), cr (snd (service handler ms (tail_end tl)))).
Proof. intros handler cap rcap segs tl ms t H1 H2 Hb. exact (run_tcp_stream handler cap rcap H1 H2 Hb segs tl ms t). Qed.

(* The connection is closed right after the first request that gets no response: nothing
   that follows it on the connection is answered. *)
Theorem c30_close_after_none : forall handler pre m post e,
  all_answered handler pre = true -> handler m = None ->
  service handler (pre ++ m :: post) e = (map frame (take_until_none (map handler pre)), EndNoResponse).
Proof. intros. rewrite service_close_after_none by assumption. reflexivity. Qed.

(* One response per request when all are answered. *)
Theorem c30_one_response_each : forall handler reqs e,
  all_answered handler reqs = true ->
  length (fst (service handler reqs e)) = length reqs /\ snd (service handler reqs e) = e.
Proof. exact service_all_answered. Qed.

(* For EVERY event list (arbitrary octets, timeouts, interrupts, errors, expired deadlines)
   and every shutdown schedule the loop ends with a close: no panic (no slice out of range,
   the read buffer is never handed over empty by mistake), and the model's fuel suffices. *)
Theorem c30_tcp_total : forall handler cap rcap sd evs,
  (65537 <= N.of_nat cap)%N -> (65537 <= N.of_nat rcap)%N -> handler_bounded handler ->
  exists ws c, run_tcp handler cap rcap sd evs = Ok (ws, c).
Proof. intros handler cap rcap sd evs H1 H2 Hb. exact (run_tcp_total handler cap rcap sd H1 H2 Hb evs). Qed.

(* UDP: what one datagram can cause: at most one send, to the datagram's source, from the
   address it was sent to, of at most psize octets, and it is the handler's answer to the
   (possibly truncated) datagram alone. *)
Theorem c30_udp_one : forall handler psize d out,
  udp_one handler psize d = Ok out ->
  out = udp_spec_one handler psize d /\ length out <= 1 /\
  forall s, In s out -> us_to s = dg_src d /\ us_from s = dg_dst d /\ length (us_payload s) <= psize.
Proof. exact udp_one_spec. Qed.

(* The blocking UDP worker: the sends are exactly the per-datagram answers of the datagrams
   it received, in order; never more sends than datagrams; all within psize. *)
Theorem c30_udp_blocking : forall handler psize sd evs out,
  udp_blocking handler psize sd 0 evs = Ok out ->
  out = flat_map (udp_spec_one handler psize) (udp_received sd 0 evs) /\
  length out <= length (udp_received sd 0 evs) /\
  Forall (fun s => length (us_payload s) <= psize) out.
Proof.
  intros handler psize sd evs out H. split; [|split].
  - eapply udp_blocking_spec; eauto.
  - apply udp_blocking_spec in H. subst out. apply udp_spec_at_most_one.
  - eapply udp_sends_bounded; eauto.
Qed.

Theorem c30_udp_total : forall handler psize sd evs,
  (forall m r, handler m = Some r -> length r <= psize) ->
  exists out, udp_blocking handler psize sd 0 evs = Ok out.
Proof. intros handler psize sd evs Hb. exact (udp_blocking_total handler psize sd Hb evs 0). Qed.

(* The Tokio UDP receiver: one task per received datagram, each computing that datagram's answer. *)
Theorem c30_udp_tokio : forall handler psize evs,
  Forall2 (fun r d => forall out, r = Ok out -> out = udp_spec_one handler psize d)
          (udp_tokio handler psize evs) (udp_received (fun _ => false) 0 evs).
Proof. exact udp_tokio_spec. Qed.

(* The executable deframer used as the oracle on implementation output is the relation. *)
Theorem c30_oracle_is_spec : forall s ms, wf_bytes s ->
  (deframe s = ms <-> exists t, framed ms t s).
Proof. exact deframe_iff. Qed.

(* Non-vacuity: two pipelined requests and a response-less third, cut inside the first length
   prefix and in the middle of the second request; the fourth request is never answered. *)
Definition ex_handler (m : bytes) : option bytes :=
  match m with
  | [] => None
  | x :: _ => if (x =? 255)%N then None else Some (m ++ [7%N])
  end.

Example c30_example :
  let reqs := [[1; 2; 3]; [4]; [255; 0]; [9; 9]]%N in
  let segs := [[0]; [3; 1; 2]; [3; 0; 1; 4; 0]; [2; 255; 0; 0; 2; 9; 9]]%N in
  concat segs = frame_all reqs /\
  Forall (fun s => s <> []) segs /\ stop_tail [RdEof] /\
  run_tcp_blocking ex_handler no_shutdown (map data segs ++ [RdEof]) =
    Ok ([[0; 4; 1; 2; 3; 7]; [0; 2; 4; 7]]%N, ClNoResponse) /\
  map frame (take_until_none (map ex_handler reqs)) = [[0; 4; 1; 2; 3; 7]; [0; 2; 4; 7]]%N.
Proof.
  cbv zeta. split; [reflexivity|]. split; [repeat constructor; discriminate|].
  split; [reflexivity|]. split; [vm_compute; reflexivity|reflexivity].
Qed.

Example c30_example_udp :
  udp_blocking ex_handler 4 (fun _ => false) 0
    [UdRecv {| dg_payload := [1; 2]%N; dg_src := 10; dg_dst := 1 |}; UdTimeout;
     UdRecv {| dg_payload := [255]%N; dg_src := 11; dg_dst := 1 |};
     UdRecv {| dg_payload := [3; 3; 3; 3; 3; 3]%N; dg_src := 12; dg_dst := 2 |}] = Panic /\
  udp_blocking ex_handler 5 (fun _ => false) 0
    [UdRecv {| dg_payload := [1; 2]%N; dg_src := 10; dg_dst := 1 |}; UdTimeout;
     UdRecv {| dg_payload := [255]%N; dg_src := 11; dg_dst := 1 |}] =
  Ok [{| us_payload := [1; 2; 7]%N; us_to := 10%N; us_from := 1%N |}].
Proof. split; vm_compute; reflexivity. Qed.

Print Assumptions c30_segmentation_blocking.
Print Assumptions c30_segmentation_tokio.
Print Assumptions c30_stream.
Print Assumptions c30_close_after_none.
Print Assumptions c30_one_response_each.
Print Assumptions c30_tcp_total.
Print Assumptions c30_udp_one.
Print Assumptions c30_udp_blocking.
Print Assumptions c30_udp_total.
Print Assumptions c30_udp_tokio.
Print Assumptions c30_oracle_is_spec.
