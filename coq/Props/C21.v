(* C21 — zone validation reports exactly the defined semantic issues.
   Statements only; every proof is [exact <lemma from Proofs/ZoneValidP.v>].
   [req] = Rdata::equals (assumed transitive), [parse] = Name::try_from_uncompressed_all on RDATA
   octets (arbitrary).  [spec_validate] is the reference checker over the flat list of accepted
   records (Spec/ZoneValidS.v); it reports lower-cased names. *)
From QV Require Import Base.Res Base.Octets Model.ZoneTree Model.ZoneValid Spec.ZoneLookupS Spec.ZoneValidS
  Proofs.ZoneValidP Model.ZoneReal Spec.ZoneRealS Proofs.ZoneRealP.
From QV Require Model.NameWire Model.RdataM Spec.NameWireS Spec.NameRepr Spec.RdataFormatS Spec.RdataEqS.

(* the shared runner (Extract/ExZone.v) also extracts the RdataSet buffer model: keep it in this cone *)
From QV Require Model.RdataBuf.


(* ================================================================================================
   The theorems for the REAL Rdata::equals and the REAL name parser.
   Model side: [req_real] = Model/RdataM.v [equals] (C19's model of Rdata::equals) and [parse_real] =
   Model/NameWire.v [parse_uncompressed_name _ true] (C14's model of Name::try_from_uncompressed_all)
   followed by reading every non-root label of the resulting Name through [label_at].
   Specification side: [spec_req] = the RFC characterisation of RDATA equality (Spec/RdataEqS.v) and
   [spec_rdata_name] = "the whole RDATA is one uncompressed domain name" by the C14 decoding relation
   (Spec/ZoneRealS.v).  Only hypothesis on the records: every RDATA is an octet string (u8 elements). *)

(* what the parser instance is: the C14 model never panics; when it returns a Name, that Name is the
   representation (offsets + wire form) of a valid label list, every label access succeeds and parse_real
   returns that list; when it returns an error parse_real returns None *)
Theorem c21_parse_real_is_parser : forall rd, wf_bytes rd ->
  match NameWire.parse_uncompressed_name rd true with
  | Ok (nm, l) => l = length rd /\
                  exists ls, nm = NameRepr.name_of ls /\ RdataFormatS.valid_name ls /\ parse_real rd = Some ls
  | Err _ => parse_real rd = None
  | Panic => False
  end.
Proof. exact parse_real_faithful. Qed.

(* and it accepts exactly the RDATA that is one uncompressed domain name, with that name *)
Theorem c21_parse_real_spec : forall rd ls, wf_bytes rd ->
  (parse_real rd = Some ls <-> NameWireS.decodes_uncompressed rd ls (length rd)).
Proof.
  intros rd ls Hwf. rewrite (parse_real_spec rd Hwf). apply spec_rdata_name_iff.
Qed.

Theorem c21_exact_real : forall apex cls wide recs z, Forall wf_record recs ->
  zone_build req_real (zone_new apex cls wide) recs = Some z ->
  forall l, zone_validate parse_real z = Ok l ->
  exists l', spec_validate spec_req spec_rdata_name apex cls wide (accepted apex cls recs) = Some l' /\
             forall i, In i (map norm_issue l) <-> In i l'.
Proof. exact real_validate_exact. Qed.

Theorem c21_err_real : forall apex cls wide recs z, Forall wf_record recs ->
  zone_build req_real (zone_new apex cls wide) recs = Some z ->
  (zone_validate parse_real z = Err InvalidRdata <->
   spec_validate spec_req spec_rdata_name apex cls wide (accepted apex cls recs) = None) /\
  zone_validate parse_real z <> Panic /\
  (forall e, zone_validate parse_real z = Err e -> e = InvalidRdata).
Proof. exact real_validate_err. Qed.

(* Non-vacuity with the real instances: apex c. (IN, narrow): SOA twice in different letter case (ONE
   RDATA: no TooManyApexSoas), apex NS NS.C. while the address record is owned by ns.c. (found: names
   are case-insensitive), w.c. CNAME c. / CNAME C. (one RDATA: no DuplicateCname), a delegation
   b.c. NS ns.B.C. without glue (MissingGlue), MX 10 MX.c. absent (MissingMxAddress).  A second zone whose
   delegation NS RDATA is a name followed by one junk octet fails with InvalidRdata, as the reference says. *)
Example c21_example_real :
  let c := [99%N] in let b := [98%N] in
  let w (l : list label) : bytes := flat_map (fun x => N.of_nat (length x) :: x) l ++ [0%N] in
  let soa l := (w [[l; 115]; c] ++ w [[114]; c] ++ repeat 0 20)%N in
  let recs :=
    [ mk_record [c] 6 1 3600 (soa 110%N); mk_record [c] 6 1 3600 (soa 78%N);
      mk_record [c] 2 1 3600 (w [[78; 83]; [67]])%N;
      mk_record [[110; 115]; c]%N 1 1 3600 [127; 0; 0; 1]%N;
      mk_record [[119%N]; c] 5 1 3600 (w [c]); mk_record [[119%N]; c] 5 1 3600 (w [[67%N]]);
      mk_record [b; c] 2 1 3600 (w [[110; 115]; [66]; [67]])%N;
      mk_record [c] 15 1 3600 ([0; 10] ++ w [[77; 88]; c])%N ] in
  let bad := [ mk_record [c] 2 1 3600 (w [[110; 115]; c])%N;
               mk_record [b; c] 2 1 3600 (w [[110; 115]; c] ++ [9])%N ] in
  Forall wf_record recs /\
  (exists z l, zone_build req_real (zone_new [c] 1 false) recs = Some z /\
    zone_validate parse_real z = Ok l /\
    (forall i, In i l <-> In i [MissingGlue [[110; 115]; [66]; [67]]%N; MissingMxAddress [[77; 88]; c]%N])) /\
  (exists z, zone_build req_real (zone_new [c] 1 false) bad = Some z /\
    zone_validate parse_real z = Err InvalidRdata /\
    spec_validate spec_req spec_rdata_name [c] 1 false (accepted [c] 1 bad) = None).
Proof.
  cbv zeta. split; [|split].
  - repeat constructor; apply wf_bytesb_spec; reflexivity.
  - eexists. eexists. split; [vm_compute; reflexivity|]. split; [vm_compute; reflexivity|].
    intros i. simpl. intuition.
  - eexists. split; [vm_compute; reflexivity|]. split; vm_compute; reflexivity.
Qed.

(* ================================================================================================
   Parametric library versions: any transitive RDATA equality, any name parser. *)
Definition req_transitive (req : N -> N -> bytes -> bytes -> bool) : Prop :=
  forall cls ty a b c, req cls ty a b = true -> req cls ty b c = true -> req cls ty a c = true.

(* When validation succeeds on a zone built by any add history (either glue policy), the reference
   checker succeeds too and the two report the same SET of issues (names case-insensitively):
   no missing issue, no spurious issue. *)
Theorem c21_exact : forall req, req_transitive req ->
  forall parse apex cls wide recs z,
  zone_build req (zone_new apex cls wide) recs = Some z ->
  forall l, zone_validate parse z = Ok l ->
  exists l', spec_validate req parse apex cls wide (accepted apex cls recs) = Some l' /\
             forall i, In i (map norm_issue l) <-> In i l'.
Proof. exact build_validate_exact. Qed.

(* Validation fails exactly when the reference checker finds RDATA that must be a domain name
   (apex NS, delegation NS, MX exchange in a class with address types) and is not; it never
   panics and reports no other error. *)
Theorem c21_err : forall req, req_transitive req ->
  forall parse apex cls wide recs z,
  zone_build req (zone_new apex cls wide) recs = Some z ->
  (zone_validate parse z = Err InvalidRdata <->
   spec_validate req parse apex cls wide (accepted apex cls recs) = None) /\
  zone_validate parse z <> Panic /\
  (forall e, zone_validate parse z = Err e -> e = InvalidRdata).
Proof. exact build_validate_err. Qed.

(* Only the MX-address and NS-at-wildcard issues are warnings. *)
Theorem c21_severity : forall i, issue_is_error i = negb (spec_is_warning i).
Proof. exact severity_spec. Qed.

(* Non-vacuity: apex c. (class IN, narrow policy) with one SOA, apex NS ns.c. (no address),
   a delegation b.c. NS ns.b.c. without glue, a sibling delegation a.c. NS ns.b.c. (needs no glue
   under the narrow policy), MX mx.c. (absent), a CNAME with other data, NS at a wildcard. *)
Example c21_example :
  let c := [99%N] in let b := [98%N] in let a := [97%N] in let ns := [110; 115]%N in
  let w (l : list label) : bytes := flat_map (fun x => N.of_nat (length x) :: x) l ++ [0%N] in
  let recs :=
    [ mk_record [c] 6 1 3600 [0]%N;
      mk_record [c] 2 1 3600 (w [ns; c]);
      mk_record [b; c] 2 1 3600 (w [ns; b; c]);
      mk_record [a; c] 2 1 3600 (w [ns; b; c]);
      mk_record [c] 15 1 3600 ([0; 10]%N ++ w [[109; 120]%N; c]);
      mk_record [[119%N]; c] 5 1 3600 (w [c]);
      mk_record [[119%N]; c] 16 1 3600 [0]%N;
      mk_record [[42%N]; c] 2 1 3600 (w [[120%N]]) ] in
  exists z l, zone_build req_simple (zone_new [c] 1 false) recs = Some z /\
    zone_validate parse_name_simple z = Ok l /\
    (forall i, In i l <->
       In i [MissingNsAddress [ns; c]; MissingGlue [ns; b; c]; MissingMxAddress [[109; 120]%N; c];
             OtherRecordsAtCname [[119%N]; c]; NsAtWildcard [[42%N]; c]]).
Proof.
  cbv zeta. eexists. eexists. split; [vm_compute; reflexivity|]. split; [vm_compute; reflexivity|].
  intros i. simpl. intuition.
Qed.

Print Assumptions c21_parse_real_is_parser.
Print Assumptions c21_parse_real_spec.
Print Assumptions c21_exact_real.
Print Assumptions c21_err_real.
Print Assumptions c21_exact.
Print Assumptions c21_err.
Print Assumptions c21_severity.
