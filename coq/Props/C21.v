(* C21 — zone validation reports exactly the defined semantic issues.
   Statements only; every proof is [exact <lemma from Proofs/ZoneValidP.v>].
   [req] = Rdata::equals (assumed transitive), [parse] = Name::try_from_uncompressed_all on RDATA
   octets (arbitrary).  [spec_validate] is the reference checker over the flat list of accepted
   records (Spec/ZoneValidS.v); it reports lower-cased names. *)
From QV Require Import Base.Res Base.Octets Model.ZoneTree Model.ZoneValid Spec.ZoneLookupS Spec.ZoneValidS
  Proofs.ZoneValidP.

(* the shared runner (Extract/ExZone.v) also extracts the RdataSet buffer model: keep it in this cone *)
From QV Require Model.RdataBuf.

Definition req_transitive (req : N -> N -> bytes -> bytes -> bool) : Prop :=
  forall cls ty a b c, req cls ty a b = true -> req cls ty b c = true -> req cls ty a c = true.

(* When validation succeeds on a zone built by any add history (either glue policy), the reference
   checker succeeds too and the two report the same SET of issues (names case-insensitively):
   no missing issue, no spurious issue. *)
Theorem c21_exact : forall req, req_transitive req ->
  forall parse apex cls wide recs z,
  zone_build req (zone_new apex cls wide) recs = Some z ->
  forall l, zone_validate parse z = Ok l ->
  exists l', spec_validate req parse apex cls wide (accepted apex cls recs) = Some l' /\
             forall i, In i (map norm_issue l) <-> In i l'.
Proof. exact build_validate_exact. Qed.

(* Validation fails exactly when the reference checker finds RDATA that must be a domain name
   (apex NS, delegation NS, MX exchange in a class with address types) and is not; it never
   panics and reports no other error. *)
Theorem c21_err : forall req, req_transitive req ->
  forall parse apex cls wide recs z,
  zone_build req (zone_new apex cls wide) recs = Some z ->
  (zone_validate parse z = Err InvalidRdata <->
   spec_validate req parse apex cls wide (accepted apex cls recs) = None) /\
  zone_validate parse z <> Panic /\
  (forall e, zone_validate parse z = Err e -> e = InvalidRdata).
Proof. exact build_validate_err. Qed.

(* Only the MX-address and NS-at-wildcard issues are warnings. *)
Theorem c21_severity : forall i, issue_is_error i = negb (spec_is_warning i).
Proof. exact severity_spec. Qed.

(* Non-vacuity: apex c. (class IN, narrow policy) with one SOA, apex NS ns.c. (no address),
   a delegation b.c. NS ns.b.c. without glue, a sibling delegation a.c. NS ns.b.c. (needs no glue
   under the narrow policy), MX mx.c. (absent), a CNAME with other data, NS at a wildcard. *)
Example c21_example :
  let c := [99%N] in let b := [98%N] in let a := [97%N] in let ns := [110; 115]%N in
  let w (l : list label) : bytes := flat_map (fun x => N.of_nat (length x) :: x) l ++ [0%N] in
  let recs :=
    [ mk_record [c] 6 1 3600 [0]%N;
      mk_record [c] 2 1 3600 (w [ns; c]);
      mk_record [b; c] 2 1 3600 (w [ns; b; c]);
      mk_record [a; c] 2 1 3600 (w [ns; b; c]);
      mk_record [c] 15 1 3600 ([0; 10]%N ++ w [[109; 120]%N; c]);
      mk_record [[119%N]; c] 5 1 3600 (w [c]);
      mk_record [[119%N]; c] 16 1 3600 [0]%N;
      mk_record [[42%N]; c] 2 1 3600 (w [[120%N]]) ] in
  exists z l, zone_build req_simple (zone_new [c] 1 false) recs = Some z /\
    zone_validate parse_name_simple z = Ok l /\
    (forall i, In i l <->
       In i [MissingNsAddress [ns; c]; MissingGlue [ns; b; c]; MissingMxAddress [[109; 120]%N; c];
             OtherRecordsAtCname [[119%N]; c]; NsAtWildcard [[42%N]; c]]).
Proof.
  cbv zeta. eexists. eexists. split; [vm_compute; reflexivity|]. split; [vm_compute; reflexivity|].
  intros i. simpl. intuition.
Qed.

Print Assumptions c21_exact.
Print Assumptions c21_err.
Print Assumptions c21_severity.
