(* C05 — query answers follow the DNS resolution algorithm.
   Statements only; every proof is [exact <lemma from Proofs/Query*.v>] (corollaries: a few lines).

   [answer_rec z qname qtype tcp] is src/server/query.rs (handle_non_axfr_query with its error
   mapping, answer / answer_any, CNAME following, referrals, additional-section processing, the
   negative-caching SOA of the REPAIRED code) run on the tree zone [z] against an idealised Writer
   with unbounded space that records the three sections (Model/Query.v: rec_iface).
   [resolve req apex cls R qname qtype] is the independent resolver of Spec/ResolveS.v over the FLAT
   list R of the zone's records.  [norm_rec] lower-cases owner names; everything else is compared
   exactly, section by section, IN ORDER (so in particular as multisets).
   [req] is Rdata::equals (a parameter; only its transitivity is assumed, as in C06). *)
From QV Require Import Base.Res Base.Octets Model.ZoneTree Spec.ZoneLookupS Model.Query Spec.ResolveS
  Spec.ResolveRepr Proofs.QueryP Proofs.QueryTopP Proofs.QueryDispatchP.
(* the runner (Extract/ExC05.v) also extracts the server model and the octet-level instance *)
From QV Require Model.Server Model.Reader Spec.NameRepr.

Definition req_transitive (req : N -> N -> bytes -> bytes -> bool) : Prop :=
  forall cls ty a b c, req cls ty a b = true -> req cls ty b c = true -> req cls ty a c = true.

(* For every zone built by any sequence of adds (rejected adds included), every query name at or
   below the apex (what the catalog lookup of handle_query guarantees), every QTYPE and both
   transports: the answering logic never panics, and RCODE, AA and the answer, authority and
   additional sections are exactly those of the specification resolver run on the accepted records. *)
Theorem c05_answer_refines : forall req, req_transitive req ->
  forall apex cls wide recs z qname qtype tcp,
  zone_build req (zone_new apex cls wide) recs = Some z ->
  records_wf recs -> in_zone apex qname = true ->
  exists r, answer_rec z qname qtype tcp = Some r /\
            norm_rec r = resolve req apex cls (accepted apex cls recs) qname qtype.
Proof. exact build_answer_refines. Qed.

(* The hypothesis [in_zone apex qname] is what the server's dispatch guarantees: the catalog entry
   handle_query selects (Model/Server.v, longest suffix within the class; refined by the hash-map tree
   in C22) has a name that is a suffix of the query name; for a Loaded entry that name is the apex. *)
Theorem c05_dispatch_in_zone : forall es (q : Reader.question) cls e apex,
  Server.cat_lookup es (Server.name_key (Reader.q_name q)) cls None = Some e ->
  Server.e_name e = Server.lower_labels apex ->
  in_zone apex (labels_of (Reader.q_name q)) = true.
Proof. exact dispatch_in_zone. Qed.

(* Chain bound: for a QTYPE other than CNAME and ANY the answer section never holds more than 8
   CNAME records (specification, and therefore the code). *)
Theorem c05_chain_bound : forall req, req_transitive req ->
  forall apex cls wide recs z qname qtype tcp r,
  zone_build req (zone_new apex cls wide) recs = Some z ->
  records_wf recs -> in_zone apex qname = true ->
  (qtype =? 5)%N = false -> (qtype =? 255)%N = false ->
  answer_rec z qname qtype tcp = Some r ->
  n_cnames (map norm_rr (rc_an r)) <= 8.
Proof.
  intros req Ht apex cls wide recs z qname qtype tcp r Hb Hw Z H5 H255 Hr.
  destruct (build_answer_refines req Ht apex cls wide recs z qname qtype tcp Hb Hw Z) as (r' & Hr' & Hn).
  rewrite Hr in Hr'. inversion Hr'; subst r'.
  change (map norm_rr (rc_an r)) with (s_an (norm_rec r)). rewrite Hn.
  apply resolve_chain_bound; assumption.
Qed.

(* Loops: a CNAME whose target is the query name or an alias already followed ends in SERVFAIL,
   whatever has been collected so far. *)
Theorem c05_loop_servfail : forall req apex cls R links visited owner cn an qt rd rest target,
  snd cn = rd :: rest -> name_of_wire rd = Some target -> In (lc target) visited ->
  chase req apex cls R links visited owner cn an qt = servfail.
Proof. exact chase_loop. Qed.

(* Negative answers (here: the name does not exist): RCODE 3, AA, and the authority section is the
   zone's SOA with TTL = min(TTL of the SOA RRset, MINIMUM) (RFC 2308 §3; a MINIMUM with the top bit
   set counts as 0, RFC 2181 §8). *)
Theorem c05_negative_ttl : forall req, req_transitive req ->
  forall apex cls wide recs z qname qtype tcp soa,
  zone_build req (zone_new apex cls wide) recs = Some z ->
  records_wf recs -> in_zone apex qname = true -> (qtype =? 255)%N = false ->
  spec_lookup req apex cls (accepted apex cls recs) qname qtype false false = Some LNxDomain ->
  negative_soa req apex cls (accepted apex cls recs) = Some soa ->
  exists r, answer_rec z qname qtype tcp = Some r /\ rcode_of r = 3%N /\ rc_aa r = true /\
            map norm_rr (rc_ns r) = [soa] /\
            exists ttl rd rest sos m,
              spec_lookup req apex cls (accepted apex cls recs) apex 6 false false = Some (LFound (ttl, rd :: rest) sos) /\
              soa_minimum rd = Some m /\ s_ttl soa = N.min ttl (ttl_value m).
Proof.
  intros req Ht apex cls wide recs z qname qtype tcp soa Hb Hw Z H255 Hl Hs.
  destruct (build_answer_refines req Ht apex cls wide recs z qname qtype tcp Hb Hw Z) as (r & Hr & Hn).
  exists r. split; [exact Hr|]. unfold resolve in Hn. rewrite H255, Hl in Hn. unfold negative in Hn. rewrite Hs in Hn.
  unfold norm_rec in Hn. inversion Hn as [[H1 H2 H3 H4 H5]]. repeat split; auto.
  destruct (negative_soa_ttl req apex cls _ soa Hs) as (ttl & rd & rest & sos & m & A & B & C & _).
  exists ttl, rd, rest, sos, m. auto.
Qed.

(* Mandatory glue: every address record the zone holds for a name server that lies inside the
   delegated zone is in the additional section of the referral. *)
Theorem c05_mandatory_glue : forall req apex cls R aa an c ns targets t x,
  all_some (map (fun rd => rdata_name rd 0) (snd ns)) = Some targets ->
  In t targets -> is_suffixb (lc c) (lc t) = true ->
  In x (addrs_of req apex cls R t true) ->
  In x (s_ar (referral req apex cls R aa an c ns)).
Proof. exact referral_glue. Qed.

(* Regression witness for the defect repaired by the fix: commit: with an SOA RRset of TTL 3 whose
   MINIMUM is 5, the code as it was ([answer_rec_prefix]: Ttl::from(MINIMUM)) answers an NXDOMAIN
   with an SOA of TTL 5, the specification (and the repaired code) with TTL 3. *)
Theorem c05_negative_ttl_refuted_prefix :
  let a := [97%N] in let x := [120%N] in
  let soa := [0; 0; 0;0;0;1; 0;0;0;2; 0;0;0;3; 0;0;0;4; 0;0;0;5]%N in
  let recs := [mk_record [a] 6 1 3 soa] in
  exists z, zone_build req_simple (zone_new [a] 1 false) recs = Some z /\
    option_map (fun r => map q_ttl (rc_ns r)) (answer_rec_prefix z [x; a] 1 true) = Some [5%N] /\
    option_map (fun r => map q_ttl (rc_ns r)) (answer_rec z [x; a] 1 true) = Some [3%N] /\
    map s_ttl (s_ns (resolve req_simple [a] 1 (accepted [a] 1 recs) [x; a] 1)) = [3%N].
Proof. cbv zeta. eexists. split; [vm_compute; reflexivity|]. vm_compute. repeat split. Qed.

(* Non-vacuity.  Zone "a." (class IN): SOA (TTL 3600, MINIMUM 60); c1 -> c2 -> w (CNAMEs) with w A;
   l1 -> l2 -> l1 (a loop); o -> "z." (alias leaving the zone); wildcard *.a TXT;
   a delegation d.a NS ns.d.a (glue A) and NS ns.a (address in the zone); MX at the apex to w.a.
   The hypotheses of c05_answer_refines are met, and the answers are: a chased chain (2 CNAMEs + A),
   SERVFAIL for the loop, the bare alias for the out-of-zone target, a wildcard answer under the
   query name, a referral with glue first, NXDOMAIN with the SOA at TTL 60, MX with the address of
   its target in the additional section. *)
Example c05_example :
  let a := [97%N] in
  let n := fun (l : list N) => [l; a] in
  let wn := fun (l : list N) => (N.of_nat (length l) :: l) ++ [1; 97; 0]%N in
  let soa := [0; 0; 0;0;0;1; 0;0;0;2; 0;0;0;3; 0;0;0;4; 0;0;0;60]%N in
  let recs :=
    [ mk_record [a] 6 1 3600 soa;
      mk_record (n [99; 49]%N) 5 1 300 (wn [99; 50]%N);
      mk_record (n [99; 50]%N) 5 1 300 (wn [119]%N);
      mk_record (n [119]%N) 1 1 60 [10; 0; 0; 1]%N;
      mk_record (n [108; 49]%N) 5 1 300 (wn [108; 50]%N);
      mk_record (n [108; 50]%N) 5 1 300 (wn [76; 49]%N);
      mk_record (n [111]%N) 5 1 300 [1; 122; 0]%N;
      mk_record (n [42]%N) 16 1 60 [1; 120]%N;
      mk_record (n [100]%N) 2 1 600 ([2; 110; 115] ++ wn [100])%N;
      mk_record (n [100]%N) 2 1 600 (wn [110; 115]%N);
      mk_record [[110; 115]; [100]; a]%N 1 1 60 [10; 0; 0; 2]%N;
      mk_record (n [110; 115]%N) 1 1 60 [10; 0; 0; 3]%N;
      mk_record [a] 15 1 60 ([0; 10] ++ wn [119])%N ] in
  let spec := resolve req_simple [a] 1 (accepted [a] 1 recs) in
  exists z, zone_build req_simple (zone_new [a] 1 false) recs = Some z /\ records_wf recs /\
    option_map norm_rec (answer_rec z (n [99; 49]%N) 1 true) = Some (spec (n [99; 49]%N) 1%N) /\
    map s_type (s_an (spec (n [99; 49]%N) 1%N)) = [5; 5; 1]%N /\
    spec (n [108; 49]%N) 1%N = servfail /\
    spec (n [111]%N) 1%N = mk_sresp 0 true [mk_srr (n [111]%N) 5 1 300 [1; 122; 0]%N] [] [] /\
    s_an (spec (n [113]%N) 16%N) = [mk_srr (n [113]%N) 16 1 60 [1; 120]%N] /\
    (let r := spec [[120%N]; [100%N]; a] 1%N in
     s_aa r = false /\ length (s_ns r) = 2 /\ map s_rdata (s_ar r) = [[10; 0; 0; 2]; [10; 0; 0; 3]]%N) /\
    (let r := spec [[120%N]; [119%N]; a] 1%N in s_rcode r = 3%N /\ map s_ttl (s_ns r) = [60%N]) /\
    map s_rdata (s_ar (spec [a] 15%N)) = [[10; 0; 0; 1]%N].
Proof.
  cbv zeta. eexists. split; [vm_compute; reflexivity|]. split.
  { repeat constructor; apply wf_bytesb_spec; reflexivity. }
  vm_compute. repeat split.
Qed.

Print Assumptions c05_answer_refines.
Print Assumptions c05_dispatch_in_zone.
Print Assumptions c05_chain_bound.
Print Assumptions c05_loop_servfail.
Print Assumptions c05_negative_ttl.
Print Assumptions c05_mandatory_glue.
Print Assumptions c05_negative_ttl_refuted_prefix.
