(* C16 — domain name text form, equality and ordering are consistent.
   Statements only; every proof is [exact <lemma of Proofs/Name*P.v>].
   An abstract name is the list [ls] of its non-root labels (octet strings); [name_of ls] is the value
   the Rust code holds for it (label offsets + uncompressed wire form, Spec/NameRepr.v);
   [wire_len ls <= 255] is RFC 1035's length limit.  The model functions are those of
   Model/NameText.v; the right-hand sides are the list-level definitions of Spec/NameTextS.v. *)
From QV Require Import Base.ListX Model.NameWire Model.NameText Spec.NameWireS Spec.NameRepr Spec.NameTextS
  Proofs.NameLabelsP Proofs.NameCmpP.

(* labels() / Index<usize> of a well-formed name yield its labels followed by the root label, without panic *)
Theorem c16_labels : forall ls, wire_len ls <= 255 -> labels (name_of ls) = Ok (ls ++ [[]]).
Proof. exact labels_name_of. Qed.

Theorem c16_label_index : forall ls i, wire_len ls <= 255 ->
  label_at (name_of ls) i = match nth_error (ls ++ [[]]) i with Some l => Ok l | None => Panic end.
Proof. exact label_index_spec. Qed.

(* Equality ignores ASCII case and nothing else. *)
Theorem c16_eq : forall a b, wire_len a <= 255 -> wire_len b <= 255 ->
  exists r, name_eq (name_of a) (name_of b) = Ok r /\ (r = true <-> map (map lower) a = map (map lower) b).
Proof. exact name_eq_spec. Qed.

(* Equal names feed identical octet streams to the Hasher ... *)
Theorem c16_hash : forall a b, wire_len a <= 255 -> wire_len b <= 255 ->
  map (map lower) a = map (map lower) b ->
  name_hash_stream (name_of a) = name_hash_stream (name_of b).
Proof. exact name_hash_eq. Qed.

(* ... and unequal names different streams (the stream is an injective encoding of the lower-cased labels). *)
Theorem c16_hash_inj : forall a b, wire_len a <= 255 -> wire_len b <= 255 ->
  Forall (fun l => length l <= 63) a -> Forall (fun l => length l <= 63) b ->
  name_hash_stream (name_of a) = name_hash_stream (name_of b) -> map (map lower) a = map (map lower) b.
Proof. exact name_hash_inj. Qed.

(* Ord is RFC 4034 §6.1 canonical order: lexicographic on the reversed list of lower-cased labels,
   each label compared lexicographically as octets, a proper prefix sorting first. *)
Theorem c16_order_rfc4034 : forall a b, wire_len a <= 255 -> wire_len b <= 255 ->
  name_cmp (name_of a) (name_of b) =
  Ok (lex_cmp (lex_cmp N.compare) (rev (map (map lower) a)) (rev (map (map lower) b))).
Proof. exact name_cmp_spec. Qed.

(* That order is total, antisymmetric and transitive, and its equivalence is equality up to case. *)
Theorem c16_order_total : forall a b c,
  (spec_cmp a b = Eq <-> map (map lower) a = map (map lower) b) /\
  spec_cmp b a = CompOpp (spec_cmp a b) /\
  (spec_cmp a b = Lt -> spec_cmp b c = Lt -> spec_cmp a c = Lt).
Proof. exact (fun a b c => conj (spec_cmp_eq a b) (conj (spec_cmp_opp a b) (spec_cmp_trans a b c))). Qed.

Theorem c16_order_eq_consistent : forall a b, wire_len a <= 255 -> wire_len b <= 255 ->
  (name_cmp (name_of a) (name_of b) = Ok Eq <-> name_eq (name_of a) (name_of b) = Ok true).
Proof. exact name_cmp_eq_consistent. Qed.

(* eq_or_subdomain_of: the other name's labels are, up to case, the last labels of this one. *)
Theorem c16_subdomain : forall a b, wire_len a <= 255 -> wire_len b <= 255 ->
  exists r, eq_or_subdomain_of (name_of a) (name_of b) = Ok r /\
            (r = true <-> exists pre, map (map lower) a = pre ++ map (map lower) b).
Proof. exact eq_or_subdomain_spec. Qed.

Theorem c16_is_root : forall ls, is_root (name_of ls) = match ls with [] => true | _ => false end.
Proof. exact is_root_spec. Qed.

Print Assumptions c16_labels.
Print Assumptions c16_label_index.
Print Assumptions c16_eq.
Print Assumptions c16_hash.
Print Assumptions c16_hash_inj.
Print Assumptions c16_order_rfc4034.
Print Assumptions c16_order_total.
Print Assumptions c16_order_eq_consistent.
Print Assumptions c16_subdomain.
Print Assumptions c16_is_root.
