(* C16 — domain name text form, equality and ordering are consistent.
   Statements only; every proof is [exact <lemma of Proofs/Name*P.v>].
   An abstract name is the list [ls] of its non-root labels (octet strings); [name_of ls] is the value
   the Rust code holds for it (label offsets + uncompressed wire form, Spec/NameRepr.v);
   [wire_len ls <= 255] is RFC 1035's length limit.  The model functions are those of
   Model/NameText.v; the right-hand sides are the list-level definitions of Spec/NameTextS.v. *)
From QV Require Import Base.ListX Model.NameWire Model.NameText Spec.NameWireS Spec.NameRepr Spec.NameTextS
  Proofs.NameLabelsP Proofs.NameCmpP Proofs.NameTextP Proofs.NameMoreP Proofs.NameSuffixP Proofs.NameOracleP
  Model.ZfStd.

(* labels() / Index<usize> of a well-formed name yield its labels followed by the root label, without panic *)
Theorem c16_labels : forall ls, wire_len ls <= 255 -> labels (name_of ls) = Ok (ls ++ [[]]).
Proof. exact labels_name_of. Qed.

Theorem c16_label_index : forall ls i, wire_len ls <= 255 ->
  label_at (name_of ls) i = match nth_error (ls ++ [[]]) i with Some l => Ok l | None => Panic end.
Proof. exact label_index_spec. Qed.

(* Equality ignores ASCII case and nothing else. *)
Theorem c16_eq : forall a b, wire_len a <= 255 -> wire_len b <= 255 ->
  exists r, name_eq (name_of a) (name_of b) = Ok r /\ (r = true <-> map (map lower) a = map (map lower) b).
Proof. exact name_eq_spec. Qed.

(* Equal names feed identical octet streams to the Hasher ... *)
Theorem c16_hash : forall a b, wire_len a <= 255 -> wire_len b <= 255 ->
  map (map lower) a = map (map lower) b ->
  name_hash_stream (name_of a) = name_hash_stream (name_of b).
Proof. exact name_hash_eq. Qed.

(* ... and unequal names different streams (the stream is an injective encoding of the lower-cased labels). *)
Theorem c16_hash_inj : forall a b, wire_len a <= 255 -> wire_len b <= 255 ->
  Forall (fun l => length l <= 63) a -> Forall (fun l => length l <= 63) b ->
  name_hash_stream (name_of a) = name_hash_stream (name_of b) -> map (map lower) a = map (map lower) b.
Proof. exact name_hash_inj. Qed.

(* Ord is RFC 4034 §6.1 canonical order: lexicographic on the reversed list of lower-cased labels,
   each label compared lexicographically as octets, a proper prefix sorting first. *)
Theorem c16_order_rfc4034 : forall a b, wire_len a <= 255 -> wire_len b <= 255 ->
  name_cmp (name_of a) (name_of b) =
  Ok (lex_cmp (lex_cmp N.compare) (rev (map (map lower) a)) (rev (map (map lower) b))).
Proof. exact name_cmp_spec. Qed.

(* That order is total, antisymmetric and transitive, and its equivalence is equality up to case. *)
Theorem c16_order_total : forall a b c,
  (spec_cmp a b = Eq <-> map (map lower) a = map (map lower) b) /\
  spec_cmp b a = CompOpp (spec_cmp a b) /\
  (spec_cmp a b = Lt -> spec_cmp b c = Lt -> spec_cmp a c = Lt).
Proof. exact (fun a b c => conj (spec_cmp_eq a b) (conj (spec_cmp_opp a b) (spec_cmp_trans a b c))). Qed.

Theorem c16_order_eq_consistent : forall a b, wire_len a <= 255 -> wire_len b <= 255 ->
  (name_cmp (name_of a) (name_of b) = Ok Eq <-> name_eq (name_of a) (name_of b) = Ok true).
Proof. exact name_cmp_eq_consistent. Qed.

(* eq_or_subdomain_of: the other name's labels are, up to case, the last labels of this one. *)
Theorem c16_subdomain : forall a b, wire_len a <= 255 -> wire_len b <= 255 ->
  exists r, eq_or_subdomain_of (name_of a) (name_of b) = Ok r /\
            (r = true <-> exists pre, map (map lower) a = pre ++ map (map lower) b).
Proof. exact eq_or_subdomain_spec. Qed.

Theorem c16_is_root : forall ls, is_root (name_of ls) = match ls with [] => true | _ => false end.
Proof. exact is_root_spec. Qed.

(* superdomain(skip): the name without its first [skip] labels, for skip up to the number of labels (the
   root label can be reached, nothing beyond); the u8 offset arithmetic never panics. *)
Theorem c16_superdomain : forall ls skip,
  Forall (fun l : list N => 1 <= length l <= 63) ls -> wire_len ls <= 255 ->
  superdomain (name_of ls) skip =
  Ok (if skip <=? length ls then Some (name_of (skipn skip ls)) else None).
Proof.
  intros ls skip Hf Hl. rewrite (superdomain_spec ls skip Hf Hl). unfold spec_superdomain.
  unfold label, bytes. destruct (skip <=? length ls); reflexivity.
Qed.

(* make_ascii_lowercase (and Box<LowercaseName>::from) lower-cases every label octet and nothing else. *)
Theorem c16_lowercase : forall ls, wire_len ls <= 255 ->
  make_ascii_lowercase (name_of ls) = Ok (name_of (map (map lower) ls)) /\
  lowercase_name_from (name_of ls) = Ok (name_of (map (map lower) ls)).
Proof. exact (fun ls H => conj (make_ascii_lowercase_spec ls H) (make_ascii_lowercase_spec ls H)). Qed.

Theorem c16_lowercase_idempotent : forall ls,
  spec_lowercase (spec_lowercase ls) = spec_lowercase ls /\ wire_len (spec_lowercase ls) = wire_len ls.
Proof. exact (fun ls => conj (lowercase_idempotent ls) (lowercase_wire_len ls)). Qed.

Theorem c16_is_wildcard : forall ls, wire_len ls <= 255 ->
  is_wildcard (name_of ls) = Ok (match ls with l :: _ => eq_nocase l [42%N] | [] => false end).
Proof. exact is_wildcard_spec. Qed.

(* ---- text form ---------------------------------------------------------------------------------------- *)

(* FromStr accepts EXACTLY the (ASCII) texts that denote, under the declarative unescape-and-split relation
   [text_denotes] (RFC 1035 §5.1 / RFC 4343 §2.1), an absolute name whose labels have 1..63 octets and whose
   wire form has at most 255 octets — and returns that name's representation. *)
Theorem c16_text_accepts : forall s n, is_ascii_text s ->
  (name_from_str s = Ok n <-> exists ls, text_denotes s ls /\ wf_name ls /\ n = name_of ls).
Proof. exact name_from_str_iff. Qed.

(* Display of a well-formed name: "." for the root, otherwise every label rendered (with "\.", "\\", "\DDD"
   escapes) and followed by a dot; no panic. *)
Theorem c16_display : forall ls, wire_len ls <= 255 ->
  name_to_text (name_of ls) =
  Ok (match ls with [] => [46%N] | _ => flat_map (fun l => label_to_text l ++ [46%N]) ls end).
Proof. exact name_to_text_spec. Qed.

(* Rendering any well-formed name gives ASCII text that denotes the name, and parsing it back gives the
   identical value (label offsets and wire form). *)
Theorem c16_text_roundtrip : forall ls, wf_name ls ->
  exists t, name_to_text (name_of ls) = Ok t /\ is_ascii_text t /\ text_denotes t ls /\
            name_from_str t = Ok (name_of ls).
Proof. exact text_roundtrip. Qed.

(* ---- NameBuilder (try_push, next_label, finish) --------------------------------------------------------
   [brepr b (ds, cur)]: builder b holds the finished labels ds and the partial label cur (Proofs/NameTextP.v);
   [astep] is the abstract step: an octet is appended iff the label stays <= 63 and the wire form <= 255,
   a label is closed iff it is non-empty and there is room for the next length octet.  Every operation either
   succeeds with the builder representing the stepped state (limits [ast_ok] preserved) or returns an error
   (the caller's builder value is untouched); it never panics.  (The name _partial dates from when
   finish_with_suffix had no theorem; it now has one, c16_builder_finish_with_suffix below, and
   c16_builder_step is this same statement under its final name.) *)
Theorem c16_builder_partial : forall b st t, brepr b st -> ast_ok st ->
  match astep st t with
  | Some st' => exists b', feed1 b t = Ok b' /\ brepr b' st' /\ ast_ok st'
  | None => exists e, feed1 b t = Err e
  end.
Proof. exact feed1_step. Qed.

(* try_push_slice: LabelTooLong iff the label would exceed 63, else NameTooLong iff the wire form would exceed
   255, else the whole slice is appended to the current label. *)
Theorem c16_builder_push_slice : forall b st (o : list N), brepr b st -> ast_ok st ->
  (63 < length (snd st) + length o -> try_push_slice b o = Err LabelTooLong) /\
  (length (snd st) + length o <= 63 -> 255 < awire st + length o -> try_push_slice b o = Err NameTooLong) /\
  (length (snd st) + length o <= 63 -> awire st + length o <= 255 ->
   exists b', try_push_slice b o = Ok b' /\ brepr b' (fst st, snd st ++ o) /\ ast_ok (fst st, snd st ++ o)).
Proof. exact try_push_slice_spec. Qed.

Theorem c16_builder_finish : forall b st, brepr b st -> ast_ok st ->
  finish b = (if is_nil (snd st) then Ok (name_of (fst st)) else Err NonNullTerminal) /\
  (snd st = [] -> Forall (fun l : list N => 1 <= length l <= 63) (fst st) /\ wire_len (fst st) <= 255).
Proof. exact builder_finish. Qed.

Theorem c16_builder_step : forall b st t, brepr b st -> ast_ok st ->
  match astep st t with
  | Some st' => exists b', feed1 b t = Ok b' /\ brepr b' st' /\ ast_ok st'
  | None => exists e, feed1 b t = Err e
  end.
Proof. exact feed1_step. Qed.

(* finish_with_suffix (used by the zone-file parser for names relative to the origin): with finished
   labels ds, current label cur and a well-formed suffix name: NullNonTerminal iff cur is empty; otherwise
   NameTooLong iff ds ++ [cur] ++ suffix exceeds 255 octets on the wire; otherwise exactly the value
   representing ds ++ [cur] ++ suffix (label offsets and wire form).  Never a panic: once the octets fit,
   neither the `u8` additions on the label offsets nor the ArrayVec pushes can fail. *)
Theorem c16_builder_finish_with_suffix : forall b (ds : list (list N)) (cur : list N) (suf : list (list N)),
  brepr b (ds, cur) -> ast_ok (ds, cur) ->
  Forall (fun l : list N => 1 <= length l <= 63) suf -> wire_len suf <= 255 ->
  finish_with_suffix b (name_of suf) =
    if is_nil cur then Err NullNonTerminal
    else if wire_len (ds ++ cur :: suf) <=? 255 then Ok (name_of (ds ++ cur :: suf))
    else Err NameTooLong.
Proof. exact finish_with_suffix_spec. Qed.

(* ---- the executable oracle IS the specification; non-ASCII text ------------------------------------------
   [spec_of_text] (tokenize, split at the dots, RFC 1035 limits; Spec/NameTextS.v) is the function the check
   evaluates on every generated text.  It returns Some ls exactly when the text is ASCII, denotes ls under the
   declarative relation and ls is a well-formed name; and FromStr agrees with it on every ASCII text. *)
Theorem c16_oracle_is_spec : forall s ls,
  spec_of_text s = Some ls <-> is_ascii_text s /\ text_denotes s ls /\ wf_name ls.
Proof. exact spec_of_text_iff. Qed.

Theorem c16_text_is_oracle : forall s n, is_ascii_text s ->
  (name_from_str s = Ok n <-> exists ls, spec_of_text s = Some ls /\ n = name_of ls).
Proof. exact name_from_str_oracle. Qed.

(* A Rust &str is valid UTF-8 ([utf8_valid], the model of str::from_utf8's acceptance used by C24).  If it
   contains a non-ASCII character, FromStr returns an error (StrNotAscii, or an earlier error of the text
   before it) — it never accepts and never panics, also when a backslash precedes the character (the escape
   takes the first octet of its encoding, the continuation octet that follows is then refused).  Together
   with c16_text_accepts: FromStr accepts EXACTLY the ASCII texts that denote a well-formed name. *)
Theorem c16_text_rejects_non_ascii : forall s,
  utf8_valid s = true -> ~ is_ascii_text s -> exists e, name_from_str s = Err e.
Proof. exact name_from_str_rejects_non_ascii. Qed.

(* Non-vacuity. *)
Example c16_example :
  let ls := [[119; 46; 65]; [0; 92]]%N in
  wf_name ls /\
  name_to_text (name_of ls) = Ok [119; 92; 46; 65; 46; 92; 48; 48; 48; 92; 92; 46]%N /\
  name_from_str [119; 92; 46; 65; 46; 92; 48; 48; 48; 92; 92; 46]%N = Ok (name_of ls) /\
  name_cmp (name_of ls) (name_of [[119; 46; 97]; [0; 92]]%N) = Ok Eq /\
  name_from_str [97; 46; 46]%N = Err NullNonTerminal /\ name_from_str [97]%N = Err NonNullTerminal /\
  brepr builder_new ([], []) /\ ast_ok ([], []).
Proof.
  cbv zeta. split.
  - split; [|vm_compute; lia]. repeat constructor; cbn; try lia.
  - repeat split; try (vm_compute; reflexivity); try constructor; try (vm_compute; lia).
Qed.

Example c16_example_suffix :
  (let b := mkB [0; 97]%N [0%N] 0 1%N in
   brepr b ([], [97%N]) /\ ast_ok ([], [97%N]) /\
   finish_with_suffix b (name_of [[98; 99]%N]) = Ok (name_of [[97]; [98; 99]]%N) /\
   finish_with_suffix builder_new (name_of [[98; 99]%N]) = Err NullNonTerminal) /\
  spec_of_text [97; 92; 46; 98; 46; 99; 46]%N = Some [[97; 46; 98]; [99]]%N /\
  spec_of_text [97; 46; 46]%N = None /\
  utf8_valid [92; 195; 169; 46]%N = true /\ name_from_str [92; 195; 169; 46]%N = Err StrNotAscii.
Proof.
  split; [|repeat split; vm_compute; reflexivity]. cbv zeta. split; [|split; [|split]].
  - repeat split.
  - repeat split; try constructor; vm_compute; lia.
  - vm_compute. reflexivity.
  - vm_compute. reflexivity.
Qed.

Print Assumptions c16_labels.
Print Assumptions c16_label_index.
Print Assumptions c16_eq.
Print Assumptions c16_hash.
Print Assumptions c16_hash_inj.
Print Assumptions c16_order_rfc4034.
Print Assumptions c16_order_total.
Print Assumptions c16_order_eq_consistent.
Print Assumptions c16_subdomain.
Print Assumptions c16_is_root.
Print Assumptions c16_text_accepts.
Print Assumptions c16_display.
Print Assumptions c16_text_roundtrip.
Print Assumptions c16_builder_partial.
Print Assumptions c16_builder_finish.
Print Assumptions c16_superdomain.
Print Assumptions c16_lowercase.
Print Assumptions c16_lowercase_idempotent.
Print Assumptions c16_is_wildcard.
Print Assumptions c16_builder_push_slice.
Print Assumptions c16_builder_step.
Print Assumptions c16_builder_finish_with_suffix.
Print Assumptions c16_oracle_is_spec.
Print Assumptions c16_text_is_oracle.
Print Assumptions c16_text_rejects_non_ascii.
