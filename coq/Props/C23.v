(* C23 — zone files parse to exactly the records they describe.
   Spec/ZfRenderS.v is an independent renderer: abstract lines (records, $ORIGIN, $TTL, blank/comment lines)
   plus a `choices` value per line fixing the presentation completely ($INCLUDE lines too: they are reported); [file_ok] says when the choices are
   legal, [render] gives the octets, [number_lines] the denoted records with their line numbers.
   The theorems go bottom-up (tokens, field navigation, one line, whole files); every proof is
   [exact <lemma>].  [runs T m s b b' v] (Proofs/ZfRunP.v) reads: on ANY reader state whose unconsumed input
   is s ++ t with T t, parenthesis state b, the parser action m returns v, consumes exactly s, ends in
   parenthesis state b' and has advanced the line counter by the number of LF octets in s.
   Not covered by the renderer (docs/C23.md): the embedded-IPv4 form of IPv6 text, a raw CR inside an unquoted
   token.  WKS bit order: known finding C23-1, see below. *)
From QV Require Import Base.ListX Model.NameWire Spec.NameRepr Model.ZfStd Model.ZfReader Model.ZfParser Model.ZfRecOnly
  Spec.ZfValidS Spec.ZfRenderS Proofs.ZfReaderP Proofs.ZfFieldsP Proofs.ZfRunP Proofs.ZfTokP Proofs.ZfNameRP Proofs.ZfSymP
  Proofs.ZfAddrP Proofs.ZfRecRP Proofs.ZfLineRP.

Local Open Scope N_scope.

(* The specification is parametric in the numbering of the bits of a WKS bit map ([BitOrder]).  Everything below
   is stated against the RFC's numbering (RFC 1035 3.4.2 with 2.3.2: port 25 is the bit 0x40 of the fourth octet)
   unless [impl_order] is written out.  KNOWN FINDING C23-1: the implementation numbers the bits from the least
   significant one, so the theorems about RDATA, lines and files exclude the class [wks_listed] / [wks_free]:
   WKS records written in the WKS syntax that list at least one port (WKS in the \# form, and WKS without
   ports, are inside the theorems); c23_wks_bit_order_refuted is the witness, c23_file_roundtrip_impl_order shows
   that nothing else hides behind the exclusion. *)
#[local] Existing Instance rfc_order.

(* ---- the reading order of TTL / CLASS / TYPE is unambiguous (RFC 1035 section 5.1) --------------------------------- *)

(* no token is both a TTL and a CLASS or a TYPE, and no token is both a CLASS and a TYPE — for the mnemonic
   tables as they are in the source (regenerated on every run) *)
Theorem c23_fields_disjoint : forall s,
  (forall v, parse_uint U32_MAX s = inl v ->
     (forall c, class_from_str s <> inl c) /\ (forall t, type_from_str s <> inl t)) /\
  (forall c, class_from_str s = inl c -> forall t, type_from_str s <> inl t).
Proof. exact fields_disjoint. Qed.

(* ---- stage 1: tokens --------------------------------------------------------------------------------------------------- *)

(* \c and \DDD: after the backslash, parse_escape gives the octet back *)
Theorem c23_escape : forall k e c b, e <> ERaw -> esc_ok k e c = true ->
  runs anyt parse_escape (tl (render_octet e c)) b b c.
Proof. exact escape_runs. Qed.

(* <character-string>, quoted or not, every octet raw / \c / \DDD as chosen: the string comes back; after a
   closing quote anything may follow, an unquoted string must be followed by a field end *)
Theorem c23_character_string : forall first sc s b, string_ok first sc s = true ->
  runs (ftail (string_closed sc)) parse_character_string (render_string sc s) b b s.
Proof. exact string_runs. Qed.

(* <domain-name>: absolute with any escapes, relative to the origin, "@", "." — the value is the
   representation of the label list *)
Theorem c23_name : forall first bol origin nc ls b, name_ok first bol origin nc ls = true -> origin_good origin ->
  runs fend (parse_name (option_map name_of origin)) (render_name nc ls) b b (name_of ls).
Proof. exact name_runs. Qed.

(* u8/u16/u32 in decimal with an optional '+' and leading zeros *)
Theorem c23_uint : forall max ic n, uint_ok max ic n = true -> parse_uint max (render_uint ic n) = inl n.
Proof. exact uint_roundtrip. Qed.

(* CLASS and TYPE: mnemonics in any letter case, CLASSnnn / TYPEnnn *)
Theorem c23_class : forall sc v, sym_ok spec_classes sc v = true -> class_from_str (render_class sc v) = inl v.
Proof. exact class_roundtrip. Qed.
Theorem c23_type : forall sc v, sym_ok spec_types sc v = true -> type_from_str (render_type sc v) = inl v.
Proof. exact type_roundtrip. Qed.

(* A and AAAA text through the models of Ipv4Addr::from_str / Ipv6Addr::from_str; the AAAA renderer writes eight
   groups (dropped leading zeros and letter case per group), any one run of zero groups possibly as "::" *)
Theorem c23_ipv4 : forall a b c d, ip4_ok a b c d = true -> ipv4_from_str (render_ip4 a b c d) = Some [a; b; c; d].
Proof. exact ipv4_roundtrip. Qed.
Theorem c23_ipv6 : forall c gs, ip6_ok c gs = true -> ipv6_from_str (render_ip6 c gs) = Some (flat_map sbe16 gs).
Proof. exact ipv6_roundtrip. Qed.

(* ---- stage 2: field navigation ----------------------------------------------------------------------------------------------- *)

(* over any legal separator (blanks, tabs, parentheses, and inside them comments and LF / CRLF line breaks)
   skip_to_next_field lands exactly on the first octet of the next field, with the right parenthesis state
   and line count *)
Theorem c23_navigation : forall k s p p', sep_paren p s = Some p' ->
  runs fstart (skip_to_next_field k) (render_sep s) p p' tt.
Proof. exact skip_to_next_field_runs. Qed.

(* ... and expect_eol consumes a legal line end (separator closing the parentheses, comment, LF / CRLF / EOF) *)
Theorem c23_line_end : forall e p, eol_ok p e = true ->
  runs (eoft (e_term e)) expect_eol (render_eol e) p false tt.
Proof. exact expect_eol_runs. Qed.

(* ---- stage 3: RDATA and one record line ------------------------------------------------------------------------------------------- *)

(* parse_rdata on the rendered RDATA of every type with a syntax of its own (NS MD MF CNAME MB MG MR PTR,
   A, CH A, SOA, WKS, HINFO, MINFO, MX, TXT, AAAA, SRV — all the parser has) in that syntax or in the RFC 3597
   \# form, and of every other type in the \# form (hexadecimal data split into words at will) *)
Theorem c23_rdata : forall x class type dc d e p p3, sctx_good x -> wks_listed dc d = false ->
  rdata_ok (x_origin x) p class type dc d = Some p3 -> eol_ok p3 e = true ->
  runs (eoft (e_term e)) (parse_rdata (ctx_of x) class type) (render_rdata dc d ++ render_eol e) p false (rdata_wire d).
Proof. exact rdata_runs_rfc. Qed.

(* a record line, whatever the owner form (absolute, relative, @, omitted), TTL / class presence and order,
   separators, comments, parentheses: the parser yields the record with the number of the line it starts on
   and updates previous owner / TTL / class *)
Theorem c23_record_line : forall x rc r t rd0, wks_listed (rc_rdata rc) (a_rdata r) = false -> sctx_good x -> record_ok x rc r = true ->
  r_rest rd0 = render_record rc r ++ t -> r_paren rd0 = false -> wfr rd0 -> eoft (e_term (rc_end rc)) t ->
  exists rd1, parse_line (ctx_of x) rd0 = Ok ((Some (item_of (p_line (r_pos rd0)) r), ctx_of (after_record x r)), rd1) /\
              post rd0 rd1 (render_record rc r) t false.
Proof. exact record_line_parses_rfc. Qed.

(* any line: records, blank / comment lines, $ORIGIN, $TTL, $INCLUDE file [origin] (directive names in any
   letter case, file names quoted or not with any escapes): what is yielded ([line_item]: the record, or the
   $INCLUDE with the origin to use) and the new context *)
Theorem c23_line : forall x l t rd0, line_wks_listed l = false -> sctx_good x -> line_ok x l = true ->
  r_rest rd0 = render_line l ++ t -> r_paren rd0 = false -> wfr rd0 -> eoft (e_term (line_end l)) t ->
  exists rd1, parse_line (ctx_of x) rd0 =
                Ok ((option_map (line_of (p_line (r_pos rd0))) (line_item x l), ctx_of (after_line x l)), rd1) /\
              post rd0 rd1 (render_line l) t false.
Proof. exact line_parses_rfc. Qed.

(* ---- stage 4: whole files ----------------------------------------------------------------------------------------------------------- *)

(* every rendered file parses to exactly the records (and $INCLUDE directives) it denotes, in order, each with
   the number of the line it starts on (1 + the LF octets before it), and to nothing else (no error item) *)
Theorem c23_file_roundtrip : forall ls, wks_free ls = true -> file_ok sctx0 ls = true ->
  exists p, parse_all (render ls) = Ok (items_of (number_lines ls), p).
Proof. exact file_roundtrip_rfc. Qed.

(* with the implementation's numbering of the WKS bits in the specification, the same holds for EVERY legal
   file: the bit order is the only thing the exclusion above hides *)
Theorem c23_file_roundtrip_impl_order : forall ls, @file_ok impl_order sctx0 ls = true ->
  exists p, parse_all (@render impl_order ls) = Ok (@items_of impl_order (@number_lines impl_order ls), p).
Proof. exact file_roundtrip_impl. Qed.

(* KNOWN FINDING C23-1, the witness: ". 1 IN WKS 1.2.3.4 6 25" is a legal file, denotes the bit map 00 00 00 40,
   and is parsed to the bit map 00 00 00 02 *)
Theorem c23_wks_bit_order_refuted :
  file_ok sctx0 wks_witness = true /\
  render wks_witness = [46;32;49;32;73;78;32;87;75;83;32;49;46;50;46;51;46;52;32;54;32;50;53;10] /\
  (exists r, number_lines wks_witness = [(1, IRecord r)] /\ rdata_wire (a_rdata r) = [1;2;3;4;6;0;0;0;64]) /\
  (exists r p, parse_all (render wks_witness) = Ok ([inl (mkLine 1 (CRecord r))], p) /\ rr_rdata r = [1;2;3;4;6;0;0;0;2]) /\
  (forall p, parse_all (render wks_witness) <> Ok (items_of (number_lines wks_witness), p)).
Proof. exact wks_bit_order_refuted. Qed.

(* the same through Parser::records_only(), the iterator the zone loader consumes (model: Model/ZfRecOnly.v, C24):
   a rendered file without $INCLUDE lines yields exactly its records *)
Theorem c23_file_roundtrip_records_only : forall ls, wks_free ls = true -> file_ok sctx0 ls = true -> no_include ls ->
  exists p, ro_all (render ls) = Ok (records_of (number_lines ls), p).
Proof. exact file_roundtrip_records_only_rfc. Qed.

(* ---- non-vacuity ----------------------------------------------------------------------------------------------------------------------- *)

Definition sp : sep := mkSep [] [32].
Definition eol_lf : eolc := mkEol sep_none (TNl false).
Definition raws : list esc := repeat ERaw 12.
Definition l_example : label := [101;120;97;109;112;108;101].
Definition l_ns : label := [110;115].
Definition l_host : label := [104;111;115;116;109;97;115;116;101;114].
Definition l_www : label := [119;119;119].

(* $ORIGIN example.
   $ttl<TAB>3600 ; d
   @ IN SOA ns hostmaster ( 1
    7200 +3600 ; c
    01209600 300 )
    txt "a b"x\059y
   ; x
   www 300 iN A 192.0.2.1<CRLF>
   $iNCLUDE <quote>a\<quote>b<quote> ns
   www.ex\097mple. CLASS1 tYPE99 \# 3 0102 ab<end of file> *)
Definition ex_lines : list aline :=
  [ LOrigin [] sp (NAbs [raws]) [l_example] eol_lf;
    LTtl [false; true; true; true] (mkSep [] [9]) i_plain 3600 (mkEol sp (TComment [32;100] false));
    LRecord (mkRc sep_none (Some (NAt, sp)) (TcC (SymMnemonic []) sp) (SymMnemonic [])
               (DFields [(sp, CName (NRel 1 [raws])); (sp, CName (NRel 1 [raws]));
                         (mkSep [([32], SOpen)] [32], CInt i_plain);
                         (mkSep [([32], SNl false)] [32], CInt i_plain); (sp, CInt (mkI true 0));
                         (mkSep [([32], SComment [32;99] false)] [32], CInt (mkI false 1)); (sp, CInt i_plain)])
               (mkEol (mkSep [([32], SClose)] []) (TNl false)))
            (mkArec [l_example] 3600 1 6
               (AFields [VName [l_ns; l_example]; VName [l_host; l_example]; VU32 1; VU32 7200; VU32 3600; VU32 1209600; VU32 300]));
    LRecord (mkRc sp None TcNone (SymMnemonic [true; true; true])
               (DFields [(sp, CStr (SQuoted [ERaw; ERaw; ERaw])); (sep_none, CStr (SUnquoted [ERaw; EDec; ERaw]))])
               eol_lf)
            (mkArec [l_example] 3600 1 16 (AFields [VStr [97;32;98]; VStr [120;59;121]]));
    LBlank (mkEol sep_none (TComment [32;120] false));
    LRecord (mkRc sep_none (Some (NRel 1 [raws], sp)) (TcTC 300 i_plain sp (SymMnemonic [true]) sp) (SymMnemonic [])
               (DFields [(sp, CPlain)]) (mkEol sep_none (TNl true)))
            (mkArec [l_www; l_example] 300 1 1 (AFields [VIp4 192 0 2 1]));
    LInclude [true; true] sp (SQuoted [ERaw; EChar; ERaw]) [97; 34; 98] (Some (sp, NRel 1 [raws], [l_ns; l_example])) eol_lf;
    LRecord (mkRc sep_none (Some (NAbs [raws; [ERaw; ERaw; EDec; ERaw; ERaw; ERaw; ERaw]], sp)) (TcC (SymNumeric [] i_plain) sp) (SymNumeric [true] i_plain)
               (DGeneric sp sp i_plain [(Some sp, false, true); (None, false, false); (Some sp, false, false)])
               (mkEol sep_none TEof))
            (mkArec [l_www; l_example] 3600 1 99 (AGeneric [1; 2; 171])) ].

Example c23_example_ok : file_ok sctx0 ex_lines = true.
Proof. vm_compute. reflexivity. Qed.

Example c23_example_text : render ex_lines =
  [36;79;82;73;71;73;78;32;101;120;97;109;112;108;101;46;10;
   36;116;116;108;9;51;54;48;48;32;59;32;100;10;
   64;32;73;78;32;83;79;65;32;110;115;32;104;111;115;116;109;97;115;116;101;114;32;40;32;49;32;10;
   32;55;50;48;48;32;43;51;54;48;48;32;59;32;99;10;
   32;48;49;50;48;57;54;48;48;32;51;48;48;32;41;10;
   32;116;120;116;32;34;97;32;98;34;120;92;48;53;57;121;10;
   59;32;120;10;
   119;119;119;32;51;48;48;32;105;78;32;65;32;49;57;50;46;48;46;50;46;49;13;10;
   36;105;78;67;76;85;68;69;32;34;97;92;34;98;34;32;110;115;10;
   119;119;119;46;101;120;92;48;57;55;109;112;108;101;46;32;67;76;65;83;83;49;32;116;89;80;69;57;57;32;92;35;32;51;32;48;49;48;50;32;97;98].
Proof. vm_compute. reflexivity. Qed.

Example c23_example_lines : map fst (number_lines ex_lines) = [3; 6; 8; 9; 10].
Proof. vm_compute. reflexivity. Qed.

Example c23_example_wks_free : wks_free ex_lines = true.
Proof. vm_compute. reflexivity. Qed.

(* the instance of the file theorem: records at lines 3, 6, 8 and 10, an $INCLUDE at line 9 *)
Example c23_example_parse : exists p, parse_all (render ex_lines) = Ok (items_of (number_lines ex_lines), p).
Proof. exact (c23_file_roundtrip ex_lines c23_example_wks_free c23_example_ok). Qed.

Print Assumptions c23_fields_disjoint.
Print Assumptions c23_escape.
Print Assumptions c23_character_string.
Print Assumptions c23_name.
Print Assumptions c23_uint.
Print Assumptions c23_class.
Print Assumptions c23_type.
Print Assumptions c23_ipv4.
Print Assumptions c23_ipv6.
Print Assumptions c23_navigation.
Print Assumptions c23_line_end.
Print Assumptions c23_rdata.
Print Assumptions c23_record_line.
Print Assumptions c23_line.
Print Assumptions c23_file_roundtrip.
Print Assumptions c23_file_roundtrip_impl_order.
Print Assumptions c23_wks_bit_order_refuted.
Print Assumptions c23_file_roundtrip_records_only.
