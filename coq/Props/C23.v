(* C23 — zone files parse to exactly the records they describe: the PROVED part.
   The whole-line / whole-file theorem parse (render choices records) = records of DESIGN.md is
   not proved; checks/c23.py checks it differentially against an independent renderer (docs/C23.md). *)
From QV Require Import Model.ZfStd Proofs.ZfFieldsP.

(* The disjointness behind parse_ttl_and_class (RFC 1035 section 5.1): no token is both a TTL and a
   CLASS or a TYPE, and no token is both a CLASS and a TYPE — for the mnemonic tables as they are in
   the source (regenerated on every run), with case-sensitive or case-insensitive matching. Hence
   "try TTL, then CLASS, then TYPE" reads every field the only way it can be read. *)
Theorem c23_fields_partial : forall s,
  (forall v, parse_uint U32_MAX s = inl v ->
     (forall c, class_from_str s <> inl c) /\ (forall t, type_from_str s <> inl t)) /\
  (forall c, class_from_str s = inl c -> forall t, type_from_str s <> inl t).
Proof. exact fields_disjoint. Qed.

(* Non-vacuity: the three languages are inhabited. *)
Example c23_example :
  parse_uint U32_MAX [51; 54; 48; 48]%N = inl 3600%N /\
  class_from_str [73; 78]%N = inl 1%N /\ class_from_str [67; 76; 65; 83; 83; 52]%N = inl 4%N /\
  type_from_str [65; 65; 65; 65]%N = inl 28%N /\ type_from_str [84; 89; 80; 69; 57; 57]%N = inl 99%N.
Proof. vm_compute. repeat split. Qed.

Print Assumptions c23_fields_partial.
