#!/bin/bash
# run every registered check (quick tier by default) sequentially; one summary line per check
cd "$(dirname "$0")/.."
tier=${1:-quick}
for f in checks/c[0-9][0-9].py; do
  id=$(basename $f .py | tr a-z A-Z)
  out=$(./check $id --tier $tier 2>&1)
  rc=$?
  echo "$id rc=$rc $(echo "$out" | grep -E '^\[' | tail -1)"
  echo "$out" | grep -E "^(VIOLATION|KNOWN-FINDING)" | cut -c1-200
done
