#!/bin/bash
# usage: tools/goal.sh <file.v relative to coq/> <line>  -- show the proof state after <line>
cd /tmp/verif-sproof/coq
f=$1; n=$2
tmp=$(mktemp /tmp/goalXXXX.v)
head -n "$n" "$f" > "$tmp"
echo "Show." >> "$tmp"
coqc -Q . QV -w -notation-overridden "$tmp" 2>&1 | grep -v "^File\|Error: There are pending proofs\|^$" | head -${3:-60}
rm -f "$tmp" "${tmp%.v}.vo" "${tmp%.v}.glob" "${tmp%.v}.vok" "${tmp%.v}.vos" /tmp/.$(basename ${tmp%.v}).aux
