"""Shared machinery of the /verif checks (stdlib only).

A property check is a module checks/cNN.py defining a subclass-free config dict
CHECK (see checks/c14.py for the reference).  `run_check` does, on every run:

  1. regenerate coq/Gen/*.v from /repo's sources (tools/gen_consts.py);
  2. `make` the dependency cone of the property's Props/CNN.v (full .vo build),
     re-compile Props/CNN.v to capture `Print Assumptions`, audit the cone for
     forbidden vernacular, count obligations;
  3. rebuild the Rust harness binary against /repo's working tree (cargo, offline,
     RUSTFLAGS=--cfg quandary_verif) and the extracted OCaml model runner;
  4. generate cases from VERIF_SEED, run implementation and model side by side,
     diff (correspondence) and evaluate the extracted spec oracle on the
     implementation's outputs (property);
  5. classify disagreements against known_findings.jsonl, write the replay file,
     the evidence file, print VIOLATION / KNOWN-FINDING lines, exit 0/1.
"""
import argparse, concurrent.futures as cf, hashlib, importlib.util, json, os, random, re, shutil
import subprocess, sys, time

VERIF = os.path.dirname(os.path.dirname(os.path.abspath(__file__)))
REPO = os.environ.get("QV_REPO", "/repo")
BUILD = os.path.join(VERIF, ".build")
COQ = os.path.join(VERIF, "coq")
NPROC = int(os.environ.get("QV_JOBS", "16"))
GUARD = "quandary_verif"

FORBIDDEN = [
    r"\bAdmitted\b", r"\badmit\b", r"\bAxiom\b", r"\bAxioms\b", r"\bParameter\b", r"\bParameters\b",
    r"\bConjecture\b", r"\bUnset\s+Guard", r"\bbypass_check\b", r"\bAdmit\s+Obligations\b",
    r"type-in-type", r"impredicative-set", r"\bUnset\s+Positivity", r"\bUnset\s+Universe",
    r"\bnative_compute\b", r"\bUnset\s+Strict\s+Positivity",
]
# Axioms of the standard library that a property may rely on if (and only if) its
# check lists them in CHECK["allowed_axioms"]; anything else printed by
# Print Assumptions fails the check.
STDLIB_AXIOMS = {
    "functional_extensionality_dep", "proof_irrelevance", "Eqdep.Eq_rect_eq.eq_rect_eq",
    "JMeq_eq", "classic", "propositional_extensionality",
}


def log(msg):
    print(msg, flush=True)


def sh(cmd, timeout=None, cwd=None, env=None, input=None):
    """Run a command; returns (rc, stdout+stderr). rc=124 on timeout."""
    try:
        p = subprocess.run(cmd, cwd=cwd, env=env, input=input, stdout=subprocess.PIPE,
                           stderr=subprocess.STDOUT, timeout=timeout, text=True,
                           shell=isinstance(cmd, str))
        return p.returncode, p.stdout
    except subprocess.TimeoutExpired as e:
        out = e.stdout or ""
        if isinstance(out, bytes):
            out = out.decode("utf-8", "replace")
        return 124, out + "\n[timeout]"


# ----------------------------------------------------------------------------- Coq side

def strip_coq_comments(src):
    out, depth, i, n = [], 0, 0, len(src)
    in_str = False
    while i < n:
        if not in_str and src.startswith("(*", i):
            depth += 1; i += 2; continue
        if not in_str and depth and src.startswith("*)", i):
            depth -= 1; i += 2; continue
        c = src[i]
        if depth == 0:
            if c == '"':
                in_str = not in_str
            out.append(c)
        elif c == "\n":
            out.append(c)
        i += 1
    return "".join(out)


def coq_cone(v_rel):
    """All .v files (relative to coq/) that v_rel transitively Requires from QV."""
    seen, todo = [], [v_rel]
    while todo:
        f = todo.pop()
        if f in seen:
            continue
        seen.append(f)
        try:
            src = strip_coq_comments(open(os.path.join(COQ, f)).read())
        except OSError:
            continue
        for m in re.finditer(r"From\s+QV\s+Require\s+(?:Import\s+|Export\s+)?([\w.\s]+?)\.(?=\s|$)", src):
            for mod in m.group(1).split():
                todo.append(mod.replace(".", "/") + ".v")
    return sorted(seen)


PROOF_START = re.compile(r"^\s*(?:Local\s+|Global\s+|#\[[^\]]*\]\s*)*(Theorem|Lemma|Example|Corollary|Fact|Remark|Proposition)\s+([A-Za-z_][\w']*)", re.M)


def audit_files(files):
    """Forbidden vernacular, section-less Variable/Hypothesis, obligation counts."""
    problems, obligations, discharged = [], 0, 0
    for f in files:
        try:
            src = strip_coq_comments(open(os.path.join(COQ, f)).read())
        except OSError as e:
            problems.append(f"{f}: unreadable ({e})"); continue
        for pat in FORBIDDEN:
            for m in re.finditer(pat, src):
                line = src.count("\n", 0, m.start()) + 1
                problems.append(f"{f}:{line}: forbidden `{m.group(0)}`")
        depth = 0
        for ln, line in enumerate(src.split("\n"), 1):
            if re.match(r"\s*Section\s+\w+", line):
                depth += 1
            elif re.match(r"\s*End\s+\w+", line) and depth > 0:
                depth -= 1
            elif depth == 0 and re.match(r"\s*(Variable|Variables|Hypothesis|Hypotheses|Context)\b", line):
                problems.append(f"{f}:{ln}: `{line.strip().split()[0]}` outside a section")
        obligations += len(PROOF_START.findall(src))
        discharged += len(re.findall(r"\b(Qed|Defined)\s*\.", src))
    return problems, obligations, discharged


def coq_files():
    """Every .v of the development except the extraction scripts (which write .ml files)."""
    out = []
    for root, _, fs in os.walk(COQ):
        for f in fs:
            if f.endswith(".v"):
                rel = os.path.relpath(os.path.join(root, f), COQ)
                if not rel.startswith("Extract/"):
                    out.append(rel)
    return sorted(out)


def coq_make(targets, timeout):
    """Full .vo build (never -vos/-vok) of the given targets through coq_makefile.
    The Makefile is regenerated whenever the set of .v files changes; _CoqProject
    holds only the options."""
    files = coq_files()
    listing = "\n".join(files)
    lf = os.path.join(COQ, ".filelist")
    if not os.path.exists(os.path.join(COQ, "Makefile")) or not os.path.exists(lf) or open(lf).read() != listing:
        rc, out = sh(["coq_makefile", "-f", "_CoqProject", "-o", "Makefile"] + files, cwd=COQ, timeout=60)
        if rc != 0:
            return rc, out
        open(lf, "w").write(listing)
    return sh(["make", f"-j{NPROC}"] + targets, cwd=COQ, timeout=timeout)


def print_assumptions(props_rel, timeout=600):
    """Re-compile the Props file and parse the output of its Print Assumptions commands.
    Returns (ok, {theorem: [] | [axiom names]}, raw_output)."""
    src = strip_coq_comments(open(os.path.join(COQ, props_rel)).read())
    names = re.findall(r"Print\s+Assumptions\s+([\w']+)\s*\.", src)
    rc, out = sh(["coqc", "-q", "-Q", ".", "QV", "-w", "-notation-overridden", props_rel], cwd=COQ, timeout=timeout)
    if rc != 0:
        return False, {}, out
    blocks, cur = [], None
    for line in out.split("\n"):
        if line.startswith("Closed under the global context"):
            blocks.append([]); cur = None
        elif line.startswith("Axioms:"):
            cur = []; blocks.append(cur)
        elif cur is not None:
            m = re.match(r"^([A-Za-z_][\w.']*)\s*:", line)
            if m:
                cur.append(m.group(1))
            elif line.strip() == "":
                cur = None
    if len(blocks) != len(names):
        return False, {}, out + f"\n[expected {len(names)} Print Assumptions blocks, parsed {len(blocks)}]"
    return True, dict(zip(names, blocks)), out


def props_theorems(props_rel):
    src = strip_coq_comments(open(os.path.join(COQ, props_rel)).read())
    return [n for k, n in PROOF_START.findall(src) if k == "Theorem"]


def theorem_statement(props_rel, name):
    src = strip_coq_comments(open(os.path.join(COQ, props_rel)).read())
    m = re.search(r"Theorem\s+%s\b(.*?)\bProof\." % re.escape(name), src, re.S)
    return " ".join(m.group(1).split()) if m else None


# ----------------------------------------------------------------------------- builds

def file_hash(paths):
    h = hashlib.sha256()
    for p in sorted(paths):
        h.update(p.encode())
        try:
            h.update(open(p, "rb").read())
        except OSError:
            h.update(b"<missing>")
    return h.hexdigest()


def build_model_runner(prop, extract_rel, driver, cone_files, timeout=600):
    """Extract (Separate Extraction, ExtrOcamlBasic only) and compile ocaml/<driver>.
    Returns (ok, path_or_log)."""
    d = os.path.join(BUILD, "ocaml", prop.lower())
    exe = os.path.join(d, "run")
    srcs = [os.path.join(COQ, f) for f in cone_files] + [os.path.join(COQ, extract_rel),
            os.path.join(VERIF, "ocaml", "qvutil.ml"), os.path.join(VERIF, "ocaml", driver)]
    key = file_hash(srcs)
    stamp = os.path.join(d, "stamp")
    if os.path.exists(exe) and os.path.exists(stamp) and open(stamp).read() == key:
        return True, exe
    shutil.rmtree(d, ignore_errors=True)
    os.makedirs(d)
    # the extraction script may require files outside the cone of the property's Props file (shared runners)
    deps = [f[:-2] + ".vo" for f in cone_files if f != extract_rel and f.endswith(".v")]
    if deps:
        rc, out = coq_make(deps, max(timeout, 2400))
        if rc != 0:
            return False, "the files the extraction script requires do not compile:\n" + out[-2000:]
    rc, out = sh(["coqc", "-q", "-Q", COQ, "QV", "-w", "-notation-overridden,-extraction",
                  os.path.join(COQ, extract_rel)], cwd=d, timeout=timeout)
    if rc != 0:
        return False, "extraction failed:\n" + out
    shutil.copy(os.path.join(VERIF, "ocaml", "qvutil.ml"), d)
    shutil.copy(os.path.join(VERIF, "ocaml", driver), d)
    rc, order = sh("ocamlfind ocamldep -sort *.mli *.ml", cwd=d, timeout=120)
    if rc != 0:
        return False, "ocamldep failed:\n" + order
    rc, out = sh(f"ocamlfind ocamlopt -w -a -inline 50 {order.strip()} -o run", cwd=d, timeout=timeout)
    if rc != 0 or not os.path.exists(exe):
        return False, "ocamlopt failed:\n" + out
    open(stamp, "w").write(key)
    return True, exe


def cargo_env(release=False):
    env = dict(os.environ)
    env["CARGO_NET_OFFLINE"] = "true"
    env["RUSTFLAGS"] = (env.get("QV_RUSTFLAGS", "") + f" --cfg {GUARD}").strip()
    env["CARGO_TARGET_DIR"] = os.path.join(BUILD, "target")
    return env


def build_harness(bins, release=False, timeout=1500):
    """cargo build (offline) of the named harness binaries against /repo's working tree."""
    manifest = os.path.join(VERIF, "harness", "Cargo.toml")
    if REPO != "/repo":
        # scratch worktree: rewrite the path dependency through a patched copy of the harness
        hdir = os.path.join(BUILD, "harness-alt")
        shutil.rmtree(hdir, ignore_errors=True)
        shutil.copytree(os.path.join(VERIF, "harness"), hdir)
        p = os.path.join(hdir, "Cargo.toml")
        txt = open(p).read().replace('path = "/repo"', f'path = "{REPO}"')
        open(p, "w").write(txt)
        manifest = p
    cmd = ["cargo", "build", "--offline", "--manifest-path", manifest]
    if release:
        cmd.append("--release")
    for b in bins:
        cmd += ["--bin", b]
    rc, out = sh(cmd, timeout=timeout, env=cargo_env(release))
    prof = "release" if release else "debug"
    paths = {b: os.path.join(BUILD, "target", prof, b) for b in bins}
    return rc == 0, paths, out


# ----------------------------------------------------------------------------- running cases

def run_sharded(exe, cases, timeout, env=None, args=()):
    """Feed `cases` (list of lines) to `exe` in NPROC shards; returns list of output lines
    ('timeout' / 'crash' for cases a shard did not answer)."""
    n = len(cases)
    if n == 0:
        return []
    nsh = min(NPROC, max(1, n // 50 + 1))
    bounds = [(i * n // nsh, (i + 1) * n // nsh) for i in range(nsh)]

    def one(lo_hi):
        lo, hi = lo_hi
        chunk = cases[lo:hi]
        rc, out = run_one(exe, chunk, timeout, env, args)
        lines = out
        if len(lines) == len(chunk):
            return lines
        # a hang or a crash inside the shard: isolate it case by case
        res = []
        for c in chunk:
            rc1, o1 = run_one(exe, [c], min(timeout, 10), env, args)
            if len(o1) == 1:
                res.append(o1[0])
            else:
                res.append("timeout" if rc1 == 124 else "crash")
        return res

    with cf.ThreadPoolExecutor(max_workers=nsh) as ex:
        parts = list(ex.map(one, bounds))
    return [l for p in parts for l in p]


def run_one(exe, chunk, timeout, env, args):
    try:
        p = subprocess.run([exe] + list(args), input="\n".join(chunk) + "\n", stdout=subprocess.PIPE,
                           stderr=subprocess.DEVNULL, timeout=timeout, text=True, env=env)
        return p.returncode, [l for l in p.stdout.split("\n") if l != ""]
    except subprocess.TimeoutExpired:
        return 124, []


# ----------------------------------------------------------------------------- known findings

def load_findings(prop):
    p = os.path.join(VERIF, "known_findings.jsonl")
    known, fixed = [], []
    if os.path.exists(p):
        for line in open(p):
            line = line.strip()
            if not line or line.startswith("#"):
                continue
            e = json.loads(line)
            if e.get("property") != prop:
                continue
            (fixed if e.get("status") == "fixed" else known).append(e)
    return known, fixed


# ----------------------------------------------------------------------------- the check

def default_oracle_ok(case, impl, oracle):
    """The implementation's answer is what the spec prescribes: identical ok-line, or an
    error (any kind, never a panic/timeout) where the spec rejects."""
    if oracle == "-":
        return not (impl in ("panic", "timeout", "crash"))
    if oracle == "reject":
        return impl.startswith("err")
    return impl == oracle


def split_model_line(line):
    if " | " in line:
        m, o = line.rsplit(" | ", 1)
        return m, o
    return line, "-"


def run_check(C, tier, seed, replay=None):
    t0 = time.time()
    prop = C["property"]
    os.makedirs(BUILD, exist_ok=True)
    os.makedirs(os.path.join(VERIF, "evidence"), exist_ok=True)
    os.makedirs(os.path.join(VERIF, "replays"), exist_ok=True)
    ev = {"property_id": prop, "tier": tier, "seed": seed, "level": "proof",
          "coverage": {}, "assumptions": list(C.get("assumptions", [])), "violations": 0}
    cov = ev["coverage"]
    violations = []     # (kind, description, replay-dict)
    proof_broken = []   # descriptions
    quick = tier == "quick"

    # 1. source-derived constants
    rc, out = sh([sys.executable, os.path.join(VERIF, "tools", "gen_consts.py")], timeout=120,
                 env=dict(os.environ, QV_REPO=REPO))
    if out.strip():
        log(out.strip())
    adv = [l for l in out.split("\n") if l.startswith("gen_consts: advisory:")]
    if adv:
        cov["source_tie_advisories"] = adv
    if rc != 0:
        proof_broken.append("tools/gen_consts.py could not re-extract the constants/tables from the source: " + out.strip()[-400:])

    # 2. proofs
    props_rel = C["props"]
    cone = coq_cone(props_rel)
    if tier == "thorough" and not os.environ.get("QV_NO_CLEAN"):
        for f in cone:
            for ext in (".vo", ".vok", ".vos", ".glob"):
                try:
                    os.remove(os.path.join(COQ, f[:-2] + ext))
                except OSError:
                    pass
    rc, out = coq_make([props_rel + "o"], timeout=C.get("coq_timeout", 1500))
    coq_ok = rc == 0
    assumptions = {}
    if not coq_ok:
        m = re.findall(r'File "\./([^"]+)", line (\d+)[^\n]*\n(Error:[^\n]*(?:\n[^\n]+){0,3})', out)
        where = "; ".join(f"{f}:{l} {e.splitlines()[0]}" for f, l, e in m[:3]) or out.strip()[-600:]
        proof_broken.append(f"proof obligations of {props_rel} no longer check ({'timeout' if rc == 124 else 'error'}): {where}")
        log(out[-3000:])
    else:
        ok, assumptions, raw = print_assumptions(props_rel)
        if not ok:
            coq_ok = False
            proof_broken.append(f"{props_rel} does not compile stand-alone: {raw.strip()[-400:]}")
        allowed = set(C.get("allowed_axioms", []))
        thms = props_theorems(props_rel)
        for t in C.get("theorems", []):
            if t not in thms:
                coq_ok = False
                proof_broken.append(f"pinned theorem {t} is missing from {props_rel}")
        for t in thms:
            if ok and t not in assumptions:
                coq_ok = False
                proof_broken.append(f"theorem {t} has no Print Assumptions in {props_rel}")
        for t, axs in assumptions.items():
            bad = [a for a in axs if a not in allowed]
            if bad:
                coq_ok = False
                proof_broken.append(f"theorem {t} depends on axioms outside the allowlist: {bad}")
    problems, obligations, discharged = audit_files(cone)
    # the whole development is audited too (a stray Admitted anywhere is reported)
    allv = []
    for root, _, fs in os.walk(COQ):
        for f in fs:
            if f.endswith(".v"):
                allv.append(os.path.relpath(os.path.join(root, f), COQ))
    problems_all, _, _ = audit_files([f for f in allv if f not in cone])
    for p in problems + problems_all:
        coq_ok = False
        proof_broken.append("hygiene: " + p)
    if obligations != discharged:
        coq_ok = False
        proof_broken.append(f"{obligations} proof obligations stated in the cone but {discharged} closed by Qed/Defined")
    cov["obligations"] = obligations
    cov["discharged"] = discharged if coq_ok else 0
    cov["checker_cmd"] = f"cd coq && make {props_rel}o && coqc -Q . QV {props_rel}  (Coq 8.16.1 kernel; full .vo build)"
    cov["theorems"] = {t: {"statement": theorem_statement(props_rel, t),
                           "assumptions": assumptions.get(t, "not-printed") or "Closed under the global context"}
                       for t in props_theorems(props_rel)} if os.path.exists(os.path.join(COQ, props_rel)) else {}
    cov["cone_files"] = cone
    if tier == "thorough" and coq_ok and C.get("coqchk", True):
        mods = " ".join("QV." + f[:-2].replace("/", ".") for f in [props_rel])
        rc, out = sh(f"coqchk -silent -o -Q . QV {mods}", cwd=COQ, timeout=3600)
        cov["coqchk"] = out.strip()[-1500:]
        if rc != 0:
            coq_ok = False
            proof_broken.append("coqchk rejected the compiled proofs: " + out.strip()[-400:])

    # 3./4./5. correspondence suites: build, generate, run both sides, classify
    known, fixed = load_findings(prop)
    known_hits = {}
    suites = C.get("suites")
    if suites is None and C.get("correspondence"):
        s0 = dict(C["correspondence"])
        for k in ("gen", "nontrivial", "classify", "oracle_ok", "rule", "exhaustive", "finding_matches", "corr_eq", "n_samples", "timeout"):
            if k in C:
                s0[k] = C[k]
        s0.setdefault("name", prop.lower())
        suites = [s0]
    suites = suites or []
    n_disagree = 0
    tot_eval, tot_nt, rules, all_samples, hists = 0, 0, [], [], {}
    exhaustive_all = bool(suites)
    rng = random.Random(seed)
    if suites:
        bins_needed = sorted({s["impl_bin"] for s in suites})
        ok_h, bins, out_h = build_harness(bins_needed)
        if not ok_h:
            log(out_h[-3000:])
            log(f"ERROR: cannot build the harness against {REPO} (does the repository compile?)")
            write_evidence(ev, t0)
            return 2
        rel_bins = None
        if tier == "thorough" and any(s.get("release_too") for s in suites):
            ok_r, rel_bins, out_r = build_harness(bins_needed, release=True)
            if not ok_r:
                log(out_r[-2000:]); rel_bins = None
    for S in suites:
        sname = S["name"]
        ok_m, exe_m = build_model_runner(S.get("runner_name", prop + "_" + sname), S["extract"], S["driver"],
                                         coq_cone(S["extract"]))
        if not ok_m:
            proof_broken.append(f"suite {sname}: the executable model no longer extracts/compiles: " + exe_m[-400:])
            log(exe_m[-3000:])
        if replay:
            cases = []
            for l in open(replay):
                if l.strip().startswith("{"):
                    e = json.loads(l)
                    if "case" in e and e.get("suite", sname) == sname:
                        cases.append(e["case"])
        else:
            corpus = []
            cp = os.path.join(VERIF, "corpus", f"{prop.lower()}_{sname}.txt")
            if os.path.exists(cp):
                corpus = [l.strip() for l in open(cp) if l.strip() and not l.startswith("#")]
            cases = corpus + list(S["gen"](rng, tier))
        tmo = S.get("timeout", {}).get(tier, 120 if quick else 3000)
        margs = S.get("args", [])
        impl = run_sharded(bins[S["impl_bin"]], cases, tmo, args=margs)
        model = run_sharded(exe_m, cases, tmo, args=margs) if ok_m else ["-"] * len(cases)
        results = list(zip(cases, impl, model))
        if rel_bins and S.get("release_too"):
            # release build (no overflow checks): compared against the model's wrapping variant
            impl_r = run_sharded(rel_bins[S["impl_bin"]], cases, tmo, args=margs + ["--release"])
            model_r = run_sharded(exe_m, cases, tmo, args=margs + ["--release"]) if ok_m else ["-"] * len(cases)
            results += [(c + "  #release", i, m) for c, i, m in zip(cases, impl_r, model_r)]
        oracle_ok = S.get("oracle_ok", default_oracle_ok)
        classify = S.get("classify", lambda case, impl, model, oracle: "ok" if impl.startswith("ok") else impl)
        hist, distinct_nt = {}, set()
        for case, i_line, m_line in results:
            m_res, o_res = split_model_line(m_line)
            k = classify(case, i_line, m_res, o_res)
            hist[k] = hist.get(k, 0) + 1
            if S["nontrivial"](case, i_line, m_res, o_res):
                distinct_nt.add(case)
            prop_ok = oracle_ok(case, i_line, o_res)
            corr_ok = (m_line == "-") or S.get("corr_eq", lambda c, i, m: i == m)(case, i_line, m_res)
            if prop_ok and corr_ok:
                continue
            n_disagree += 1
            entry = {"suite": sname, "case": case, "impl": i_line, "model": m_res, "oracle": o_res,
                     "kind": "property" if not prop_ok else "correspondence"}
            hit = None
            for kf in known:
                if S.get("finding_matches", lambda *_: False)(kf, case, i_line, m_res, o_res):
                    hit = kf; break
            if hit:
                known_hits.setdefault(hit["id"], (hit, entry))
                continue
            violations.append(entry)
        k_samples = S.get("n_samples", 5)
        step = max(1, len(results) // k_samples)
        def _clip(x, n=700):
            return x if len(x) <= n else x[:n] + f"...<{len(x) - n} more chars>"
        all_samples += [{"suite": sname, "case": _clip(c), "impl": _clip(i), "model": _clip(m)}
                        for c, i, m in results[::step][:k_samples]]
        tot_eval += len(results)
        tot_nt += len(distinct_nt)
        rules.append(f"[{sname}] " + S["rule"])
        hists[sname] = hist
        exhaustive_all = exhaustive_all and bool(S.get("exhaustive", {}).get(tier, False))
    if suites:
        cov["evaluations"] = tot_eval
        cov["distinct_nontrivial"] = tot_nt
        cov["rule"] = " ".join(rules)
        cov["samples"] = all_samples
        cov["outcome_histogram"] = hists
        cov["disagreements"] = n_disagree
        cov["exhaustive"] = exhaustive_all
    else:
        cov["samples"] = [{"theorem": t, "statement": theorem_statement(props_rel, t)} for t in props_theorems(props_rel)[:4]]
    extra = C.get("extra_stage")
    if extra:
        # property-specific stage (e.g. trace validation against the running implementation);
        # returns (violations, broken, coverage-dict)
        v2, b2, c2 = extra(tier, seed, replay)
        violations += v2; proof_broken += b2; cov.update(c2)
    cov["trusted_base"] = C["trusted_base"]
    cov["known_findings_hit"] = sorted(known_hits)
    cov["fixed_findings"] = [f.get("summary", "") for f in fixed]

    # 6. report
    for fid, (kf, entry) in sorted(known_hits.items()):
        log(f"KNOWN-FINDING: property={prop} {kf['summary']} (e.g. case `{entry['case'] if len(entry['case']) <= 400 else entry['case'][:400] + '...'}`)")
    rc_exit = 0
    if violations or proof_broken:
        rc_exit = 1
        rp = os.path.join(VERIF, "replays", f"{prop}-{tier}-{seed}.jsonl")
        prop_v = [v for v in violations if v["kind"] == "property"]
        corr_v = [v for v in violations if v["kind"] == "correspondence"]
        with open(rp, "w") as f:
            f.write(json.dumps({"property": prop, "seed": seed, "tier": tier, "repo": REPO,
                                "broken_obligations": proof_broken,
                                "replay_cmd": f"./check {prop} --replay {rp}"}) + "\n")
            for v in (prop_v + corr_v)[:50]:
                f.write(json.dumps(v) + "\n")
        if prop_v:
            v = min(prop_v, key=lambda v: len(v["case"]))
            log(f"failing input: {v['case']}\n  implementation: {v['impl']}\n  specification : {v['oracle']}")
            log(f"VIOLATION property={prop} replay={rp}")
        else:
            what = proof_broken[0] if proof_broken else \
                f"correspondence suite {corr_v[0].get('suite')} differs on `{corr_v[0]['case']}` (impl: {corr_v[0]['impl']} / model: {corr_v[0]['model']})"
            log("no longer shown to hold: " + what)
            for extra in proof_broken[1:5]:
                log("  also: " + extra)
            log(f"VIOLATION property={prop} replay={rp} no-failing-input-found")
    ev["violations"] = len(violations) + len(proof_broken)
    write_evidence(ev, t0)
    log(f"[{prop}] tier={tier} seed={seed} obligations={cov.get('obligations')} discharged={cov.get('discharged')} "
        f"cases={cov.get('evaluations')} nontrivial={cov.get('distinct_nontrivial')} disagreements={n_disagree} "
        f"wall={time.time() - t0:.1f}s -> exit {rc_exit}")
    return rc_exit


def write_evidence(ev, t0):
    ev["wall_s"] = round(time.time() - t0, 2)
    p = os.path.join(VERIF, "evidence", ev["property_id"] + ".json")
    with open(p, "w") as f:
        json.dump(ev, f, indent=1, sort_keys=True)
        f.write("\n")


def load_check(prop):
    path = os.path.join(VERIF, "checks", prop.lower() + ".py")
    spec = importlib.util.spec_from_file_location("check_" + prop.lower(), path)
    mod = importlib.util.module_from_spec(spec)
    sys.path.insert(0, os.path.join(VERIF, "tools"))
    sys.path.insert(0, os.path.join(VERIF, "checks"))
    spec.loader.exec_module(mod)
    return mod


def main():
    ap = argparse.ArgumentParser()
    ap.add_argument("property")
    ap.add_argument("--tier", default=os.environ.get("VERIF_TIER", "quick"), choices=["quick", "thorough"])
    ap.add_argument("--seed", type=int, default=int(os.environ.get("VERIF_SEED", "1") or 1))
    ap.add_argument("--replay")
    a = ap.parse_args()
    mod = load_check(a.property.upper())
    if hasattr(mod, "run"):
        return mod.run(a.tier, a.seed, a.replay)
    return run_check(mod.CHECK, a.tier, a.seed, a.replay)
