#!/usr/bin/env python3
"""Pre-build every property's extracted OCaml model runner (used by setup.sh)."""
import glob, os, sys
sys.path.insert(0, os.path.dirname(os.path.abspath(__file__)))
import qv
rc = 0
for path in sorted(glob.glob(os.path.join(qv.VERIF, "checks", "c*.py"))):
    prop = os.path.splitext(os.path.basename(path))[0].upper()
    mod = qv.load_check(prop)
    C = getattr(mod, "CHECK", None)
    suites = []
    if C and C.get("suites"):
        suites = C["suites"]
    elif C and C.get("correspondence"):
        suites = [dict(C["correspondence"], name=prop.lower())]
    for corr in suites:
        ok, msg = qv.build_model_runner(corr.get("runner_name", prop + "_" + corr.get("name", prop.lower())), corr["extract"], corr["driver"], qv.coq_cone(corr["extract"]))
        print(f"{prop}: runner {'ok' if ok else 'FAILED'}")
        if not ok:
            print(msg[-2000:]); rc = 1
sys.exit(rc)
