"""Defaults and bounds of src/server/rrl.rs (RrlParams::new / set_ipv{4,6}_prefix_len)."""
import re
from genlib import read, strip_tests, parse_int, coq_N, GenError, impl_block, self_consts
OUT = "Gen/RrlConsts.v"
REL = "src/server/rrl.rs"


def fn_body(src, name):
    m = re.search(r"pub\s+fn\s+%s\s*\(" % re.escape(name), src)
    if not m:
        raise GenError(f"{REL}: no `pub fn {name}`")
    i = src.index("{", m.end())
    depth = 0
    for j in range(i, len(src)):
        if src[j] == "{":
            depth += 1
        elif src[j] == "}":
            depth -= 1
            if depth == 0:
                return src[i:j + 1]
    raise GenError(f"{REL}: unbalanced braces in {name}")


def field_default(body, field):
    ms = re.findall(r"^\s*%s\s*:\s*([0-9a-fA-Fx_]+)\s*,\s*$" % re.escape(field), body, re.M)
    if len(ms) != 1:
        raise GenError(f"{REL}: expected exactly one literal default for `{field}` in RrlParams::new, found {len(ms)}")
    return parse_int(ms[0])


def len_bound(body, what):
    ms = re.findall(r"if\s+len\s*>\s*([0-9_]+)\s*\{", body)
    if len(ms) != 1:
        raise GenError(f"{REL}: expected exactly one `if len > N` in {what}, found {len(ms)}")
    return parse_int(ms[0])


def shift_base(body, what, ty):
    ms = re.findall(r"%s::MAX\s*<<\s*\(\s*([0-9_]+)\s*-\s*len\s*\)" % ty, body)
    if len(ms) != 1:
        raise GenError(f"{REL}: expected exactly one `{ty}::MAX << (N - len)` in {what}, found {len(ms)}")
    return parse_int(ms[0])


def generate(repo):
    src = strip_tests(read(repo, REL))
    new = fn_body(src, "new")
    v4 = fn_body(src, "set_ipv4_prefix_len")
    v6 = fn_body(src, "set_ipv6_prefix_len")
    lines = ["From Coq Require Import NArith.", "", f"(* {REL} *)"]
    for coq, field in [("RRL_DEFAULT_SLIP", "slip"), ("RRL_DEFAULT_IPV4_NETMASK", "ipv4_netmask"),
                       ("RRL_DEFAULT_IPV6_NETMASK", "ipv6_netmask"), ("RRL_DEFAULT_SIZE", "size")]:
        lines.append(f"Definition {coq} : N := {coq_N(field_default(new, field))}.")
    lines.append(f"Definition RRL_IPV4_MAX_PREFIX : N := {coq_N(len_bound(v4, 'set_ipv4_prefix_len'))}.")
    lines.append(f"Definition RRL_IPV4_SHIFT_BASE : N := {coq_N(shift_base(v4, 'set_ipv4_prefix_len', 'u32'))}.")
    lines.append(f"Definition RRL_IPV6_MAX_PREFIX : N := {coq_N(len_bound(v6, 'set_ipv6_prefix_len'))}.")
    lines.append(f"Definition RRL_IPV6_SHIFT_BASE : N := {coq_N(shift_base(v6, 'set_ipv6_prefix_len', 'u64'))}.")
    rc = dict(self_consts(impl_block(strip_tests(read(repo, "src/message/rcode.rs")), r"^impl ExtendedRcode\s*\{", "src/message/rcode.rs")))
    op = dict(self_consts(impl_block(strip_tests(read(repo, "src/message/opcode.rs")), r"^impl Opcode\s*\{", "src/message/opcode.rs")))
    for tab, rel, names, pre in [(rc, "src/message/rcode.rs", ["NOERROR", "NXDOMAIN"], "XRCODE_"), (op, "src/message/opcode.rs", ["QUERY"], "OPCODE_")]:
        lines.append(f"(* {rel} *)")
        for n in names:
            if n not in tab:
                raise GenError(f"{rel}: constant {n} not found")
            lines.append(f"Definition {pre}{n} : N := {coq_N(tab[n])}.")
    lines.append("")
    return "\n".join(lines)
