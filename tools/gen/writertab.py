"""RR type / class numbers and the RDATA component classification used by the message writer
(src/rr/rr_type.rs, src/class.rs, src/rr/rdata/mod.rs `Rdata::components`, the
`components_as_*` tables of std13.rs / srv.rs, `Ttl::from` of src/rr/ttl.rs)."""
import re
from genlib import read, strip_tests, parse_int, coq_N, GenError, impl_block
OUT = "Gen/WriterTab.v"

TYPES = ["A", "NS", "MD", "MF", "CNAME", "SOA", "MB", "MG", "MR", "NULL", "WKS", "PTR", "HINFO",
         "MINFO", "MX", "TXT", "AAAA", "SRV", "OPT", "TSIG"]
CLASSES = ["IN", "CH"]


def fn_body(src, name, rel):
    return impl_block(src, r"fn\s+%s\s*\([^)]*\)\s*(?:->\s*[^{]+)?\{" % re.escape(name), rel)


def ctypes_of(body, rel):
    m = re.search(r"types\s*:\s*&\[(.*?)\]", body, re.S)
    if not m:
        raise GenError(f"{rel}: no `types: &[...]` table")
    out = []
    for tok in [t.strip() for t in m.group(1).split(",") if t.strip()]:
        if tok == "ComponentType::CompressibleName":
            out.append("CtCompressible")
        elif tok == "ComponentType::UncompressibleName":
            out.append("CtUncompressible")
        else:
            f = re.fullmatch(r"ComponentType::FixedLen\((\w+)\)", tok)
            if not f:
                raise GenError(f"{rel}: unknown component type {tok!r}")
            out.append(f"CtFixed {parse_int(f.group(1))}")
    return out


def generate(repo):
    tsrc = strip_tests(read(repo, "src/rr/rr_type.rs"))
    csrc = strip_tests(read(repo, "src/class.rs"))
    msrc = strip_tests(read(repo, "src/rr/rdata/mod.rs"))
    tables = {"src/rr/rdata/std13.rs": strip_tests(read(repo, "src/rr/rdata/std13.rs")),
              "src/rr/rdata/srv.rs": strip_tests(read(repo, "src/rr/rdata/srv.rs")),
              "src/rr/rdata/mod.rs": msrc}
    tnum, cnum = {}, {}
    for t in TYPES:
        m = re.findall(r"pub\s+const\s+%s\s*:\s*Type\s*=\s*Type\(([^)]+)\)\s*;" % t, tsrc)
        if len(m) != 1:
            raise GenError(f"src/rr/rr_type.rs: expected one `const {t}`")
        tnum[t] = parse_int(m[0])
    for c in CLASSES:
        m = re.findall(r"pub\s+const\s+%s\s*:\s*Self\s*=\s*Self\(([^)]+)\)\s*;" % c, csrc)
        if len(m) != 1:
            raise GenError(f"src/class.rs: expected one `const {c}`")
        cnum[c] = parse_int(m[0])

    # the match of Rdata::components
    body = fn_body(msrc, "components", "src/rr/rdata/mod.rs")
    mm = re.search(r"match\s+rr_type\s*\{(.*)\}\s*\}\s*$", body, re.S)
    if not mm:
        raise GenError("src/rr/rdata/mod.rs: `match rr_type` not found in Rdata::components")
    arms = re.findall(r"((?:Type::\w+\s*\|?\s*)+)(?:if\s+class\s*==\s*Class::(\w+)\s*)?=>\s*([^,]+),", mm.group(1))
    default = re.search(r"_\s*=>\s*([^,]+),", mm.group(1))
    if not arms or not default or "for_nameless" not in default.group(1):
        raise GenError("src/rr/rdata/mod.rs: unexpected shape of the component match (default arm must be for_nameless)")
    rows = []
    for pats, guard, target in arms:
        target = target.strip()
        if "for_single_compressible_name" in target:
            cts = ctypes_of(fn_body(msrc, "for_single_compressible_name", "src/rr/rdata/mod.rs"), "src/rr/rdata/mod.rs")
        elif "for_nameless" in target:
            cts = []
        else:
            f = re.fullmatch(r"self\.(components_as_\w+)\(\)", target)
            if not f:
                raise GenError(f"src/rr/rdata/mod.rs: unknown component constructor {target!r}")
            cts = None
            for rel, src in tables.items():
                if re.search(r"fn\s+%s\s*\(" % f.group(1), src):
                    cts = ctypes_of(fn_body(src, f.group(1), rel), rel)
            if cts is None:
                raise GenError(f"{f.group(1)} not found in std13.rs/srv.rs")
        for t in re.findall(r"Type::(\w+)", pats):
            if t not in tnum:
                raise GenError(f"type {t} of the component match is not in the extracted type list")
            g = f"Some {coq_N(cnum[guard])}" if guard else "None"
            rows.append(f"  ({coq_N(tnum[t])}, {g}, [{'; '.join(cts)}])")

    # Ttl::from: `if raw > i32::MAX as u32 { Self(0) } else { Self(raw) }`
    ttl = strip_tests(read(repo, "src/rr/ttl.rs"))
    if not re.search(r"if\s+raw\s*>\s*i32::MAX\s+as\s+u32\s*\{\s*Self\(0\)\s*\}\s*else\s*\{\s*Self\(raw\)\s*\}", ttl):
        raise GenError("src/rr/ttl.rs: Ttl::from no longer has the shape `if raw > i32::MAX as u32 { Self(0) } else { Self(raw) }`")

    lines = ["From Coq Require Import NArith List.", "Import ListNotations.", "",
             "(* src/rr/rdata/mod.rs: ComponentType *)",
             "Inductive ctype := CtCompressible | CtUncompressible | CtFixed (n : nat).", "",
             "(* src/rr/rr_type.rs *)"]
    for t in TYPES:
        lines.append(f"Definition TYPE_{t} : N := {coq_N(tnum[t])}.")
    lines += ["", "(* src/class.rs *)"]
    for c in CLASSES:
        lines.append(f"Definition CLASS_{c} : N := {coq_N(cnum[c])}.")
    lines += ["", "(* src/rr/ttl.rs: largest raw value Ttl::from keeps (i32::MAX); larger ones become 0 *)",
              "Definition TTL_MAX : N := 2147483647%N.", "",
              "(* src/rr/rdata/mod.rs Rdata::components, arms in match order: (type, class guard, component types);",
              "   anything not listed is `for_nameless` (no name components at all). *)",
              "Definition COMPONENT_TABLE : list (N * option N * list ctype) := [",
              ";\n".join(rows), "]."]
    return "\n".join(lines) + "\n"
