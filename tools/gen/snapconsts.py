"""C32 source sentinel: how often Server::handle_message (src/server/*.rs, tests stripped) acquires each of the two
RwLock<Arc<_>> cells.  The model (Model/Snapshot.v) has exactly one catalog read and at most one key-set read per
message; Props/C32.v pins these counts to 1, so a second acquisition breaks the proof at make time."""
import os, re
from genlib import read, strip_tests, GenError, coq_N
OUT = "Gen/SnapConsts.v"

FILES = ["src/server/mod.rs", "src/server/query.rs", "src/server/rrl.rs"]


def fn_body(src, rel, header):
    i = src.find(header)
    if i < 0:
        raise GenError(f"{rel}: no `{header}`")
    j = src.index("{", src.index(")", i))
    # skip a `-> T` / where clause: find the first '{' after the parameter list's closing parenthesis at depth 0
    depth, k = 0, i
    while k < len(src):
        if src[k] == "(":
            depth += 1
        elif src[k] == ")":
            depth -= 1
            if depth == 0:
                break
        k += 1
    j = src.index("{", k)
    depth = 0
    for m in range(j, len(src)):
        if src[m] == "{":
            depth += 1
        elif src[m] == "}":
            depth -= 1
            if depth == 0:
                return src[j:m + 1]
    raise GenError(f"{rel}: unbalanced braces in {header}")


def generate(repo):
    srcs = {rel: strip_tests(read(repo, rel)) for rel in FILES}
    allsrc = "\n".join(srcs.values())
    mod = srcs["src/server/mod.rs"]
    n = lambda pat, s=allsrc: len(re.findall(pat, s))
    if n(r"catalog:\s*RwLock<Arc<C>>") != 1 or n(r"tsig_keys:\s*RwLock<Arc<TsigKeyMap>>") != 1:
        raise GenError("src/server/mod.rs: the catalog / tsig_keys cells are no longer RwLock<Arc<_>> fields")
    hm = fn_body(mod, "src/server/mod.rs", "pub fn handle_message(")
    hmc = fn_body(mod, "src/server/mod.rs", "fn handle_message_with_context(")
    # the catalog snapshot is taken before the Context (which borrows it for the whole message) is built
    if not re.search(r"let\s+(\w+)\s*=\s*self\.catalog\(\);\s*let\s+mut\s+\w+\s*=\s*Context::new\(\s*\1\.as_ref\(\)", hm):
        raise GenError("src/server/mod.rs: handle_message no longer snapshots the catalog right before Context::new")
    vals = [
        ("CAT_LOCK_READS", n(r"\.catalog\s*\.read\(\)"), "lock acquisitions for reading: only in Server::catalog()"),
        ("CAT_LOCK_WRITES", n(r"\.catalog\s*\.write\(\)"), "only in Server::set_catalog()"),
        ("KEYS_LOCK_READS", n(r"\.tsig_keys\s*\.read\(\)"), "only in Server::tsig_keys()"),
        ("KEYS_LOCK_WRITES", n(r"\.tsig_keys\s*\.write\(\)"), "only in Server::set_tsig_keys()"),
        ("CAT_SNAPSHOTS_PER_MESSAGE", n(r"\.catalog\(\)"), "calls of Server::catalog() in src/server/*.rs (handle_message)"),
        ("CAT_SNAPSHOTS_IN_HANDLE_MESSAGE", n(r"self\.catalog\(\)", hm), ""),
        ("KEYS_SNAPSHOTS_PER_MESSAGE", n(r"\.tsig_keys\(\)"), "calls of Server::tsig_keys() in src/server/*.rs"),
        ("KEYS_SNAPSHOTS_IN_HANDLE_MESSAGE_WITH_CONTEXT", n(r"self\.tsig_keys\(\)", hmc), ""),
        ("DIRECT_CELL_USES", n(r"self\.catalog\b(?!\(|\.read\(\)|\.write\(\))") + n(r"self\.tsig_keys\b(?!\(|\.read\(\)|\.write\(\))"),
         "uses of the fields other than through read()/write()/the accessor"),
    ]
    out = ["From Coq Require Import NArith.", "", "(* src/server/mod.rs, src/server/query.rs, src/server/rrl.rs (tests stripped) *)"]
    for name, v, note in vals:
        out.append(f"Definition {name} : N := {coq_N(v)}." + (f"  (* {note} *)" if note else ""))
    out.append("")
    return "\n".join(out)
