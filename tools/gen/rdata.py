"""RDATA dispatch tables re-extracted from the Rust source (C18/C19).

From src/rr/rr_type.rs and src/class.rs: the numeric TYPE/CLASS constants.
From src/rr/rdata/mod.rs: the arms of the four `match rr_type` dispatchers of
Rdata::{equals, validate, read, components} (type list, optional class guard,
handler), in source order, plus the default arm.  From std13.rs / srv.rs /
mod.rs: the `ComponentType` array each components handler uses.

The model (coq/Model/RdataM.v) dispatches THROUGH these tables, so dropping a
type from a dispatcher, re-ordering guarded arms, or changing a component layout
(e.g. making the SRV target compressible) changes the model and breaks the
proofs against the independent RFC grammar.  Unknown handler expressions make the
generator fail loudly (GenError) instead of silently keeping a stale table.
"""
import re
from genlib import GenError, read, strip_tests, impl_block, coq_N

OUT = "Gen/RdataTables.v"

MOD = "src/rr/rdata/mod.rs"
HANDLER_FILES = ["src/rr/rdata/std13.rs", "src/rr/rdata/srv.rs", "src/rr/rdata/mod.rs",
                 "src/rr/rdata/ipv6.rs", "src/rr/rdata/opt.rs", "src/rr/rdata/tsig.rs"]


def strip_comments(src):
    return re.sub(r"//[^\n]*", "", src)


def type_consts(repo, rel, struct):
    src = strip_tests(read(repo, rel))
    blk = impl_block(src, r"^impl\s+%s\s*\{" % struct, rel)
    cs = re.findall(r"pub\s+const\s+([A-Z0-9_]+)\s*:\s*(?:Self|%s)\s*=\s*(?:Self|%s)\((\d+)\)\s*;" % (struct, struct), blk)
    if not cs:
        raise GenError(f"{rel}: no constants in impl {struct}")
    return [(n, int(v)) for n, v in cs]


def _fn_body(src, name, rel):
    m = re.search(r"\bfn\s+%s\b" % re.escape(name), src)
    if not m:
        raise GenError(f"{rel}: no fn {name}")
    # the body is the first brace block after the signature's closing parenthesis / return type
    i = src.index("{", m.end())
    # skip braces that belong to the signature (none expected in these functions)
    depth = 0
    for j in range(i, len(src)):
        if src[j] == "{":
            depth += 1
        elif src[j] == "}":
            depth -= 1
            if depth == 0:
                return src[i:j + 1]
    raise GenError(f"{rel}: unbalanced braces in fn {name}")


def match_arms(body, rel, fn):
    m = re.search(r"match\s+rr_type\s*\{", body)
    if not m:
        raise GenError(f"{rel}: fn {fn} has no `match rr_type`")
    i = m.end() - 1
    depth = 0
    for j in range(i, len(body)):
        if body[j] == "{":
            depth += 1
        elif body[j] == "}":
            depth -= 1
            if depth == 0:
                inner = body[i + 1:j]
                break
    else:
        raise GenError(f"{rel}: unbalanced match in fn {fn}")
    # split at top-level commas
    arms, cur, d = [], "", 0
    for ch in inner:
        if ch in "([{":
            d += 1
        elif ch in ")]}":
            d -= 1
        if ch == "," and d == 0:
            if cur.strip():
                arms.append(cur.strip())
            cur = ""
        else:
            cur += ch
    if cur.strip():
        arms.append(cur.strip())
    out = []
    for a in arms:
        if "=>" not in a:
            raise GenError(f"{rel}: fn {fn}: cannot parse match arm {a!r}")
        pat, expr = a.split("=>", 1)
        pat, expr = " ".join(pat.split()), " ".join(expr.split())
        guard = None
        if " if " in pat:
            pat, g = pat.split(" if ", 1)
            mg = re.fullmatch(r"class == Class::([A-Z]+)", g.strip())
            if not mg:
                raise GenError(f"{rel}: fn {fn}: unsupported guard {g!r}")
            guard = mg.group(1)
        pat = pat.strip()
        if pat == "_":
            types = None
            if guard:
                raise GenError(f"{rel}: fn {fn}: guarded default arm")
        else:
            types = []
            for p in pat.split("|"):
                mp = re.fullmatch(r"Type::([A-Z0-9_]+)", p.strip())
                if not mp:
                    raise GenError(f"{rel}: fn {fn}: unsupported pattern {p!r}")
                types.append(mp.group(1))
        out.append((types, guard, expr))
    if not out or out[-1][0] is not None:
        raise GenError(f"{rel}: fn {fn}: last arm is not `_`")
    if any(t is None for t, _, _ in out[:-1]):
        raise GenError(f"{rel}: fn {fn}: `_` arm before the end")
    return out


def h_equals(e):
    if re.fullmatch(r"helpers::names_equal\(&self\.octets, &other\.octets\)", e):
        return "E_names_equal"
    m = re.fullmatch(r"self\.(equals_as_\w+)\(other\)", e)
    if m:
        return "E_" + m.group(1)
    if e == "self.octets == other.octets":
        return "E_bitwise"
    raise GenError(f"{MOD}: equals: unknown handler expression {e!r}")


def h_validate(e):
    if e == "helpers::validate_name(&self.octets)":
        return "V_validate_name"
    m = re.fullmatch(r"self\.(validate_as_\w+)\(\)", e)
    if m:
        return "V_" + m.group(1)
    if e == "Ok(())":
        return "V_ok"
    raise GenError(f"{MOD}: validate: unknown handler expression {e!r}")


def h_read(e):
    m = re.fullmatch(r"with_decompression\((?:helpers|Self)::(read_\w+)\)", e)
    if m:
        return ("dec", "D_" + m.group(1))
    m = re.fullmatch(r"without_decompression\(Self::(validate_as_\w+)\)", e)
    if m:
        return ("nodec", "V_" + m.group(1))
    if e == "without_decompression(|_| Ok(()))":
        return ("nodec", "V_ok")
    raise GenError(f"{MOD}: read: unknown handler expression {e!r}")


def component_types(repo, fn):
    for rel in HANDLER_FILES:
        src = strip_comments(strip_tests(read(repo, rel)))
        if re.search(r"\bfn\s+%s\b" % re.escape(fn), src):
            body = _fn_body(src, fn, rel)
            m = re.search(r"types\s*:\s*&\[(.*?)\]", body, re.S)
            if not m:
                raise GenError(f"{rel}: fn {fn}: no `types: &[...]`")
            items = [x.strip() for x in m.group(1).split(",") if x.strip()]
            out = []
            for it in items:
                if it == "ComponentType::CompressibleName":
                    out.append("CompressibleName")
                elif it == "ComponentType::UncompressibleName":
                    out.append("UncompressibleName")
                else:
                    mf = re.fullmatch(r"ComponentType::FixedLen\((\d+)\)", it)
                    if not mf:
                        raise GenError(f"{rel}: fn {fn}: unknown component type {it!r}")
                    out.append(f"FixedLen {int(mf.group(1))}")
            return out
    raise GenError(f"no fn {fn} in the rdata sources")


def h_components(repo, e):
    m = re.fullmatch(r"Components::(for_\w+)\(self\.octets\(\)\)", e)
    if m:
        return component_types(repo, m.group(1))
    m = re.fullmatch(r"self\.(components_as_\w+)\(\)", e)
    if m:
        return component_types(repo, m.group(1))
    raise GenError(f"{MOD}: components: unknown handler expression {e!r}")


def uniq(xs):
    out = []
    for x in xs:
        if x not in out:
            out.append(x)
    return out


def generate(repo):
    types = type_consts(repo, "src/rr/rr_type.rs", "Type")
    classes = type_consts(repo, "src/class.rs", "Class")
    tnum, cnum = dict(types), dict(classes)
    src = strip_comments(strip_tests(read(repo, MOD)))
    rd = impl_block(src, r"^impl\s+Rdata\s*\{", MOD)
    arms = {fn: match_arms(_fn_body(rd, fn, MOD), MOD, fn) for fn in ("equals", "validate", "read", "components")}

    def tys(ts):
        for t in ts:
            if t not in tnum:
                raise GenError(f"{MOD}: unknown Type::{t}")
        return "[" + "; ".join(f"TYPE_{t}" for t in ts) + "]"

    def guard(g):
        if g is None:
            return "None"
        if g not in cnum:
            raise GenError(f"{MOD}: unknown Class::{g}")
        return f"Some CLASS_{g}"

    eq = [(t, g, h_equals(e)) for t, g, e in arms["equals"]]
    va = [(t, g, h_validate(e)) for t, g, e in arms["validate"]]
    re_ = [(t, g, h_read(e)) for t, g, e in arms["read"]]
    co = [(t, g, h_components(repo, e)) for t, g, e in arms["components"]]

    vhs = uniq([h for _, _, h in va] + [h for _, _, (k, h) in re_ if k == "nodec"] + ["V_ok"])
    ehs = uniq([h for _, _, h in eq] + ["E_bitwise"])
    dhs = uniq([h for _, _, (k, h) in re_ if k == "dec"])

    L = ["From Coq Require Import NArith List.", "Import ListNotations.", "",
         "(* src/rr/rr_type.rs *)"]
    L += [f"Definition TYPE_{n} : N := {coq_N(v)}." for n, v in types]
    L += ["", "(* src/class.rs *)"]
    L += [f"Definition CLASS_{n} : N := {coq_N(v)}." for n, v in classes]
    L += ["", "(* handlers named in the dispatchers of src/rr/rdata/mod.rs *)",
          "Inductive vhandler := " + " | ".join(vhs) + ".",
          "Inductive ehandler := " + " | ".join(ehs) + ".",
          "Inductive dreader := " + " | ".join(dhs) + ".",
          "Inductive rhandler := R_dec (d : dreader) | R_nodec (v : vhandler).",
          "Inductive comp_type := CompressibleName | UncompressibleName | FixedLen (n : nat).",
          "",
          "(* one match arm: the TYPEs of the pattern, the `if class == Class::X` guard, the handler *)",
          "Definition arm (H : Type) : Type := (list N * option N * H)%type.", ""]

    def table(name, ty, rows, show):
        body = rows[:-1]
        L.append(f"Definition {name}_arms : list (arm {ty}) :=")
        L.append("  [ " + ";\n    ".join(f"({tys(t)}, {guard(g)}, {show(h)})" for t, g, h in body) + " ].")
        L.append(f"Definition {name}_default : {ty} := {show(rows[-1][2])}.")
        L.append("")

    table("equals", "ehandler", eq, lambda h: h)
    table("validate", "vhandler", va, lambda h: h)
    table("read", "rhandler", re_, lambda kh: ("R_dec " if kh[0] == "dec" else "R_nodec ") + kh[1])
    table("components", "(list comp_type)", co, lambda cs: "[" + "; ".join(cs) + "]")
    return "\n".join(L)
