"""Constant and mnemonic tables of Type / Class / Qtype / Qclass / Opcode / Rcode / ExtendedRcode (C17).

Everything the Coq model of the text/numeric conversions looks up is re-extracted here from the Rust
source: the `pub const` tables, the arms of every `FromStr` match (`Caseless("X") => Ok(Self::X)`, in the
plain or the guarded `t if t == Caseless("X")` form), the arms of every `Display` match, the generic
RFC 3597 prefix handling (`text.get(0..4)`, `eq_ignore_ascii_case("TYPE")`, `text[4..]`), the fall-through
format strings, the delegation of Qtype/Qclass to Type/Class, and the `value < 16` bounds of the TryFrom
conversions.  Every anchor that is not found raises GenError (reported by the check as a broken source tie).
"""
import re
from genlib import GenError, read, strip_tests, impl_block, parse_int, coq_N, coq_string, coq_list

OUT = "Gen/Codes.v"


def consts(block, rel, ty):
    """[(NAME, value)] for `pub const NAME: <ty|Self> = <ty|Self>(<int>);`"""
    out = [(n, parse_int(v)) for n, v in re.findall(
        r"pub\s+const\s+([A-Z0-9_]+)\s*:\s*(?:Self|%s)\s*=\s*(?:Self|%s)\(([^)]+)\)\s*;" % (ty, ty), block)]
    if not out:
        raise GenError(f"{rel}: no `pub const` items found in `impl {ty}`")
    names = [n for n, _ in out]
    if len(set(names)) != len(names):
        raise GenError(f"{rel}: duplicate constant names in `impl {ty}`")
    return out


def resolve(cs, name, rel):
    d = dict(cs)
    if name not in d:
        raise GenError(f"{rel}: match arm refers to unknown constant Self::{name}")
    return d[name]


def parse_arms(block, cs, rel, what):
    """FromStr arms, in source order: [(mnemonic, value)]."""
    arms = re.findall(r"Caseless\(\s*\"([^\"]*)\"\s*\)\s*=>\s*Ok\(\s*Self::([A-Z0-9_]+)\s*\)", block)
    if not arms:
        raise GenError(f"{rel}: no `Caseless(\"..\") => Ok(Self::..)` arms in FromStr for {what}")
    # every arm of the match must be one we understood (plus the final `_ =>` arm)
    n_arrows = len(re.findall(r"Caseless\(\s*\"", block))
    n_generic = len(re.findall(r"eq_ignore_ascii_case\(", block))
    if n_arrows != len(arms):
        raise GenError(f"{rel}: FromStr for {what} has {n_arrows} Caseless(..) patterns but {len(arms)} recognised arms")
    if not re.search(r"match\s+Caseless\(\s*text\s*\)", block):
        raise GenError(f"{rel}: FromStr for {what} no longer matches on Caseless(text)")
    out = [(m, resolve(cs, c, rel)) for m, c in arms]
    # The arms test string equality (ASCII case-insensitively): when the mnemonics are pairwise distinct they are
    # mutually exclusive and their order has no meaning, so they are emitted in one canonical order (by value);
    # otherwise the first match wins and the source order is kept.
    if len({m.lower() for m, _ in out}) == len(out):
        out.sort(key=lambda e: e[1])      # stable: equal values keep source order
    return out, n_generic


def display_arms(block, cs, rel, what):
    """Display arms `Self::X => f.write_str("..")` / `write!(f, "..")`, in source order: [(value, text)]."""
    arms = re.findall(r"Self::([A-Z0-9_]+)\s*=>\s*(?:f\.write_str\(\s*\"([^\"]*)\"\s*\)|write!\(\s*f\s*,\s*\"([^\"{}]*)\"\s*\))", block)
    n = len(re.findall(r"Self::[A-Z0-9_]+\s*=>", block))
    if not arms or n != len(arms):
        raise GenError(f"{rel}: Display for {what}: {n} `Self::X =>` arms but {len(arms)} recognised")
    out = [(resolve(cs, c, rel), a or b) for c, a, b in arms]
    if len({v for v, _ in out}) == len(out):      # arms for distinct values are mutually exclusive: canonical order
        out.sort(key=lambda e: e[0])
    return out


def fallthrough_fmt(block, rel, what):
    """`Self(value) => write!(f, "PREFIX{value}")` -> PREFIX"""
    m = re.findall(r"Self\(\s*value\s*\)\s*=>\s*write!\(\s*f\s*,\s*\"([^\"{}]*)\{value\}\"\s*\)", block)
    if len(m) != 1:
        raise GenError(f"{rel}: Display for {what}: expected one `Self(value) => write!(f, \"..{{value}}\")` arm")
    return m[0]


def generic(block, rel, what):
    """The RFC 3597 branch of FromStr: (get_len, prefix, skip)."""
    g = re.search(r"\.get\(\s*0\s*\.\.\s*(\d+)\s*\)\s*\.map_or\(\s*false\s*,\s*\|prefix\|\s*prefix\.eq_ignore_ascii_case\(\s*\"([^\"]*)\"\s*\)\s*\)", block)
    s = re.search(r"text\[\s*(\d+)\s*\.\.\s*\]\s*\.parse::<u16>\(\)", block)
    if not g or not s:
        raise GenError(f"{rel}: FromStr for {what}: generic TYPEnnn/CLASSnnn branch not recognised")
    return int(g.group(1)), g.group(2), int(s.group(1))


def bound(block, rel, what, var):
    m = re.findall(r"if\s+%s\s*<\s*(\d+)\s*\{\s*Ok\(" % re.escape(var), block)
    if len(m) != 1:
        raise GenError(f"{rel}: {what}: expected exactly one `if {var} < N {{ Ok(..` test")
    return int(m[0])


def need(block, regex, rel, what):
    if not re.search(regex, block):
        raise GenError(f"{rel}: {what}: anchor /{regex}/ not found")


# Tables are emitted twice: `<name>_src` with readable string literals, and `<name>` = the same table with the
# strings turned into octet lists by `Eval compute` (so that the extracted model never mentions Coq's String module,
# which would shadow OCaml's).
def d_str_N(name, items):
    return (f"Definition {name}_src : list (string * N) := " + coq_list([f"({coq_string(s)}, {coq_N(v)})" for s, v in items]) + ".\n"
            f"Definition {name} : list (list N * N) := Eval compute in gen_tab_sn {name}_src.")


def d_N_str(name, items):
    return (f"Definition {name}_src : list (N * string) := " + coq_list([f"({coq_N(v)}, {coq_string(s)})" for v, s in items]) + ".\n"
            f"Definition {name} : list (N * list N) := Eval compute in gen_tab_ns {name}_src.")


def d_str(name, s):
    return (f"Definition {name}_src : string := {coq_string(s)}.\n"
            f"Definition {name} : list N := Eval compute in gen_s2b {name}_src.")


def code16(lines, repo, rel, ty, low, delegate=None):
    """Type / Class (delegate None) or Qtype / Qclass (delegating to Type / Class)."""
    src = strip_tests(read(repo, rel))
    cs = consts(impl_block(src, r"^impl\s+%s\s*\{" % ty, rel), rel, ty)
    fs = impl_block(src, r"^impl\s+FromStr\s+for\s+%s\s*\{" % ty, rel)
    dp = impl_block(src, r"^impl\s+fmt::Display\s+for\s+%s\s*\{" % ty, rel)
    lines.append(f"(* {rel}: {ty} *)")
    lines.append(d_str_N(f"{low}_consts", cs))
    parms, n_generic = parse_arms(fs, cs, rel, ty)
    lines.append(d_str_N(f"{low}_parse_arms", parms))
    lines.append(d_N_str(f"{low}_display_arms", display_arms(dp, cs, rel, ty)))
    if delegate is None:
        if n_generic != 1:
            raise GenError(f"{rel}: FromStr for {ty}: expected one eq_ignore_ascii_case branch")
        get_len, prefix, skip = generic(fs, rel, ty)
        lines.append(f"Definition {low}_generic_get : N := {coq_N(get_len)}.")
        lines.append(d_str(f"{low}_generic_prefix", prefix))
        lines.append(f"Definition {low}_generic_skip : N := {coq_N(skip)}.")
        lines.append(d_str(f"{low}_display_prefix", fallthrough_fmt(dp, rel, ty)))
    else:
        need(fs, r"_\s*=>\s*%s::from_str\(\s*text\s*\)\.map\(\s*Into::into\s*\)" % delegate, rel, f"FromStr for {ty}")
        need(dp, r"_\s*=>\s*%s::from\(\s*\*self\s*\)\.fmt\(\s*f\s*\)" % delegate, rel, f"Display for {ty}")
        if n_generic != 0:
            raise GenError(f"{rel}: FromStr for {ty}: unexpected generic branch")
    lines.append("")


def generate(repo):
    lines = ["From Coq Require Import NArith List String Ascii.", "Import ListNotations.", "Open Scope string_scope.", "",
             "Fixpoint gen_s2b (s : string) : list N :=",
             "  match s with EmptyString => [] | String c r => N_of_ascii c :: gen_s2b r end.",
             "Definition gen_tab_sn (l : list (string * N)) : list (list N * N) := map (fun e => (gen_s2b (fst e), snd e)) l.",
             "Definition gen_tab_ns (l : list (N * string)) : list (N * list N) := map (fun e => (fst e, gen_s2b (snd e))) l.", ""]
    code16(lines, repo, "src/rr/rr_type.rs", "Type", "type")
    code16(lines, repo, "src/class.rs", "Class", "class")
    code16(lines, repo, "src/message/question.rs", "Qtype", "qtype", delegate="Type")
    code16(lines, repo, "src/message/question.rs", "Qclass", "qclass", delegate="Class")

    rel = "src/message/opcode.rs"
    src = strip_tests(read(repo, rel))
    cs = consts(impl_block(src, r"^impl\s+Opcode\s*\{", rel), rel, "Opcode")
    dp = impl_block(src, r"^impl\s+fmt::Display\s+for\s+Opcode\s*\{", rel)
    tf = impl_block(src, r"^impl\s+TryFrom<u8>\s+for\s+Opcode\s*\{", rel)
    lines.append(f"(* {rel} *)")
    lines.append(d_str_N("opcode_consts", cs))
    lines.append(d_N_str("opcode_display_arms", display_arms(dp, cs, rel, "Opcode")))
    lines.append(d_str("opcode_display_prefix", fallthrough_fmt(dp, rel, "Opcode")))
    lines.append(f"Definition opcode_bound : N := {coq_N(bound(tf, rel, 'TryFrom<u8> for Opcode', 'value'))}.")
    lines.append("")

    rel = "src/message/rcode.rs"
    src = strip_tests(read(repo, rel))
    cs = consts(impl_block(src, r"^impl\s+Rcode\s*\{", rel), rel, "Rcode")
    dp = impl_block(src, r"^impl\s+fmt::Display\s+for\s+Rcode\s*\{", rel)
    tf = impl_block(src, r"^impl\s+TryFrom<u8>\s+for\s+Rcode\s*\{", rel)
    tfe = impl_block(src, r"^impl\s+TryFrom<ExtendedRcode>\s+for\s+Rcode\s*\{", rel)
    lines.append(f"(* {rel} *)")
    lines.append(d_str_N("rcode_consts", cs))
    lines.append(d_N_str("rcode_display_arms", display_arms(dp, cs, rel, "Rcode")))
    lines.append(d_str("rcode_display_prefix", fallthrough_fmt(dp, rel, "Rcode")))
    lines.append(f"Definition rcode_bound : N := {coq_N(bound(tf, rel, 'TryFrom<u8> for Rcode', 'value'))}.")
    lines.append(f"Definition rcode_ext_bound : N := {coq_N(bound(tfe, rel, 'TryFrom<ExtendedRcode> for Rcode', 'value.0'))}.")
    need(tfe, r"Ok\(\s*Self\(\s*value\.0\s+as\s+u8\s*\)\s*\)", rel, "TryFrom<ExtendedRcode> for Rcode")
    ecs = consts(impl_block(src, r"^impl\s+ExtendedRcode\s*\{", rel), rel, "ExtendedRcode")
    edp = impl_block(src, r"^impl\s+fmt::Display\s+for\s+ExtendedRcode\s*\{", rel)
    need(edp, r"if\s+let\s+Ok\(\s*unextended_rcode\s*\)\s*=\s*Rcode::try_from\(\s*\*self\s*\)\s*\{\s*unextended_rcode\.fmt\(\s*f\s*\)", rel,
         "Display for ExtendedRcode")
    lines.append(d_str_N("ercode_consts", ecs))
    lines.append(d_N_str("ercode_display_arms", display_arms(edp, ecs, rel, "ExtendedRcode")))
    lines.append(d_str("ercode_display_prefix", fallthrough_fmt(edp, rel, "ExtendedRcode")))
    lines.append("")
    return "\n".join(lines)
