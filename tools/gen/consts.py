"""Scalar constants used by the models (names, header layout, writer, server)."""
from genlib import scalar, coq_N
OUT = "Gen/Consts.v"

SCALARS = [
    ("src/name/mod.rs", ["MAX_N_LABELS", "MAX_WIRE_LEN", "MAX_LABEL_LEN"]),
    ("src/message/constants.rs", [
        "HEADER_SIZE", "ID_START", "ID_END", "QR_BYTE", "QR_MASK", "OPCODE_BYTE", "OPCODE_MASK",
        "OPCODE_SHIFT", "AA_BYTE", "AA_MASK", "TC_BYTE", "TC_MASK", "RD_BYTE", "RD_MASK",
        "RA_BYTE", "RA_MASK", "RCODE_BYTE", "RCODE_MASK", "QDCOUNT_START", "QDCOUNT_END",
        "ANCOUNT_START", "ANCOUNT_END", "NSCOUNT_START", "NSCOUNT_END", "ARCOUNT_START",
        "ARCOUNT_END", "POINTER_MAX"]),
    ("src/message/writer.rs", ["OPT_RECORD_SIZE", "HINT_POINTER_VEC_SIZE"]),
    ("src/server/mod.rs", ["TSIG_FUDGE"]),
    ("src/server/query.rs", ["MAX_CNAME_CHAIN_LEN"]),
    ("src/zone_file/directive.rs", ["INCLUDE_PATH_MAX"]),
    ("src/zone_file/reader.rs", ["MAX_READ_FIELD_SIZE"]),
]

def generate(repo):
    lines = ["From Coq Require Import NArith.", ""]
    for rel, names in SCALARS:
        lines.append(f"(* {rel} *)")
        for n in names:
            lines.append(f"Definition {n} : N := {coq_N(scalar(repo, rel, n))}.")
        lines.append("")
    return "\n".join(lines)
