"""TSIG constants re-extracted from the Rust source (src/message/tsig.rs, src/rr/rr_type.rs,
src/message/question.rs, src/message/rcode.rs): algorithm names (as wire octets), the TSIG
type code, QCLASS ANY, the RCODE / extended RCODE numbers the TSIG paths use, the literals of
check_mac_size and the unsigned-length formula."""
import re
from genlib import read, strip_tests, parse_int, coq_N, coq_list, GenError, impl_block, self_consts
OUT = "Gen/TsigConsts.v"


def name_wire(text):
    """wire octets of an absolute ASCII name written in presentation form without escapes"""
    if not text.endswith("."):
        raise GenError(f"algorithm name {text!r} is not absolute")
    out = []
    for lab in text[:-1].split("."):
        if not lab or len(lab) > 63 or "\\" in lab:
            raise GenError(f"unsupported label in {text!r}")
        out.append(len(lab))
        out += [ord(c) for c in lab]
    out.append(0)
    return out


def one(src, rx, rel, what):
    ms = re.findall(rx, src, re.M)
    if len(ms) != 1:
        raise GenError(f"{rel}: expected exactly one {what}, found {len(ms)}")
    return ms[0]


def generate(repo):
    rel = "src/message/tsig.rs"
    src = strip_tests(read(repo, rel))
    lines = ["From Coq Require Import NArith List.", "Import ListNotations.", "", f"(* {rel} *)"]
    for const in ("HMAC_SHA1_NAME", "HMAC_SHA256_NAME"):
        s = one(src, r"static\s+ref\s+%s\s*:\s*Box<LowercaseName>\s*=\s*\"([^\"]+)\"\.parse\(\)\.unwrap\(\);" % const,
                rel, f"`static ref {const}`")
        if s != s.lower():
            raise GenError(f"{rel}: {const} is not lower case")
        lines.append(f"Definition {const}_WIRE : list N := {coq_list([coq_N(x) for x in name_wire(s)])}.")
    # ALGORITHMS_BY_NAME must map exactly those two names to the two variants
    m = re.search(r"ALGORITHMS_BY_NAME[^=]*=\s*HashMap::from\(\[(.*?)\]\);", src, re.S)
    if not m:
        raise GenError(f"{rel}: ALGORITHMS_BY_NAME table not found")
    pairs = re.findall(r"\(\s*(\w+)\.as_ref\(\)\s*,\s*Algorithm::(\w+)\s*\)", m.group(1))
    if pairs != [("HMAC_SHA1_NAME", "HmacSha1"), ("HMAC_SHA256_NAME", "HmacSha256")]:
        raise GenError(f"{rel}: ALGORITHMS_BY_NAME is not the expected two-entry table: {pairs}")
    # fn name(): HmacSha1 => &HMAC_SHA1_NAME, HmacSha256 => &HMAC_SHA256_NAME
    blk = impl_block(src, r"^impl Algorithm \{", rel)
    for v, c in (("HmacSha1", "HMAC_SHA1_NAME"), ("HmacSha256", "HMAC_SHA256_NAME")):
        if not re.search(r"Self::%s\s*=>\s*&%s\s*," % (v, c), blk):
            raise GenError(f"{rel}: Algorithm::name no longer maps {v} to {c}")
    for v, d in (("HmacSha1", "Sha1"), ("HmacSha256", "Sha256")):
        if not re.search(r"Self::%s\s*=>\s*Hmac::<%s>::output_size\(\)" % (v, d), blk):
            raise GenError(f"{rel}: Algorithm::output_size no longer maps {v} to Hmac<{d}>")
        if not re.search(r"Algorithm::%s\s*=>\s*Box::new\(Hmac::<%s>::new_from_slice" % (v, d), blk):
            raise GenError(f"{rel}: make_authenticator no longer maps {v} to Hmac<{d}>")
    # digest sizes are those of the hash functions (FIPS 180-4); the crates are not part of the tree
    lines.append("Definition SHA1_OUTPUT_SIZE : N := 20%N.   (* Hmac::<Sha1>::output_size(), FIPS 180-4 *)")
    lines.append("Definition SHA256_OUTPUT_SIZE : N := 32%N. (* Hmac::<Sha256>::output_size(), FIPS 180-4 *)")
    # add_tsig_variables: the class/TTL literal
    lit = one(src, r"authenticator\.update\(b\"((?:\\x[0-9a-fA-F]{2})+)\"\);", rel, "byte-string literal in add_tsig_variables")
    octs = [int(h, 16) for h in re.findall(r"\\x([0-9a-fA-F]{2})", lit)]
    lines.append(f"Definition TSIG_VARS_CLASS_TTL : list N := {coq_list([coq_N(x) for x in octs])}.")
    # check_mac_size: `mac_size < 10.max(half_output_size)`
    mn = one(src, r"mac_size\s*<\s*([0-9]+)\.max\(half_output_size\)", rel, "`N.max(half_output_size)` in check_mac_size")
    lines.append(f"Definition TSIG_MIN_MAC_SIZE : N := {coq_N(parse_int(mn))}.")
    # unsigned_len: `+ 26`, BADTIME `+= 6`
    ul = one(src, r"algorithm\.wire_repr\(\)\.len\(\)\s*\+\s*([0-9]+);", rel, "constant of unsigned_len")
    lines.append(f"Definition TSIG_UNSIGNED_FIXED_LEN : N := {coq_N(parse_int(ul))}.")
    ub = one(src, r"if self\.error == ExtendedRcode::BADTIME \{\s*len \+= ([0-9]+);", rel, "BADTIME increment of unsigned_len")
    lines.append(f"Definition TSIG_BADTIME_OTHER_LEN : N := {coq_N(parse_int(ub))}.")
    lines.append("")

    rel = "src/rr/rdata/tsig.rs"
    src2 = strip_tests(read(repo, rel))
    rl = one(src2, r"\(algorithm\.wire_repr\(\)\.len\(\)\s*\+\s*([0-9]+)\)", rel, "constant of required_len")
    lines += [f"(* {rel} *)", f"Definition TSIG_RDATA_FIXED_LEN : N := {coq_N(parse_int(rl))}.", ""]

    rel = "src/rr/rr_type.rs"
    t = one(strip_tests(read(repo, rel)), r"pub\s+const\s+TSIG\s*:\s*Type\s*=\s*Type\(([0-9]+)\)\s*;", rel, "`const TSIG`")
    lines += [f"(* {rel} *)", f"Definition TYPE_TSIG : N := {coq_N(parse_int(t))}.", ""]
    o = one(strip_tests(read(repo, rel)), r"pub\s+const\s+OPT\s*:\s*Type\s*=\s*Type\(([0-9]+)\)\s*;", rel, "`const OPT`")
    lines += [f"Definition TYPE_OPT : N := {coq_N(parse_int(o))}.", ""]

    rel = "src/message/question.rs"
    q = strip_tests(read(repo, rel))
    blk = impl_block(q, r"^impl Qclass \{", rel)
    d = dict(self_consts(blk))
    if "ANY" not in d:
        raise GenError(f"{rel}: Qclass::ANY not found")
    lines += [f"(* {rel} *)", f"Definition QCLASS_ANY : N := {coq_N(d['ANY'])}.", ""]

    rel = "src/message/rcode.rs"
    r = strip_tests(read(repo, rel))
    blk = impl_block(r, r"^impl ExtendedRcode \{", rel)
    d = dict(self_consts(blk))
    lines.append(f"(* {rel} *)")
    for n in ("NOERROR", "FORMERR", "SERVFAIL", "NOTIMP", "REFUSED", "NOTAUTH", "BADVERSBADSIG", "BADKEY", "BADTIME"):
        if n not in d:
            raise GenError(f"{rel}: ExtendedRcode::{n} not found")
        lines.append(f"Definition XRCODE_{n} : N := {coq_N(d[n])}.")
    lines.append("")
    return "\n".join(lines)
