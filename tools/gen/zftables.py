"""Tables of the zone-file parser re-extracted from the Rust source: RR TYPE / CLASS constants,
the mnemonic tables of Type::from_str / Class::from_str (in match order), whether those matches
compare case-insensitively, and the type sets of parse_type / parse_rdata (src/zone_file/record.rs)."""
import re
from genlib import read, strip_tests, impl_block, parse_int, coq_N, coq_list, GenError
OUT = "Gen/ZfTables.v"


def bytes_lit(s):
    return coq_list([coq_N(b) for b in s.encode()])


def consts_of(src, tyname, rel):
    blk = impl_block(src, r"^impl\s+%s\s*\{" % tyname, rel)
    cs = re.findall(r"pub\s+const\s+([A-Z0-9_]+)\s*:\s*(?:Self|%s)\s*=\s*(?:Self|%s)\(([^)]+)\)\s*;" % (tyname, tyname), blk)
    if not cs:
        raise GenError(f"{rel}: no constants in impl {tyname}")
    return [(n, parse_int(v)) for n, v in cs]


def from_str_table(src, tyname, rel):
    """[(mnemonic, CONST)] in match order + whether the comparison is ASCII-case-insensitive.
    `match Caseless(text) { Caseless("IN") => ..}` destructures the wrapper and compares the inner
    &str with the literal, i.e. case-SENSITIVELY (the PartialEq impl of Caseless is not used by
    patterns); guards/ifs using eq_ignore_ascii_case (or `== Caseless(..)`) are case-insensitive."""
    blk = impl_block(src, r"^impl\s+FromStr\s+for\s+%s\s*\{" % tyname, rel)
    arms = re.findall(r'"([A-Za-z0-9*]+)"\s*\)+\s*(?:=>|\{)\s*(?:return\s+)?Ok\(Self::([A-Z0-9_]+)\)', blk)
    if not arms:
        raise GenError(f"{rel}: cannot find the mnemonic arms of {tyname}::from_str")
    pat_form = len(re.findall(r'^\s*Caseless\("[^"]+"\)\s*=>', blk, re.M))
    if pat_form == len(arms):
        caseless = False
    elif pat_form == 0 and ("eq_ignore_ascii_case" in blk.split("_ =>")[0] or "== Caseless(" in blk):
        caseless = True
    else:
        raise GenError(f"{rel}: {tyname}::from_str mixes pattern arms and guards; cannot classify")
    m = re.search(r'\.get\(0\.\.(\d+)\)', blk)
    m2 = re.search(r'eq_ignore_ascii_case\("([A-Z]+)"\)\)\s*\{', blk) or re.search(r'prefix\.eq_ignore_ascii_case\("([A-Z]+)"\)', blk)
    if not m or not m2 or int(m.group(1)) != len(m2.group(1)):
        raise GenError(f"{rel}: cannot find the RFC 3597 prefix of {tyname}::from_str")
    if f"text[{m.group(1)}..]" not in blk or "parse::<u16>()" not in blk:
        raise GenError(f"{rel}: RFC 3597 numeric suffix of {tyname}::from_str changed")
    return arms, caseless, m2.group(1)


def generate(repo):
    out = ["From Coq Require Import NArith List.", "Import ListNotations.", ""]
    for rel, ty, low in (("src/rr/rr_type.rs", "Type", "type"), ("src/class.rs", "Class", "class")):
        src = strip_tests(read(repo, rel))
        consts = consts_of(src, ty, rel)
        cd = dict(consts)
        out.append(f"(* {rel} *)")
        for n, v in consts:
            out.append(f"Definition {ty.upper()}_{n} : N := {coq_N(v)}.")
        arms, caseless, prefix = from_str_table(src, ty, rel)
        for mn, c in arms:
            if c not in cd:
                raise GenError(f"{rel}: from_str arm {mn} -> Self::{c} has no constant")
        # mutually exclusive arms (pairwise distinct mnemonics, also ignoring case): canonical order, by value
        if len({mn.lower() for mn, _ in arms}) == len(arms):
            arms = sorted(arms, key=lambda e: cd[e[1]])
        out.append(f"Definition {low}_mnemonics : list (list N * N) :=")
        out.append("  [" + ";\n   ".join(f"({bytes_lit(mn)}, {ty.upper()}_{c}) (* {mn} *)" for mn, c in arms) + "].")
        out.append(f"Definition {low}_mnemonics_caseless : bool := {'true' if caseless else 'false'}.")
        out.append(f"Definition {low}_prefix : list N := {bytes_lit(prefix)}. (* {prefix} *)")
        out.append("")
    # parse_type: which types are refused
    rel = "src/zone_file/record.rs"
    src = strip_tests(read(repo, rel))
    m = re.search(r"fn parse_type\(.*?\n    \}\n", src, re.S)
    if not m:
        raise GenError(f"{rel}: parse_type not found")
    refused = re.findall(r"Type::([A-Z]+)\s*=>\s*Err\(Error::new\(position,\s*ErrorKind::(\w+)\)\)", m.group(0))
    if not refused:
        raise GenError(f"{rel}: parse_type refuses no type")
    out.append(f"(* {rel}: parse_type *)")
    out.append("Definition refused_types : list N := " + coq_list([f"TYPE_{t}" for t, _ in refused]) + ".")
    out.append(f"(* refusal error kinds: {', '.join(t + '->' + k for t, k in refused)} *)")
    m = re.search(r"fn parse_rdata\(.*?\n    \}\n", src, re.S)
    if not m:
        raise GenError(f"{rel}: parse_rdata not found")
    body = m.group(0)
    m2 = re.search(r"match rr_type \{\s*((?:\|?\s*Type::[A-Z]+\s*)+)=>\s*self\.parse_name_rdata\(\)", body)
    if not m2:
        raise GenError(f"{rel}: name-RDATA arm of parse_rdata not found")
    out.append("Definition name_rdata_types : list N := " +
               coq_list([f"TYPE_{t}" for t in re.findall(r"Type::([A-Z]+)", m2.group(1))]) + ".")
    arms = re.findall(r"Type::([A-Z]+)(?:\s+if class == Class::([A-Z]+))?\s*=>\s*self\.(parse_\w+)\(\)", body)
    out.append("(* parse_rdata dispatch (type, class guard, parser): " +
               "; ".join(f"{t}/{c or '*'}->{p}" for t, c, p in arms) + " *)")
    out.append("Definition rdata_dispatch : list (N * option N) :=")
    out.append("  [" + ";\n   ".join(
        f"(TYPE_{t}, {('Some CLASS_' + c) if c else 'None'}) (* {p} *)" for t, c, p in arms) + "].")
    # Rdata::validate dispatch (src/rr/rdata/mod.rs)
    rel = "src/rr/rdata/mod.rs"
    src = strip_tests(read(repo, rel))
    m = re.search(r"pub fn validate\(&self.*?\n    \}\n", src, re.S)
    if not m:
        raise GenError(f"{rel}: Rdata::validate not found")
    body = m.group(0)
    m2 = re.search(r"match rr_type \{\s*((?:\|?\s*Type::[A-Z]+\s*)+)=>\s*helpers::validate_name", body)
    if not m2:
        raise GenError(f"{rel}: name arm of Rdata::validate not found")
    out.append("")
    out.append(f"(* {rel}: Rdata::validate *)")
    out.append("Definition validate_name_types : list N := " +
               coq_list([f"TYPE_{t}" for t in re.findall(r"Type::([A-Z]+)", m2.group(1))]) + ".")
    arms = re.findall(r"Type::([A-Z]+)(?:\s+if class == Class::([A-Z]+))?\s*=>\s*self\.(validate_as_\w+)\(\)", body)
    out.append("Definition validate_dispatch : list (N * option N) :=")
    out.append("  [" + ";\n   ".join(
        f"(TYPE_{t}, {('Some CLASS_' + c) if c else 'None'}) (* {p} *)" for t, c, p in arms) + "].")
    out.append("")
    return "\n".join(out)
