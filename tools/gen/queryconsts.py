"""Constants and small tables of src/server/query.rs used by the query-answering model (C05/C04/C02):
MAX_CNAME_CHAIN_LEN, the capacity expression of PreviousOwners, the RR types that trigger additional-section
processing together with the offset of the embedded name (the `match rr_type` of
do_additional_section_processing), the classes for which it runs, and the offset used by read_soa_minimum."""
import re
from genlib import read, strip_tests, parse_int, coq_N, GenError, scalar
OUT = "Gen/QueryConsts.v"
REL = "src/server/query.rs"


def type_const(src, n):
    ms = re.findall(r"pub\s+const\s+%s\s*:\s*(?:Type|Self)\s*=\s*(?:Type|Self)\(([^)]+)\)\s*;" % n, src)
    if len(ms) != 1:
        raise GenError(f"src/rr/rr_type.rs: expected exactly one `const {n}`, found {len(ms)}")
    return parse_int(ms[0])


def fn_body(src, name):
    m = re.search(r"^fn\s+%s\b" % re.escape(name), src, re.M)
    if not m:
        raise GenError(f"{REL}: fn {name} not found")
    i = src.index("{", m.end())
    # the signature may contain `{ MAX_CNAME_CHAIN_LEN - 1 }`-like braces only in type aliases, not in fn headers
    depth = 0
    for j in range(i, len(src)):
        if src[j] == "{":
            depth += 1
        elif src[j] == "}":
            depth -= 1
            if depth == 0:
                return src[i:j + 1]
    raise GenError(f"{REL}: unbalanced braces in fn {name}")


def generate(repo):
    src = strip_tests(read(repo, REL))
    tsrc = strip_tests(read(repo, "src/rr/rr_type.rs"))
    csrc = strip_tests(read(repo, "src/class.rs"))
    lines = ["From Coq Require Import NArith List.", "Import ListNotations.", "", f"(* {REL} *)"]
    chain = scalar(repo, REL, "MAX_CNAME_CHAIN_LEN")
    lines.append(f"Definition MAX_CNAME_CHAIN_LEN : nat := {chain}.")
    m = re.search(r"type\s+PreviousOwners\s*=\s*ArrayVec<\s*Box<Name>\s*,\s*\{\s*MAX_CNAME_CHAIN_LEN\s*-\s*(\d+)\s*\}\s*>\s*;", src)
    if not m:
        raise GenError(f"{REL}: type PreviousOwners = ArrayVec<Box<Name>, {{ MAX_CNAME_CHAIN_LEN - k }}> not found")
    lines.append(f"Definition PREVIOUS_OWNERS_CAP : nat := {chain - int(m.group(1))}.")

    body = fn_body(src, "do_additional_section_processing")
    # class guard: `if class != Class::IN && class != Class::CH {` ... `return Ok(());`
    g = re.search(r"if\s+((?:class\s*!=\s*Class::[A-Z]+\s*(?:&&\s*)?)+)\{\s*(?://[^\n]*\n\s*)*return\s+Ok\(\(\)\);", body)
    if not g:
        raise GenError(f"{REL}: class guard of do_additional_section_processing not recognised")
    classes = re.findall(r"Class::([A-Z]+)", g.group(1))
    cvals = []
    for cn in classes:
        ms = re.findall(r"pub\s+const\s+%s\s*:\s*Self\s*=\s*Self\(([^)]+)\)\s*;" % cn, csrc)
        if len(ms) != 1:
            raise GenError(f"src/class.rs: expected exactly one `const {cn}`")
        cvals.append(parse_int(ms[0]))
    lines.append("(* classes for which additional-section processing runs *)")
    lines.append("Definition ADDITIONAL_CLASSES : list N := [" + "; ".join(coq_N(c) for c in cvals) + "].")
    # arms: `Type::A | Type::B => { for ... read_name_from_rdata(rdata, K)? ...}` and the final `_ => ()`
    mm = re.search(r"match\s+rr_type\s*\{", body)
    if not mm:
        raise GenError(f"{REL}: match rr_type not found in do_additional_section_processing")
    mbody = body[mm.end():]
    arms = re.findall(r"((?:Type::[A-Z0-9]+\s*\|?\s*)+)=>\s*\{(.*?)\n        \}", mbody, re.S)
    if not arms:
        raise GenError(f"{REL}: no arms recognised in do_additional_section_processing")
    table = []
    for pats, arm in arms:
        offs = re.findall(r"read_name_from_rdata\(rdata,\s*(\d+)\)\?", arm)
        if len(offs) != 1 or "execute_allowing_truncation" not in arm or "add_additional_addresses(zone, hinted_name, false, response)" not in arm:
            raise GenError(f"{REL}: unrecognised arm body for {pats.strip()}")
        for t in re.findall(r"Type::([A-Z0-9]+)", pats):
            table.append((t, type_const(tsrc, t), int(offs[0])))
    if not re.search(r"_\s*=>\s*\(\)", mbody):
        raise GenError(f"{REL}: default arm `_ => ()` of do_additional_section_processing not found")
    lines.append("(* do_additional_section_processing: (type, offset of the embedded name in the RDATA) *)")
    lines.append("Definition ADDITIONAL_TABLE : list (N * nat) := [" +
                 "; ".join(f"({coq_N(v)}, {o}) (* {t} *)" for t, v, o in table) + "].")
    for n in ["SRV", "MB", "MD", "MF"]:
        lines.append(f"Definition TYPE_{n} : N := {coq_N(type_const(tsrc, n))}.")

    sb = fn_body(src, "read_soa_minimum")
    m = re.search(r"\.get\(mname_len\s*\+\s*rname_len\s*\+\s*(\d+)\.\.\)", sb)
    if not m or "u32::from_be_bytes" not in sb:
        raise GenError(f"{REL}: read_soa_minimum not recognised")
    lines.append(f"Definition SOA_MINIMUM_OFFSET : nat := {int(m.group(1))}.")
    return "\n".join(lines) + "\n"
