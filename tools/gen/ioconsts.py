"""Constants and structural sentinels of the I/O providers (src/io/blocking.rs, src/io/tokio.rs, src/io/mod.rs)
used by Model/Framing.v (C30).  Everything is line-anchored: if one of the two copies of the TCP loop changes
its buffer sizes, its framing arithmetic or its leftover handling, generation fails or the constant changes and
the proofs that pin it (`*_val` lemmas) break."""
import re
from genlib import read, strip_tests, GenError, coq_N, advise
OUT = "Gen/IoConsts.v"

BUF = r"let\s+mut\s+%s\s*=\s*vec!\[0;\s*([^\]]+)\];"


def buf_len(src, rel, fn_header, var):
    i = src.find(fn_header)
    if i < 0:
        raise GenError(f"{rel}: no `{fn_header}`")
    body = src[i:i + 6000]
    m = re.search(BUF % var, body)
    if not m:
        raise GenError(f"{rel}: no `let mut {var} = vec![0; …]` in {fn_header}")
    e = " ".join(m.group(1).split())
    if e == "2 + u16::MAX as usize":
        return 2 + 65535
    if e == "u16::MAX as usize":
        return 65535
    if e == "udp_payload_size":
        return None
    raise GenError(f"{rel}: unrecognised buffer size expression `{e}` for {var}")


def count(src, rel, needle, expect):
    """Shape sentinel of the framing loop.  ADVISORY: the framing behaviour itself is decided by the socket-level
    correspondence run (every segmentation of the same octets must give the same responses), so a loop that was
    merely rewritten must not break the source tie; a sentinel that is no longer recognised is reported in the
    evidence (`source_tie_advisories`) and the run goes on."""
    n = len(re.findall(needle, src))
    if n != expect:
        advise(f"{rel}: shape sentinel /{needle}/ expected {expect}x, found {n}x (framing loop rewritten? decided by the socket run)")
    return n


def generate(repo):
    out = ["From Coq Require Import NArith.", ""]
    for rel, tag in (("src/io/blocking.rs", "BLOCKING"), ("src/io/tokio.rs", "TOKIO")):
        src = strip_tests(read(repo, rel))
        hdr = "fn handle_tcp_connection<C>("
        out.append(f"(* {rel} *)")
        out.append(f"Definition TCP_RECV_BUF_LEN_{tag} : N := {coq_N(buf_len(src, rel, hdr, 'received_buf'))}.")
        out.append(f"Definition TCP_RESP_BUF_LEN_{tag} : N := {coq_N(buf_len(src, rel, hdr, 'response_buf'))}.")
        udp_hdr = "fn run_udp_worker<C>(" if tag == "BLOCKING" else "fn run_udp_receiver<C>("
        for var in ("received_buf", "response_buf"):
            if buf_len(src, rel, udp_hdr, var) is not None:
                raise GenError(f"{rel}: UDP {var} is no longer `udp_payload_size` octets")
        count(src, rel, r"let\s+udp_payload_size\s*=\s*server\.edns_udp_payload_size\(\)\s+as\s+usize;", 1)
        # sentinels of the framing automaton (one copy per provider); a structural edit must be re-modelled
        count(src, rel, r"n_read\s*>=\s*received_len\s*\+\s*2", 2)
        count(src, rel, r"n_read\s*>=\s*2\b", 1)
        count(src, rel, r"u16::from_be_bytes\(\[(?:received_buf|buf)\[0\],\s*(?:received_buf|buf)\[1\]\]\)\s+as\s+usize", 1)
        count(src, rel, r"if\s+n_read\s*>\s*received_len\s*\+\s*2\s*\{", 1)
        count(src, rel, r"received_buf\.copy_within\(received_len\s*\+\s*2\.\.n_read,\s*0\);", 1)
        count(src, rel, r"n_read\s*-=\s*received_len\s*\+\s*2;", 1)
        count(src, rel, r"&received_buf\[2\.\.received_len\s*\+\s*2\]", 1)
        count(src, rel, r"response_buf\[0\.\.2\]\.copy_from_slice\(&u16::to_be_bytes\(response_len\s+as\s+u16\)\);", 1)
        count(src, rel, r"&response_buf\[0\.\.2\s*\+\s*response_len\]", 1)
        # a response-less request ends the connection through the draining close (never a bare drop of the socket);
        # emitted as a constant (pinned to 1 in Props/C30.v) so that the unfixed tree breaks only C30's proofs
        drains = (len(re.findall(r"Response::None\s*=>\s*return\s+close_after_draining\(&mut socket, &mut received_buf\)", src)) == 1
                  and len(re.findall(r"Response::None\s*=>\s*return\s+Ok\(\(\)\)", src)) == 0
                  and len(re.findall(r"fn close_after_draining\(socket: &mut TcpStream, scratch_buf: &mut \[u8\]\)", src)) == 1
                  and len(re.findall(r"socket\.shutdown\((?:Shutdown::Write)?\)", src)) == 1)
        out.append(f"Definition TCP_CLOSE_AFTER_NONE_DRAINS_{tag} : N := {coq_N(1 if drains else 0)}.")
        count(src, rel, r"if\s+n_read_this_time\s*==\s*0\s*\{", 1)
        out.append("")
    src = read(repo, "src/io/mod.rs")
    m = re.findall(r"const\s+READ_MESSAGE_TIMEOUT\s*:\s*Duration\s*=\s*Duration::from_secs\((\d+)\);", src)
    if len(m) != 1:
        raise GenError("src/io/mod.rs: READ_MESSAGE_TIMEOUT is not `Duration::from_secs(<int>)`")
    out.append("(* src/io/mod.rs *)")
    out.append(f"Definition READ_MESSAGE_TIMEOUT_SECS : N := {coq_N(int(m[0]))}.")
    out.append("")
    src = strip_tests(read(repo, "src/server/mod.rs"))
    m = re.findall(r"pub fn new\(catalog: Arc<C>\) -> Self \{\s*Self \{[^}]*?edns_udp_payload_size:\s*(\d+),", src, re.S)
    if len(m) != 1:
        raise GenError("src/server/mod.rs: Server::new no longer sets edns_udp_payload_size to a literal")
    out.append("(* src/server/mod.rs: Server::new *)")
    out.append(f"Definition DEFAULT_EDNS_UDP_PAYLOAD_SIZE : N := {coq_N(int(m[0]))}.")
    out.append("")
    return "\n".join(out)
