"""RR type / class numbers and the asterisk label used by the zone-store model (C06/C20/C21)."""
import re
from genlib import read, strip_tests, parse_int, coq_N, GenError
OUT = "Gen/ZoneConsts.v"

TYPES = ["A", "NS", "CNAME", "SOA", "MX", "AAAA"]

def type_const(src, n):
    ms = re.findall(r"pub\s+const\s+%s\s*:\s*(?:Type|Self)\s*=\s*(?:Type|Self)\(([^)]+)\)\s*;" % n, src)
    if len(ms) != 1:
        raise GenError(f"src/rr/rr_type.rs: expected exactly one `const {n}`, found {len(ms)}")
    return parse_int(ms[0])

def generate(repo):
    lines = ["From Coq Require Import NArith List.", "Import ListNotations.", ""]
    src = strip_tests(read(repo, "src/rr/rr_type.rs"))
    lines.append("(* src/rr/rr_type.rs *)")
    for n in TYPES:
        lines.append(f"Definition TYPE_{n} : N := {coq_N(type_const(src, n))}.")
    csrc = strip_tests(read(repo, "src/class.rs"))
    lines += ["", "(* src/class.rs *)"]
    for cn in ["IN", "CH"]:
        ms = re.findall(r"pub\s+const\s+%s\s*:\s*Self\s*=\s*Self\(([^)]+)\)\s*;" % cn, csrc)
        if len(ms) != 1:
            raise GenError(f"src/class.rs: expected exactly one `const {cn}`")
        lines.append(f"Definition CLASS_{cn} : N := {coq_N(parse_int(ms[0]))}.")
    lsrc = strip_tests(read(repo, "src/name/label.rs"))
    ms = re.findall(r'static\s+ASTERISK_LABEL\s*:\s*&\[u8;\s*(\d+)\]\s*=\s*b"([^"\\]*)"\s*;', lsrc)
    if len(ms) != 1 or int(ms[0][0]) != len(ms[0][1]):
        raise GenError("src/name/label.rs: ASTERISK_LABEL not found")
    octs = "; ".join(coq_N(ord(c)) for c in ms[0][1])
    lines += ["", "(* src/name/label.rs: Label::asterisk() *)", f"Definition ASTERISK_LABEL : list N := [{octs}]."]
    return "\n".join(lines) + "\n"
