#!/usr/bin/env python3
"""Evaluate one seeded change against the checks.

usage: tools/seed_eval.py <PROPERTY> <patch.diff> <demo.rs> [--checks C01,C08,...] [--keep-as NAME] [--features F] [--cfg-verif]

Steps (all in a scratch worktree of /repo outside /repo and /verif, removed afterwards):
  1. the demonstration passes on the unchanged tree;
  2. with the patch applied the crate compiles, the pinned 283 tests still pass, and the demonstration fails;
  3. each named check (default: the property's own) is run with QV_REPO=<worktree>; it should exit 1 with a
     VIOLATION line.
Prints a JSON summary; with --keep-as the patch, demo and a meta.json are stored under seeded/<PROPERTY>-<NAME>/.
"""
import json, os, re, shutil, subprocess, sys, time

VERIF = os.path.dirname(os.path.dirname(os.path.abspath(__file__)))


def sh(cmd, cwd=None, env=None, timeout=3000):
    p = subprocess.run(cmd, cwd=cwd, env=env, shell=isinstance(cmd, str), stdout=subprocess.PIPE,
                       stderr=subprocess.STDOUT, text=True, timeout=timeout)
    return p.returncode, p.stdout


def test_results(out):
    res = re.findall(r"test result: (\w+)\. (\d+) passed; (\d+) failed", out)
    return [(a, int(b), int(c)) for a, b, c in res]


def main():
    args = sys.argv[1:]
    prop, patch, demo = args[0], os.path.abspath(args[1]), os.path.abspath(args[2])
    checks = [prop]
    keep = None
    if "--checks" in args:
        checks = args[args.index("--checks") + 1].split(",")
    if "--keep-as" in args:
        keep = args[args.index("--keep-as") + 1]
    wt = "/tmp/seedeval-wt"          # fixed path and shared target dir: consecutive evaluations build incrementally
    tgt = "/tmp/seedeval-target"
    summary = {"property": prop, "patch": patch, "checks": {}}
    env = dict(os.environ, CARGO_NET_OFFLINE="true", CARGO_TARGET_DIR=tgt)
    if "--cfg-verif" in args:
        env["RUSTFLAGS"] = "--cfg quandary_verif"
    feat = (" --features " + args[args.index("--features") + 1]) if "--features" in args else ""
    try:
        sh(["git", "-C", "/repo", "worktree", "remove", "--force", wt])
        shutil.rmtree(wt, ignore_errors=True)
        rc, out = sh(["git", "-C", "/repo", "worktree", "add", "--detach", wt, "HEAD"])
        assert rc == 0, out
        os.makedirs(wt + "/tests", exist_ok=True)
        shutil.copy(demo, wt + "/tests/seed_demo.rs")
        rc, out = sh(f"cargo test --offline{feat} --test seed_demo 2>&1 | tail -15", cwd=wt, env=env)
        r = test_results(out)
        summary["demo_passes_unchanged"] = bool(r) and all(c == 0 for _, _, c in r)
        if not summary["demo_passes_unchanged"]:
            summary["demo_unchanged_output"] = out[-1500:]
        rc, out = sh(["git", "apply", patch], cwd=wt)
        summary["patch_applies"] = rc == 0
        if rc != 0:
            summary["apply_output"] = out[-800:]
            print(json.dumps(summary, indent=1)); return 1
        rc, out = sh(f"cargo test --offline{feat} --test seed_demo 2>&1 | tail -25", cwd=wt, env=env)
        r = test_results(out)
        summary["demo_fails_with_patch"] = bool(r) and any(c > 0 for _, _, c in r)
        summary["compiles"] = "error: could not compile" not in out and "error[E" not in out
        os.remove(wt + "/tests/seed_demo.rs")
        rc, out = sh("cargo test --offline 2>&1 | grep 'test result'", cwd=wt, env=env)
        r = test_results(out)
        summary["suite"] = r
        summary["suite_still_passes"] = len(r) >= 3 and all(c == 0 for _, _, c in r) and sum(b for _, b, _ in r) >= 283
        for c in checks:
            t0 = time.time()
            rc, out = sh([os.path.join(VERIF, "check"), c], cwd=VERIF, env=dict(os.environ, QV_REPO=wt), timeout=3000)
            v = [l for l in out.split("\n") if l.startswith("VIOLATION")]
            fi = [l for l in out.split("\n") if l.startswith("failing input") or l.startswith("no longer shown")]
            summary["checks"][c] = {"exit": rc, "violation_line": v[0] if v else None,
                                    "detail": (fi[0][:300] if fi else None), "wall_s": round(time.time() - t0, 1),
                                    "caught": rc == 1 and bool(v)}
    finally:
        sh(["git", "-C", "/repo", "worktree", "remove", "--force", wt])
        shutil.rmtree(wt, ignore_errors=True)
        shutil.rmtree(os.path.join(VERIF, ".build", "harness-alt"), ignore_errors=True)
    valid = summary.get("demo_passes_unchanged") and summary.get("demo_fails_with_patch") and summary.get("suite_still_passes")
    summary["valid_seed"] = bool(valid)
    if keep and valid:
        d = os.path.join(VERIF, "seeded", f"{prop}-{keep}")
        os.makedirs(d, exist_ok=True)
        shutil.copy(patch, os.path.join(d, "patch.diff"))
        shutil.copy(demo, os.path.join(d, "demo.rs"))
        md = os.path.splitext(patch)[0] + ".md"
        if os.path.exists(md):
            shutil.copy(md, os.path.join(d, "notes.md"))
        meta = {"breaks_property": prop, "source": "independent sub-agent given only the property text",
                "needs_to_manifest": open(md).read()[:1200] if os.path.exists(md) else "see notes.md",
                "ran": ["demo on unchanged tree: pass", "cargo test --offline with patch: all pinned tests pass",
                        "demo with patch: fails"] + [f"QV_REPO=<patched> ./check {c}: exit {v['exit']}, {v['violation_line']}"
                                                     for c, v in summary["checks"].items()],
                "caught_by": [c for c, v in summary["checks"].items() if v["caught"]],
                "missed_by": [c for c, v in summary["checks"].items() if not v["caught"]]}
        json.dump(meta, open(os.path.join(d, "meta.json"), "w"), indent=1)
    print(json.dumps(summary, indent=1))
    return 0


if __name__ == "__main__":
    sys.exit(main())
