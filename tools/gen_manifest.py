#!/usr/bin/env python3
"""Rebuild MANIFEST.json from the check modules (checks/cNN.py: MANIFEST dict) and
not_applicable.json (property id -> reason for every property not claimed)."""
import glob, json, os, sys
sys.path.insert(0, os.path.dirname(os.path.abspath(__file__)))
import qv

V = qv.VERIF
ids = [json.loads(l)["id"] for l in open(os.path.join(V, "properties.jsonl")) if l.strip()]
na = json.load(open(os.path.join(V, "not_applicable.json"))) if os.path.exists(os.path.join(V, "not_applicable.json")) else {}
checks, claimed = [], []
for pid in ids:
    path = os.path.join(V, "checks", pid.lower() + ".py")
    if not os.path.exists(path):
        continue
    mod = qv.load_check(pid)
    M = getattr(mod, "MANIFEST", None)
    if not M:
        continue
    claimed.append(pid)
    e = {
        "property_id": pid,
        "quick_cmd": f"./check {pid} --tier quick",
        "thorough_cmd": f"./check {pid} --tier thorough",
        "evidence_file": f"evidence/{pid}.json",
        "replay_cmd_template": f"./check {pid} --replay {{path}}",
        "engine": "coq",
        "level_claimed": {"category": M.get("category", "proof"), "text": M["level_text"],
                          "design_ref": M.get("design_ref", f"DESIGN.md §4 {pid}")},
        "level_note": M["level_note"],
        "technique": M["technique"],
    }
    checks.append(e)
hooks_commits = []
hp = os.path.join(V, "hooks_commits.txt")
if os.path.exists(hp):
    hooks_commits = [l.split()[0] for l in open(hp) if l.strip() and not l.startswith("#")]
m = {
    "version": 1,
    "setup_cmd": "./setup.sh",
    "hooks": {
        "guard": "--cfg quandary_verif",
        "enable": "RUSTFLAGS=\"--cfg quandary_verif\" cargo build --offline --manifest-path /verif/harness/Cargo.toml (tools/qv.py: cargo_env)",
        "baseline_off_cmd": "cd /repo && cargo test --workspace --no-fail-fast --offline",
        "source_commits": hooks_commits,
        "add_only": True,
    },
    "engines": [
        {"name": "coq", "path": "coq/", "serves_properties": claimed,
         "kind_free_text": "Coq 8.16.1 development: Model/ (executable Gallina models of the Rust code), Spec/ (independent specifications), Proofs/, Props/ (pinned theorem statements + Print Assumptions), Gen/ (constants and tables regenerated from the Rust source on every run)"},
        {"name": "correspondence", "path": "tools/qv.py", "serves_properties": claimed,
         "kind_free_text": "differential run of the extracted model (ocaml/, ExtrOcamlBasic) and the real crate (harness/, path dependency on /repo, rebuilt by cargo on every run) on generated cases, plus the extracted spec oracle evaluated on implementation output"},
    ],
    "checks": checks,
    "not_applicable": [{"property_id": i, "reason": na.get(i, "not claimed: the model and theorems for this property were not completed in the time available; no check is registered, so nothing is asserted about it (see DESIGN.md)")}
                       for i in ids if i not in claimed],
    "notes": "Every check: ./check <ID> [--tier quick|thorough] [--seed N]; VERIF_SEED/VERIF_TIER are honoured. See DESIGN.md and docs/.",
}
json.dump(m, open(os.path.join(V, "MANIFEST.json"), "w"), indent=1)
print(f"MANIFEST.json: {len(checks)} checks, {len(m['not_applicable'])} not claimed")
