"""Helpers for the Rust-source -> Coq constant/table extractors (tools/gen/*.py).

Every extractor is line-anchored and fails loudly (GenError) when an anchor is
missing, so a refactoring that moves a constant is noticed instead of silently
leaving a stale model.  Each module in tools/gen/ defines
    OUT = "Gen/<Name>.v"            (relative to /verif/coq)
    def generate(repo: str) -> str  (the full text of the Coq file)
"""
import os, re

class GenError(Exception):
    pass

ADVISORIES = []

def advise(msg):
    """a shape sentinel that is not recognised any more but whose behaviour the correspondence run decides"""
    ADVISORIES.append(msg)

_CANON = os.path.join(os.path.dirname(os.path.abspath(__file__)), "rustfmt-canon.toml")
_fmt_cache = {}
_bin = []

def _rustfmt_bin():
    """the toolchain's rustfmt itself (the ~/.cargo/bin proxy re-resolves the toolchain on every call)"""
    if not _bin:
        b = "rustfmt"
        try:
            import subprocess
            q = subprocess.run(["rustup", "which", "rustfmt"], stdout=subprocess.PIPE, stderr=subprocess.DEVNULL, text=True, timeout=60)
            if q.returncode == 0 and os.path.exists(q.stdout.strip()):
                b = q.stdout.strip()
        except Exception:
            pass
        _bin.append(b)
    return _bin[0]

def canonical_format(text):
    """The extractors are anchored on source lines, so they see the source in ONE canonical lay-out: the text is
    piped through `rustfmt` (default style, pinned in tools/rustfmt-canon.toml, whatever rustfmt.toml the tree has).
    The pinned tree is rustfmt-clean, so this is the identity there; a re-formatted but otherwise unchanged tree
    yields the same tables instead of a broken source tie.  If rustfmt is missing or rejects the file (syntax
    error: cargo will say so), the raw text is used."""
    if text in _fmt_cache:
        return _fmt_cache[text]
    import hashlib
    cdir = os.path.join(os.path.dirname(os.path.dirname(os.path.abspath(__file__))), ".build", "fmtcache")
    cfile = os.path.join(cdir, hashlib.sha256(text.encode("utf-8")).hexdigest())
    try:
        with open(cfile, encoding="utf-8") as f:      # content-addressed: valid for whatever tree the text came from
            _fmt_cache[text] = f.read()
            return _fmt_cache[text]
    except OSError:
        pass
    out = text
    try:
        import subprocess
        p = subprocess.run([_rustfmt_bin(), "--edition", "2021", "--emit", "stdout", "--config-path", _CANON],
                           input=text, stdout=subprocess.PIPE, stderr=subprocess.DEVNULL, text=True, timeout=60)
        if p.returncode == 0 and p.stdout.strip():
            out = p.stdout
    except Exception:
        pass
    _fmt_cache[text] = out
    try:
        os.makedirs(cdir, exist_ok=True)
        tmp = cfile + ".%d" % os.getpid()
        with open(tmp, "w", encoding="utf-8") as f:
            f.write(out)
        os.replace(tmp, cfile)
    except OSError:
        pass
    return out

def read(repo, rel):
    p = os.path.join(repo, rel)
    try:
        with open(p, encoding="utf-8") as f:
            text = f.read()
    except OSError as e:
        raise GenError(f"cannot read {p}: {e}")
    return canonical_format(text) if rel.endswith(".rs") else text

def strip_tests(src):
    """Drop everything from the first `#[cfg(test)]` on (unit tests repeat constants)."""
    i = src.find("#[cfg(test)]")
    return src if i < 0 else src[:i]

def parse_int(tok):
    tok = tok.strip().replace("_", "")
    m = re.fullmatch(r"(0x[0-9a-fA-F]+|0b[01]+|0o[0-7]+|[0-9]+)(u8|u16|u32|u64|usize|i32|i64)?", tok)
    if not m:
        raise GenError(f"not an integer literal: {tok!r}")
    return int(m.group(1), 0)

def scalar(repo, rel, name):
    """`const NAME: T = <int>;` (optionally pub / pub(crate)) outside the test module."""
    src = strip_tests(read(repo, rel))
    ms = re.findall(r"^\s*(?:pub(?:\([a-z]+\))?\s+)?const\s+%s\s*:\s*[A-Za-z0-9_]+\s*=\s*([^;]+);" % re.escape(name), src, re.M)
    if len(ms) != 1:
        raise GenError(f"{rel}: expected exactly one `const {name}`, found {len(ms)}")
    return parse_int(ms[0])

def impl_block(src, header_regex, rel="?"):
    """Text of the first `impl ... {` block whose header matches header_regex (brace matched)."""
    m = re.search(header_regex, src, re.M)
    if not m:
        raise GenError(f"{rel}: no block matching {header_regex!r}")
    i = src.index("{", m.end() - 1) if src[m.end()-1] != "{" else m.end() - 1
    depth = 0
    for j in range(i, len(src)):
        if src[j] == "{":
            depth += 1
        elif src[j] == "}":
            depth -= 1
            if depth == 0:
                return src[i:j + 1]
    raise GenError(f"{rel}: unbalanced braces after {header_regex!r}")

def self_consts(block):
    """[(NAME, value)] for every `pub const NAME: Self = Self(<int>);` in a block, in order."""
    return [(n, parse_int(v)) for n, v in
            re.findall(r"pub\s+const\s+([A-Z0-9_]+)\s*:\s*Self\s*=\s*Self\(([^)]+)\)\s*;", block)]

def coq_N(n):
    return f"{n}%N"

def coq_string(s):
    return '"' + s.replace('"', '""') + '"'

def coq_list(items):
    return "[" + "; ".join(items) + "]"

HEADER = "(* GENERATED by tools/gen_consts.py from /repo on every check run. Do not edit. *)\n"
