#!/usr/bin/env python3
"""usage: tools/zone_mutations.py <PROP> <mutation-name>...
Detection-validation helper for C06/C20/C21: applies ONE named mutation at a time to the scratch worktree
/tmp/repo-zone (git -C /repo worktree add /tmp/repo-zone HEAD), runs QV_REPO=/tmp/repo-zone ./check <PROP>, prints the
VIOLATION line, reverts the file.  MUT_FLAGS=--test additionally runs cargo test there.  Results: docs/C06.md, C20.md, C21.md."""
import subprocess, sys, os, re
REPO = "/tmp/repo-zone"
Z = "src/db/hash_map_tree/zone.rs"
N = "src/db/hash_map_tree/node.rs"
RR = "src/db/rrset.rs"
RS = "src/rr/rdata_set.rs"
V = "src/db/zone/validation.rs"
MUT = {
    "apex_referral": (Z, "if !at_apex && !search_below_cuts {", "if !search_below_cuts {"),
    "sos_none": (Z, "source_of_synthesis: Some(&source_of_synthesis.name),", "source_of_synthesis: None,"),
    "target_no_referral": (Z, "if !at_apex && !search_below_cuts {", "if !at_apex && !search_below_cuts && level != 0 {"),
    "aaaa_any_class": (Z, "let aaaa_rrset = if self.class == Class::IN {", "let aaaa_rrset = if self.class != Class::CH {"),
    "cname_first": (Z, "if let Some(rrset) = data.rrsets.lookup(rr_type) {", "if let Some(rrset) = data.rrsets.lookup(rr_type).filter(|_| data.rrsets.lookup(Type::CNAME).is_none() || rr_type == Type::CNAME) {"),
    "wildcard_at_target_parent_only": (Z, "} else if let Some(source_of_synthesis) = node.children.get(Label::asterisk()) {", "} else if let Some(source_of_synthesis) = node.children.get(Label::asterisk()).filter(|_| level == 1) {"),
    "wrongzone_len_only": (Z, "if !options.unchecked && !name.eq_or_subdomain_of(&self.apex.name) {", "if !options.unchecked && name.len() < self.apex.name.len() {"),
    "no_ttl_check": (RR, "if rrset.ttl != ttl {", "if false && rrset.ttl != ttl {"),
    "no_class_check": (Z, "} else if class != self.class {", "} else if false && class != self.class {"),
    "no_dedup": (RS, "if rdata.equals(existing_rdata, class, rr_type) {", "if false && rdata.equals(existing_rdata, class, rr_type) {"),
    "owner_check_len": (Z, "if !owner.eq_or_subdomain_of(self.name()) {", "if owner.len() < self.name().len() {"),
    "iter_skip_leaf_ent": (Z, "Box::new(self.apex.iter().map(|(name, data)| {", "Box::new(self.apex.iter().filter(|(_, data)| data.rrsets.iter().next().is_some()).map(|(name, data)| {"),
    "ns_is_soa": (Z, ".lookup(Type::NS)\n            .map(SingleRrset::from)", ".lookup(Type::SOA)\n            .map(SingleRrset::from)"),
    "insert_before_ttl_check": (RR, "let rrset = &mut self.rrsets[index];\n                if rrset.ttl != ttl {", "let rrset = &mut self.rrsets[index];\n                rrset.rdatas.insert(class, rr_type, rdata);\n                if rrset.ttl != ttl {"),
    "narrow_as_wide": (V, "if referral.child_zone.as_ref() == child_zone {", "if referral.child_zone.as_ref() == child_zone || true {"),
    "wildcard_ns_is_error": (V, "!matches!(*self, Self::MissingMxAddress(_) | Self::NsAtWildcard(_))", "!matches!(*self, Self::MissingMxAddress(_))"),
    "aaaa_counts_any_class": (V, "found.data.a_rrset.is_some() || (class == Class::IN && found.data.aaaa_rrset.is_some())", "found.data.a_rrset.is_some() || found.data.aaaa_rrset.is_some()"),
    "glue_lookup_above_cut": (V, "search_below_cuts: true,\n    };\n    match parent_zone.lookup_addrs", "search_below_cuts: false,\n    };\n    match parent_zone.lookup_addrs"),
    "cname_other_gt2": (V, "if rrsets.len() != 1 {", "if rrsets.len() > 2 {"),
    "no_ch_addrs": (V, "class == Class::IN || class == Class::CH", "class == Class::IN"),
    "soa_gt2": (V, "if soa_rrset.rdatas.iter().count() != 1 {", "if soa_rrset.rdatas.iter().count() > 2 {"),
    "referral_needs_no_glue_check_wide": (V, "GluePolicy::Wide => {\n                    // Glue is always needed.\n                    check_glue(parent_zone, nsdname, issues);", "GluePolicy::Wide => {\n                    // Glue is always needed.\n                    if referral.child_zone.as_ref() == child_zone { check_glue(parent_zone, nsdname, issues); }"),
    "iter_no_push": (N, "stack.push(children);", "if stack.len() < 2 { stack.push(children); }"),
    "node_names_lowercased": (N, ".or_insert_with(|| Self::new(name.superdomain(level - 1).unwrap()))", ".or_insert_with(|| { let mut n = name.superdomain(level - 1).unwrap(); n.make_ascii_lowercase(); Self::new(n) })"),
    "len_prefix_u8": (RS, "self.inner\n            .extend_from_slice(&(rdata.len() as u16).to_ne_bytes());", "self.inner\n            .extend_from_slice(&(rdata.len() as u8 as u16).to_ne_bytes());"),
    "ttl_first_wins": (RR, "if rrset.ttl != ttl {", "if rrset.ttl < ttl {"),
}
prop = sys.argv[1]
for name in sys.argv[2:]:
    rel, old, new = MUT[name]
    p = os.path.join(REPO, rel)
    src = open(p).read()
    assert src.count(old) >= 1, (name, "anchor not found")
    open(p, "w").write(src.replace(old, new, 1))
    env = dict(os.environ, QV_REPO=REPO)
    r = subprocess.run(["./check", prop], cwd="/tmp/verif-zone", env=env, stdout=subprocess.PIPE, stderr=subprocess.STDOUT, text=True)
    out = r.stdout
    viol = [l for l in out.split("\n") if l.startswith("VIOLATION") or l.startswith("failing input") or l.startswith("no longer")]
    print(f"== {name}: exit {r.returncode}; " + (" | ".join(v[:200] for v in viol) if viol else out[-400:]))
    if "--test" in os.environ.get("MUT_FLAGS", ""):
        t = subprocess.run("cargo test --offline 2>&1 | grep -E '^test result|FAILED|failed' | head -5", cwd=REPO, shell=True, stdout=subprocess.PIPE, text=True)
        print("   cargo test:", t.stdout.strip().replace("\n", " ; "))
    subprocess.run(["git", "checkout", "--", rel], cwd=REPO)
