#!/usr/bin/env python3
"""Regenerate coq/Gen/*.v from the Rust sources in /repo (or $QV_REPO).

Files are rewritten only when their content changes so the make cache stays warm.
Exit status 0 on success, 2 if an anchor is missing (reported by the check as a
broken source tie)."""
import importlib.util, os, sys, glob
HERE = os.path.dirname(os.path.abspath(__file__))
sys.path.insert(0, HERE)
import genlib

def main():
    repo = os.environ.get("QV_REPO", "/repo")
    coq = os.path.join(os.path.dirname(HERE), "coq")
    only = set(sys.argv[1:])
    rc = 0
    for path in sorted(glob.glob(os.path.join(HERE, "gen", "*.py"))):
        name = os.path.splitext(os.path.basename(path))[0]
        if only and name not in only:
            continue
        spec = importlib.util.spec_from_file_location("gen_" + name, path)
        mod = importlib.util.module_from_spec(spec)
        spec.loader.exec_module(mod)
        try:
            text = genlib.HEADER + mod.generate(repo)
        except genlib.GenError as e:
            print(f"gen_consts: {name}: {e}", file=sys.stderr)
            rc = 2
            continue
        for a in genlib.ADVISORIES:
            print(f"gen_consts: advisory: {name}: {a}")
        del genlib.ADVISORIES[:]
        out = os.path.join(coq, mod.OUT)
        old = None
        if os.path.exists(out):
            with open(out) as f:
                old = f.read()
        if old != text:
            os.makedirs(os.path.dirname(out), exist_ok=True)
            with open(out, "w") as f:
                f.write(text)
            print(f"gen_consts: wrote {mod.OUT}")
    return rc

if __name__ == "__main__":
    sys.exit(main())
