#!/usr/bin/env python3
"""usage: tools/dzone_mutations.py <PROP> <mutation-name>...
Detection-validation helper of package dzone (C06/C20/C21 with the REAL Rdata::equals / name parser): applies ONE named
mutation at a time to the scratch worktree /tmp/repo-dzone (git -C /repo worktree add /tmp/repo-dzone HEAD), runs
QV_REPO=/tmp/repo-dzone ./check <PROP> in /tmp/verif-dzone, prints the VIOLATION line, reverts the file.
MUT_FLAGS=--test additionally runs cargo test there.  Results: docs/C06.md, C20.md, C21.md (second wave)."""
import subprocess, sys, os
REPO = "/tmp/repo-dzone"
VERIF = os.path.dirname(os.path.dirname(os.path.abspath(__file__)))
RS = "src/rr/rdata_set.rs"
RR = "src/db/rrset.rs"
V = "src/db/zone/validation.rs"
RD = "src/rr/rdata/mod.rs"
EQ = "if rdata.equals(existing_rdata, class, rr_type) {"
MUT = {
    # RdataSetOwned::insert compares octet-wise: case variants of embedded names are kept as distinct members
    "insert_octetwise": (RS, EQ, "if rdata.octets() == existing_rdata.octets() {"),
    # ... compares as if the class were always IN: CH-class A is compared octet-wise, SRV name-wise in every class
    "insert_class_in": (RS, EQ, "if rdata.equals(existing_rdata, Class::IN, rr_type) {"),
    # ... compares with the first member only
    "insert_first_only": (RS, "for existing_rdata in self.iter() {\n            " + EQ,
                          "for existing_rdata in self.iter().take(1) {\n            " + EQ),
    # ... compares lengths first (an "optimisation"): only wrong for RDATA that are equal at different lengths — none exist
    # (Proofs/RdataEqFullP.v eq_spec_len: valid RDATA that compare equal have equal lengths): an EQUIVALENT mutant
    "insert_len_shortcut": (RS, EQ, "if rdata.len() == existing_rdata.len() && rdata.equals(existing_rdata, class, rr_type) {"),
    # Rdata::equals: MX is name-aware in class IN only (octet-wise default elsewhere).  The regenerated dispatcher table follows the
    # code, so model = implementation; C19's dispatch proof in the cone breaks AND the RFC characterisation on the oracle side disagrees
    "equals_mx_in_only": (RD, "            Type::MX => self.equals_as_mx(other),", "            Type::MX if class == Class::IN => self.equals_as_mx(other),"),
    # Rdata::equals: MX falls through to the octet-wise default (the generated handler type loses a constructor: Model/RdataM.v itself
    # stops compiling, so there is no executable model: exit 1, no-failing-input-found)
    "equals_mx_bitwise": (RD, "            Type::MX => self.equals_as_mx(other),\n            Type::SRV if class == Class::IN => self.equals_as_in_srv(other),",
                          "            Type::SRV if class == Class::IN => self.equals_as_in_srv(other),"),
    # validation reads the NSDNAME of a delegation with the prefix parser: trailing octets after the name are ignored
    "valid_ns_prefix_parse": (V, "let nsdname = Name::try_from_uncompressed_all(rdata.octets())\n                            .or(Err(Error::InvalidRdata))?;",
                              "let nsdname = Name::try_from_uncompressed(rdata.octets())\n                            .map(|(n, _)| n)\n                            .or(Err(Error::InvalidRdata))?;"),
    # the MX exchange is parsed with the prefix parser
    "valid_mx_prefix_parse": (V, ".map(Name::try_from_uncompressed_all)\n                            .and_then(Result::ok)",
                              ".map(|o| Name::try_from_uncompressed(o).map(|(n, _)| n))\n                            .and_then(Result::ok)"),
    # narrow glue policy: the child zone of the referral is compared with the delegation owner octet-wise (case-sensitively)
    "narrow_child_cmp_octets": (V, "if referral.child_zone.as_ref() == child_zone {",
                                "if referral.child_zone.wire_repr() == child_zone.wire_repr() {"),
    # Label's Hash becomes case-sensitive while Eq stays case-insensitive: a name spelled in another letter case is (almost always) not
    # found in the children maps — glue / addresses owned by `ns.c.` are not found for the NSDNAME `NS.C.`
    "label_hash_case_sensitive": ("src/name/label.rs", "for octet in self.octets().iter().map(u8::to_ascii_lowercase) {",
                                  "for octet in self.octets().iter().copied() {"),
    # an unparsable apex NS RDATA is skipped instead of failing the validation
    "valid_apex_ns_skip_bad": (V, "let name =\n                    Name::try_from_uncompressed_all(rdata.octets()).or(Err(Error::InvalidRdata))?;",
                               "let name = match Name::try_from_uncompressed_all(rdata.octets()) { Ok(n) => n, Err(_) => continue };"),
}
prop = sys.argv[1]
for name in sys.argv[2:]:
    rel, old, new = MUT[name]
    p = os.path.join(REPO, rel)
    src = open(p).read()
    assert src.count(old) >= 1, (name, "anchor not found")
    open(p, "w").write(src.replace(old, new, 1))
    try:
        env = dict(os.environ, QV_REPO=REPO)
        if "--model" in os.environ.get("MUT_FLAGS", ""):
            # a mutation that changes a regenerated table breaks proofs in the cone; `make` then stops before the (proof-free)
            # cone of the executable model is complete.  Build that cone first (make -k), so that the run can search for a
            # failing input as well.
            sys.path.insert(0, os.path.join(VERIF, "tools"))
            import qv
            subprocess.run([sys.executable, os.path.join(VERIF, "tools", "gen_consts.py")], env=env)
            cone = [f + "o" for f in qv.coq_cone("Extract/ExZone.v") if not f.startswith("Extract/")]
            subprocess.run(["make", "-k", "-j8"] + cone, cwd=os.path.join(VERIF, "coq"), stdout=subprocess.DEVNULL, stderr=subprocess.DEVNULL)
        r = subprocess.run(["./check", prop], cwd=VERIF, env=env, stdout=subprocess.PIPE, stderr=subprocess.STDOUT, text=True)
        out = r.stdout
        viol = [l for l in out.split("\n") if l.startswith("VIOLATION") or l.startswith("failing input") or l.startswith("no longer")
                or l.startswith("  implementation") or l.startswith("  specification")]
        print(f"== {prop} {name}: exit {r.returncode}; " + (" | ".join(v[:260] for v in viol) if viol else out[-400:]), flush=True)
        if "--test" in os.environ.get("MUT_FLAGS", ""):
            t = subprocess.run("cargo test --offline 2>&1 | grep -E '^test result|FAILED|failed' | head -5", cwd=REPO, shell=True,
                               stdout=subprocess.PIPE, text=True)
            print("   cargo test:", t.stdout.strip().replace("\n", " ; "), flush=True)
    finally:
        subprocess.run(["git", "checkout", "--", rel], cwd=REPO)
