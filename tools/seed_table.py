#!/usr/bin/env python3
"""Write seeded/README.md from seeded/*/meta.json."""
import glob, json, os
V = os.path.dirname(os.path.dirname(os.path.abspath(__file__)))
rows = []
for d in sorted(glob.glob(os.path.join(V, "seeded", "*"))):
    mp = os.path.join(d, "meta.json")
    if not os.path.exists(mp):
        continue
    m = json.load(open(mp))
    first = (m.get("needs_to_manifest", "").strip().split("\n") or [""])[0][:140]
    rows.append((os.path.basename(d), m["breaks_property"], ", ".join(m.get("caught_by", [])) or "—",
                 ", ".join(m.get("missed_by", [])) or "—", m.get("after_strengthening", ""), first))
with open(os.path.join(V, "seeded", "README.md"), "w") as f:
    f.write("# Seeded changes\n\nEach directory: `patch.diff` (apply with `git -C /repo apply`), `demo.rs` (fails with the patch, passes "
            "without), `meta.json`, `notes.md`. All compile and pass the pinned 283 tests. Produced by sub-agents that saw only the "
            "property text. Evaluated with `tools/seed_eval.py` (QV_REPO=<patched scratch worktree>).\n\n"
            "| seed | breaks | caught by | missed by (at first evaluation) | after strengthening | what it is |\n|---|---|---|---|---|---|\n")
    for r in rows:
        f.write("| " + " | ".join(r) + " |\n")
print(f"{len(rows)} seeds tabulated")
