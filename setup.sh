#!/bin/bash
# Offline build of the whole framework: Coq development (full .vo build), Rust harness, OCaml model runners.
set -e
cd "$(dirname "$0")"
export CARGO_NET_OFFLINE=true
python3 tools/gen_consts.py
( cd coq && coq_makefile -f _CoqProject -o Makefile >/dev/null && timeout 3000 make -j16 2>&1 | grep -v "^COQC\|^COQDEP\|Closed under the global context" || true )
( cd coq && timeout 3000 make -j16 >/dev/null )
RUSTFLAGS="--cfg quandary_verif" CARGO_TARGET_DIR="$PWD/.build/target" timeout 3000 cargo build --offline --manifest-path harness/Cargo.toml --bins 2>&1 | tail -3
python3 tools/build_runners.py
echo "setup done"
