#!/bin/bash
# Offline build of the whole framework: Coq development (full .vo build), Rust harness, OCaml model runners.
set -e
cd "$(dirname "$0")"
export CARGO_NET_OFFLINE=true
python3 tools/gen_consts.py
python3 -c "import sys; sys.path.insert(0,'tools'); import qv; rc,out=qv.coq_make([],3000); print(out[-3000:] if rc else 'coq build ok')"
RUSTFLAGS="--cfg quandary_verif" CARGO_TARGET_DIR="$PWD/.build/target" timeout 3000 cargo build --offline --manifest-path harness/Cargo.toml --bins 2>&1 | tail -3
# the real daemon, driven by C31 (warm build so that the first quick run is fast)
CARGO_TARGET_DIR="$PWD/.build/target-qd" timeout 3000 cargo build --offline --bin quandaryd --manifest-path /repo/Cargo.toml 2>&1 | tail -1
python3 tools/build_runners.py
echo "setup done"
