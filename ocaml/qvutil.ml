(* Shared glue between the line-oriented case files and the extracted model.
   Compiled together with the Separate Extraction output of each property, so
   BinNums / Datatypes refer to that extraction's modules. *)
open BinNums

let rec pos_of_int n =
  if n <= 1 then Coq_xH
  else if n land 1 = 0 then Coq_xO (pos_of_int (n lsr 1))
  else Coq_xI (pos_of_int (n lsr 1))
let n_of_int n = if n <= 0 then N0 else Npos (pos_of_int n)
let rec int_of_pos = function
  | Coq_xH -> 1
  | Coq_xO p -> 2 * int_of_pos p
  | Coq_xI p -> 2 * int_of_pos p + 1
let int_of_n = function N0 -> 0 | Npos p -> int_of_pos p

let nat_of_int n =
  let rec go acc k = if k <= 0 then acc else go (Datatypes.S acc) (k - 1) in
  go Datatypes.O n
let int_of_nat n =
  let rec go acc = function Datatypes.O -> acc | Datatypes.S m -> go (acc + 1) m in
  go 0 n

let unhex (s : string) : coq_N list =
  if s = "-" || s = "" then []
  else begin
    let n = String.length s / 2 in
    Stdlib.List.init n (fun i -> n_of_int (int_of_string ("0x" ^ String.sub s (2 * i) 2)))
  end

let hex (l : coq_N list) : string =
  if l = [] then "-"
  else String.concat "" (Stdlib.List.map (fun x -> Printf.sprintf "%02x" (int_of_n x)) l)

let fields (line : string) : string list =
  Stdlib.List.filter (fun s -> s <> "") (String.split_on_char ' ' (String.trim line))

(* read stdin line by line, print f(fields) for every non-empty, non-comment line *)
let run_lines (f : string list -> string) : unit =
  (try
     while true do
       let line = input_line stdin in
       let t = String.trim line in
       if t <> "" && t.[0] <> '#' then print_endline (f (fields t))
     done
   with End_of_file -> ());
  flush stdout
