(* C12/C13 model-side runner: same case lines as harness/src/bin/impl_c12.rs.
   Prints "<model result> | <oracle result>". *)
open Qvutil
open MsgWriter

let split c s = String.split_on_char c s
let n_of_string s = n_of_int (int_of_string s)
let nat_of_string s = nat_of_int (int_of_string s)
let bool_of s = (s = "1")

(* uncompressed wire form -> non-root labels *)
let labels_of_hex (h : string) : BinNums.coq_N list list =
  let w = unhex h in
  let rec go w = match w with
    | [] -> failwith "bad name"
    | l :: r ->
      let n = int_of_n l in
      if n = 0 then (if r <> [] then failwith "bad name (trailing)" else [])
      else begin
        let rec take k l acc = if k = 0 then (Stdlib.List.rev acc, l)
          else match l with [] -> failwith "bad name (short)" | x :: t -> take (k - 1) t (x :: acc) in
        let (lab, rest) = take n r [] in
        lab :: go rest
      end in
  go w

let time48 (s : string) : BinNums.coq_N list =
  let v = int_of_string s in
  Stdlib.List.map (fun sh -> n_of_int ((v lsr sh) land 255)) [40; 32; 24; 16; 8; 0]

let sec_of = function
  | "a" -> SecAnswer | "u" -> SecAuthority | "d" -> SecAdditional | _ -> failwith "bad section"

let hint_of (s : string) : hintsrc = match s with
  | "n" -> HsNone | "q" -> HsQname | "o" -> HsOwner | "r" -> HsRdata
  | e -> (match split '.' (String.sub e 1 (String.length e - 1)) with
      | [r; i] -> HsReg (nat_of_string r, nat_of_string i)
      | _ -> failwith "bad hint")

let rec repeat x n = if n <= 0 then [] else x :: repeat x (n - 1)

let parse_op (tok : string) : wop =
  match split ':' tok with
  | ["id"; v] -> OSetId (n_of_string v)
  | ["qr"; v] -> OSetQr (bool_of v)
  | ["opc"; v] -> OSetOpcode (n_of_string v)
  | ["aa"; v] -> OSetAa (bool_of v)
  | ["tc"; v] -> OSetTc (bool_of v)
  | ["rd"; v] -> OSetRd (bool_of v)
  | ["ra"; v] -> OSetRa (bool_of v)
  | ["rc"; v] -> OSetRcode (n_of_string v)
  | ["xrc"; v] -> OSetXrcode (n_of_string v)
  | ["q"; n; t; c] -> OAddQuestion (labels_of_hex n, n_of_string t, n_of_string c)
  | ["rr"; s; h; n; t; c; ttl; rd; v] ->
    OAddRr (sec_of s, hint_of h, labels_of_hex n, n_of_string t, n_of_string c, n_of_string ttl,
            unhex rd, bool_of v)
  | ["rs"; s; h; n; t; c; ttl; rds; v] ->
    OAddRrset (sec_of s, hint_of h, labels_of_hex n, n_of_string t, n_of_string c, n_of_string ttl,
               Stdlib.List.map unhex (split ',' rds), bool_of v)
  | ["lim"; v] -> OSetLimit (nat_of_string v)
  | ["mode"; "s"] -> OSetMode Standard
  | ["mode"; "c"] -> OSetMode CasePreserving
  | ["mode"; "d"] -> OSetMode Disabled
  | ["edns"; v] -> OSetEdns (n_of_string v)
  | ["tsig"; alg; key; t; fudge; oid; err; st] ->
    OSetTsig (labels_of_hex alg, labels_of_hex key, time48 t, n_of_string fudge, n_of_string oid,
              n_of_string err, time48 st)
  | ["utime"; t] -> OUpdateTime (time48 t)
  | ["clr"] -> OClearRrs
  | ["tmpl"; size; fill] -> OTemplate (repeat (Stdlib.List.hd (unhex fill)) (int_of_string size))
  | ["tmpls"] -> OTemplateSubsequent
  | ["get"] -> OGet
  | _ -> failwith ("unknown op " ^ tok)

let err_name = function
  | CountOverflow -> "CountOverflow" | Truncation -> "Truncation" | OutOfOrder -> "OutOfOrder"
  | InvalidRdata -> "InvalidRdata" | NotEdns -> "NotEdns" | AlreadyEdns -> "AlreadyEdns"
  | ExtendedRcodeOverflow -> "ExtendedRcodeOverflow" | NotTsig -> "NotTsig"
  | AlreadyTsig -> "AlreadyTsig" | NotSignedTsig -> "NotSignedTsig" | WOutOfFuel -> "OutOfFuel"

let show_outcome = function
  | RUnit -> "ok"
  | RErr e -> "E:" ^ err_name e
  | RVals l -> "v:" ^ String.concat "." (Stdlib.List.map (fun x -> string_of_int (int_of_n x)) l)

let show_vec (v : hvec) =
  if v = [] then "e"
  else String.concat "." (Stdlib.List.map (function None -> "x" | Some p -> string_of_int (int_of_nat p)) v)

let show_outs (l : outcome list) =
  if l = [] then "-" else String.concat "," (Stdlib.List.map show_outcome l)
let show_regs (l : hvec list) =
  if l = [] then "-" else String.concat "/" (Stdlib.List.map show_vec l)

let show_result (r : run_result) =
  let ops_s = show_outs r.rr_outcomes and regs_s = show_regs r.rr_regs in
  match r.rr_final with
  | Some (len, buf) -> Printf.sprintf "ops=%s;regs=%s;len=%d;buf=%s" ops_s regs_s (int_of_nat len) (hex buf)
  | None -> Printf.sprintf "ops=%s;regs=%s;len=dead;buf=-" ops_s regs_s

(* ---- parsing an implementation result line back (oracle mode) ---- *)
let err_of_name = function
  | "CountOverflow" -> CountOverflow | "Truncation" -> Truncation | "OutOfOrder" -> OutOfOrder
  | "InvalidRdata" -> InvalidRdata | "NotEdns" -> NotEdns | "AlreadyEdns" -> AlreadyEdns
  | "ExtendedRcodeOverflow" -> ExtendedRcodeOverflow | "NotTsig" -> NotTsig
  | "AlreadyTsig" -> AlreadyTsig | "NotSignedTsig" -> NotSignedTsig
  | s -> failwith ("unknown error " ^ s)

let parse_outcome (s : string) : outcome =
  if s = "ok" then RUnit
  else if String.length s > 2 && String.sub s 0 2 = "E:" then RErr (err_of_name (String.sub s 2 (String.length s - 2)))
  else if String.length s > 2 && String.sub s 0 2 = "v:" then
    RVals (Stdlib.List.map n_of_string (split '.' (String.sub s 2 (String.length s - 2))))
  else failwith ("bad outcome " ^ s)

let parse_outs s = if s = "-" then [] else Stdlib.List.map parse_outcome (split ',' s)
let parse_vec s : hvec =
  if s = "e" then [] else Stdlib.List.map (fun x -> if x = "x" then None else Some (nat_of_string x)) (split '.' s)
let parse_regs s = if s = "-" then [] else Stdlib.List.map parse_vec (split '/' s)

let strip_prefix pre s =
  let n = String.length pre in
  if String.length s >= n && String.sub s 0 n = pre then String.sub s n (String.length s - n)
  else failwith ("expected " ^ pre ^ " in " ^ s)

let reason = function
  | 1 -> "outcome-impossible" | 2 -> "getter" | 3 -> "spurious-truncation" | 4 -> "undecodable"
  | 5 -> "header" | 6 -> "questions" | 7 -> "records" | 8 -> "bad-pointer" | 9 -> "pointer-where-forbidden"
  | 10 -> "limit" | 11 -> "dead" | 12 -> "hint-pointer" | 13 -> "panic" | n -> string_of_int n

let show_verdict = function
  | MsgWriterS.VOk -> "ok"
  | MsgWriterS.VNoClaim -> "noclaim"
  | MsgWriterS.VBad c -> "bad:" ^ reason (int_of_nat c)

(* `<impl line> <case...>` -> verdict of the specification on the implementation's result *)
let oracle (c13 : bool) (impl : string) (size : string) (limit : string) (ops : wop list) : string =
  let bufsize = nat_of_string size and lim = nat_of_string limit in
  if impl = "panic" || impl = "timeout" || impl = "crash" then "bad:" ^ impl
  else if String.length impl >= 4 && String.sub impl 0 4 = "new:" then
    (if impl = "new:Truncation" && min (int_of_string limit) (int_of_string size) < 12 then "ok" else "bad:new")
  else match split ';' impl with
    | [o; r; "panic"] ->
      show_verdict (MsgWriterS.judge_panic bufsize lim ops (parse_outs (strip_prefix "ops=" o))
                      (parse_regs (strip_prefix "regs=" r)))
    | [o; r; l; b] ->
      let outs = parse_outs (strip_prefix "ops=" o) and regs = parse_regs (strip_prefix "regs=" r) in
      let l = strip_prefix "len=" l and b = strip_prefix "buf=" b in
      if min (int_of_string limit) (int_of_string size) < 12 then "bad:new"
      else
        let final = if l = "dead" then None else Some (nat_of_string l, unhex b) in
        show_verdict ((if c13 then MsgWriterS.judge13 else MsgWriterS.judge) bufsize lim ops outs regs final)
    | _ -> "bad:unparsable"

let () =
  let flag x = Array.exists (fun a -> a = x) Sys.argv in
  let prefix = flag "--prefix" and oracle_mode = flag "--oracle" || flag "--oracle13" in
  let c13 = flag "--oracle13" in
  run_lines (fun f ->
    if oracle_mode then
      (match f with
       | impl :: size :: _fill :: limit :: ops ->
         (try oracle c13 impl size limit (Stdlib.List.map parse_op ops)
          with Failure m -> "bad:oracle-failure:" ^ m)
       | _ -> failwith "bad oracle line")
    else
    match f with
    | size :: fill :: limit :: ops ->
      let buf = repeat (Stdlib.List.hd (unhex fill)) (int_of_string size) in
      let ops = Stdlib.List.map parse_op ops in
      let run = if prefix then run_writer_prefix else run_writer in
      let m = match run buf (nat_of_string limit) ops with
        | Res.Ok r -> show_result r
        | Res.Err e -> "new:" ^ err_name e
        | Res.Panic ->
          let (outs, regs) = panic_trace buf (nat_of_string limit) ops in
          Printf.sprintf "ops=%s;regs=%s;panic" (show_outs outs) (show_regs regs) in
      m ^ " | -"
    | _ -> failwith "bad case line")
