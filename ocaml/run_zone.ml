(* Model-side runner of the zone-store properties (C06 lookups: op L, C20 add/iteration: op H).
   Same case lines as harness/src/bin/impl_zone.rs.  Prints "<model result> | <spec result>".
     L <apex> <class> <records> <qname> <qtypes>
     H <apex> <class> <records>
   name    = hex labels joined by '.', '@' for the root
   records = owner,type,class,ttl,rdatahex joined by ';'   ('-' = none)
   L result: for (unchecked, search_below_cuts) in ff, ft, tf, tt: one segment per qtype (lookup),
   then lookup_addrs, then lookup_all; segments joined by ' / '.  The spec column reports names
   as the zone spells them and prints '*' where the spec requires nothing (unchecked lookup outside the zone). *)
open Qvutil
module Z = ZoneTree
module S = ZoneLookupS

let split c s = if s = "" then [] else String.split_on_char c s

let parse_name s : Z.name = if s = "@" then [] else Stdlib.List.map unhex (split '.' s)
let show_name (n : Z.name) = "~" ^ (if n = [] then "@" else String.concat "." (Stdlib.List.map hex n))

let parse_record s : Z.record =
  match split ',' s with
  | [o; ty; cl; ttl; rd] ->
    { Z.r_owner = parse_name o; r_type = n_of_int (int_of_string ty); r_class = n_of_int (int_of_string cl);
      r_ttl = n_of_int (int_of_string ttl); r_rdata = unhex rd }
  | _ -> failwith ("bad record " ^ s)
let parse_records s = if s = "-" then [] else Stdlib.List.map parse_record (split ';' s)

(* The REAL instances (Model/ZoneReal.v): Rdata::equals = RdataM.equals (C19's model), the name parser =
   NameWire.parse_uncompressed_name (C14's model).  [req] is ZoneReal.req_real, except that the branch
   "equals did not return a boolean" (proved unreachable: equals_req_real) fails the run instead of
   answering false; likewise a Panic of the parser (parse_real_faithful).  The specification side uses the
   independent RFC characterisations ZoneRealS.spec_req (= RdataEqS.spec_equals) / spec_rdata_name. *)
let req c t a b = match RdataM.equals c t a b with
  | Res.Ok v -> v
  | _ -> failwith "model: Rdata::equals did not return a boolean"
let sreq = ZoneRealS.spec_req
let parse rd =
  (match NameWire.parse_uncompressed_name rd true with
   | Res.Panic -> failwith "model: parse_uncompressed_name panicked"
   | _ -> ());
  ZoneReal.parse_real rd
let sparse = ZoneRealS.spec_rdata_name

let show_rdatas l = String.concat "+" (Stdlib.List.map hex l)
let show_single ((ttl, rds) : Z.single_rrset) = Printf.sprintf "%d:%s" (int_of_n ttl) (show_rdatas rds)
let show_rrset (r : Z.rrset) =
  Printf.sprintf "%d=%d:%s" (int_of_n r.Z.rs_type) (int_of_n r.Z.rs_ttl) (show_rdatas r.Z.rs_rdatas)
let show_sos = function None -> "_" | Some n -> show_name n
let show_opt f = function None -> "_" | Some x -> f x
let show_err = function
  | Z.NotInZone -> "NotInZone" | Z.ClassMismatch -> "ClassMismatch"
  | Z.TtlMismatch -> "TtlMismatch" | Z.InvalidRdata -> "InvalidRdata"

let show_lookup = function
  | Z.LFound (rs, s) -> Printf.sprintf "F(%s,%s)" (show_single rs) (show_sos s)
  | Z.LCname (rs, s) -> Printf.sprintf "C(%s,%s)" (show_single rs) (show_sos s)
  | Z.LReferral (c, ns) -> Printf.sprintf "R(%s,%s)" (show_name c) (show_single ns)
  | Z.LNoRecords s -> Printf.sprintf "N(%s)" (show_sos s)
  | Z.LNxDomain -> "NX"
  | Z.LWrongZone -> "WZ"
let show_addrs = function
  | Z.AFound (a, b, s) -> Printf.sprintf "F(%s,%s,%s)" (show_opt show_single a) (show_opt show_single b) (show_sos s)
  | Z.AReferral (c, ns) -> Printf.sprintf "R(%s,%s)" (show_name c) (show_single ns)
  | Z.ANxDomain -> "NX"
  | Z.AWrongZone -> "WZ"
let show_all = function
  | Z.LAFound (l, s) -> Printf.sprintf "F([%s],%s)" (String.concat "|" (Stdlib.List.map show_rrset l)) (show_sos s)
  | Z.LAReferral (c, ns) -> Printf.sprintf "R(%s,%s)" (show_name c) (show_single ns)
  | Z.LANxDomain -> "NX"
  | Z.LAWrongZone -> "WZ"

let show_res f = function Res.Ok a -> f a | Res.Err e -> "err " ^ show_err e | Res.Panic -> "panic"
let show_spec f = function Some a -> f a | None -> "*"

(* the zone of the previous line is reused when the description is identical *)
let memo : (string * (Z.zone option * Z.record list)) option ref = ref None
let build apex cls recs_s =
  let key = String.concat " " [apex; cls; recs_s] in
  match !memo with
  | Some (k, v) when k = key -> v
  | _ ->
    let a = parse_name apex and c = n_of_int (int_of_string cls) in
    let recs = parse_records recs_s in
    let z = Z.zone_build req (Z.zone_new a c false) recs in
    let acc = S.accepted a c recs in
    let v = (z, acc) in
    memo := Some (key, v); v

let bools = [ (false, false); (false, true); (true, false); (true, true) ]

let op_lookup apex cls recs_s qn_s qtys_s =
  let a = parse_name apex and c = n_of_int (int_of_string cls) in
  let qn = parse_name qn_s in
  let qtys = Stdlib.List.map (fun s -> n_of_int (int_of_string s)) (split ',' qtys_s) in
  let (zo, acc) = build apex cls recs_s in
  let model = match zo with
    | None -> "panic-in-build"
    | Some z ->
      String.concat " / " (Stdlib.List.concat_map (fun (u, s) ->
        Stdlib.List.map (fun ty -> show_res show_lookup (Z.zone_lookup z qn ty u s)) qtys
        @ [ show_res show_addrs (Z.zone_lookup_addrs z qn u s);
            show_res show_all (Z.zone_lookup_all z qn u s) ]) bools) in
  let spec =
    String.concat " / " (Stdlib.List.concat_map (fun (u, s) ->
      (* the specification's answer, its names spelled as the zone spells them (c06_lookup_exact) *)
      Stdlib.List.map (fun ty -> show_spec show_lookup
          (Option.map (S.spell_lookup a acc) (S.spec_lookup sreq a c acc qn ty u s))) qtys
      @ [ show_spec show_addrs (Option.map (S.spell_addrs a acc) (S.spec_lookup_addrs sreq a c acc qn u s));
          show_spec show_all (Option.map (S.spell_all a acc) (S.spec_lookup_all sreq a c acc qn u s)) ]) bools) in
  model ^ " | " ^ spec

let sorted l = Stdlib.List.sort compare l
let uniq l = Stdlib.List.sort_uniq compare l

(* iteration goes through the model of Node::iter's state machine (node_iter_sm, proved equal to
   the pre-order walk zone_iter_by_node in Proofs/ZoneIterSmP.v); both are compared here *)
let show_state_model (z : Z.zone) =
  let it = match Z.node_iter_sm z.Z.z_apex with
    | Some l -> if l = Z.zone_iter_by_node z then l else failwith "state machine <> pre-order"
    | None -> failwith "OutOfFuel" in
  let nodes = sorted (Stdlib.List.map (fun (n, l) ->
      Printf.sprintf "%s[%s]" (show_name n) (String.concat "|" (Stdlib.List.map show_rrset l))) it) in
  let rrs = sorted (Stdlib.List.concat_map (fun (n, l) ->
      Stdlib.List.map (fun r -> Printf.sprintf "%s:%s" (show_name n) (show_rrset r)) l) it) in
  Printf.sprintf "N{%s} R{%s} S%s T%s" (String.concat ";" nodes) (String.concat ";" rrs)
    (show_opt show_single (Z.zone_soa z)) (show_opt show_single (Z.zone_ns z))

let show_state_spec a c (acc : Z.record list) =
  let la = S.lc a in
  let names = uniq (la :: Stdlib.List.concat_map (fun r -> S.spec_nodes_of a r) acc) in
  (* names printed as the zone spells them (c20_iter_names_spelled) *)
  let sp n = show_name (S.spelled a acc n) in
  let nodes = sorted (Stdlib.List.map (fun n ->
      Printf.sprintf "%s[%s]" (sp n) (String.concat "|" (Stdlib.List.map show_rrset (S.spec_rrsets sreq c acc n))))
      names) in
  let rrs = sorted (Stdlib.List.concat_map (fun n ->
      Stdlib.List.map (fun r -> Printf.sprintf "%s:%s" (sp n) (show_rrset r)) (S.spec_rrsets sreq c acc n))
      names) in
  Printf.sprintf "N{%s} R{%s} S%s T%s" (String.concat ";" nodes) (String.concat ";" rrs)
    (show_opt show_single (S.single_of sreq c acc la (n_of_int 6)))
    (show_opt show_single (S.single_of sreq c acc la (n_of_int 2)))

let op_history apex cls recs_s =
  let a = parse_name apex and c = n_of_int (int_of_string cls) in
  let recs = parse_records recs_s in
  let rec go_m z rs out = match rs with
    | [] -> Stdlib.List.rev out
    | r :: rs' ->
      (match Z.zone_add req z r with
       | Res.Ok (z', e) ->
         let v = (match e with None -> "ok" | Some e -> "err " ^ show_err e) in
         go_m z' rs' ((v ^ " " ^ show_state_model z') :: out)
       | _ -> Stdlib.List.rev ("panic" :: out)) in
  let z0 = Z.zone_new a c false in
  let model = String.concat " / " (("new " ^ show_state_model z0) :: go_m z0 recs []) in
  let rec go_s acc rs out = match rs with
    | [] -> Stdlib.List.rev out
    | r :: rs' ->
      let v = S.add_verdict a c acc r in
      let acc' = (match v with None -> acc @ [r] | Some _ -> acc) in
      let vs = (match v with None -> "ok" | Some e -> "err " ^ show_err e) in
      go_s acc' rs' ((vs ^ " " ^ show_state_spec a c acc') :: out) in
  let spec = String.concat " / " (("new " ^ show_state_spec a c []) :: go_s [] recs []) in
  model ^ " | " ^ spec

(* ---- C21: V <apex> <class> <wide 0|1> <records>; issues printed with lower-cased names,
   sorted, without duplicates, each followed by !e (error) or !w (warning) *)
module V = ZoneValid
module VS = ZoneValidS
let show_issue_name tag n = Printf.sprintf "%s(%s)" tag (show_name (S.lc n))
let show_issue = function
  | V.MissingApexSoa -> "MissingApexSoa" | V.TooManyApexSoas -> "TooManyApexSoas"
  | V.MissingApexNs -> "MissingApexNs"
  | V.MissingNsAddress n -> show_issue_name "MissingNsAddress" n
  | V.MissingMxAddress n -> show_issue_name "MissingMxAddress" n
  | V.MissingGlue n -> show_issue_name "MissingGlue" n
  | V.DuplicateCname n -> show_issue_name "DuplicateCname" n
  | V.OtherRecordsAtCname n -> show_issue_name "OtherRecordsAtCname" n
  | V.NsAtWildcard n -> show_issue_name "NsAtWildcard" n
let show_issues sev l =
  "ok " ^ (match uniq (Stdlib.List.map (fun i -> show_issue i ^ sev i) l) with [] -> "-" | l -> String.concat "," l)

let op_validate apex cls wide recs_s =
  let a = parse_name apex and c = n_of_int (int_of_string cls) in
  let w = (wide = "1") in
  let recs = parse_records recs_s in
  let model = match Z.zone_build req (Z.zone_new a c w) recs with
    | None -> "panic-in-build"
    | Some z ->
      (match V.zone_validate parse z with
       | Res.Ok l -> show_issues (fun i -> if V.issue_is_error i then "!e" else "!w") l
       | Res.Err e -> "err " ^ show_err e
       | Res.Panic -> "panic") in
  let acc = S.accepted a c recs in
  let spec = match VS.spec_validate sreq sparse a c w acc with
    | Some l -> show_issues (fun i -> if VS.spec_is_warning i then "!w" else "!e") l
    | None -> "err InvalidRdata" in
  model ^ " | " ^ spec

(* ---- RdataSetOwned at the octet-buffer level: B <class> <type> <rdata,rdata,...>
   model: RdataSetOwned::from_iter = insert every RDATA into an empty buffer, then iterate;
   spec: the RDATAs in order of first appearance, later equal ones dropped *)
let op_rdset cls ty rds_s =
  let c = n_of_int (int_of_string cls) and t = n_of_int (int_of_string ty) in
  let rds = Stdlib.List.map unhex (split ',' rds_s) in
  let buf = Stdlib.List.fold_left (fun b rd -> RdataBuf.buf_insert req c t b rd) [] rds in
  let show l = if l = [] then "none" else String.concat "+" (Stdlib.List.map hex l) in
  "ok " ^ show (RdataBuf.buf_rdatas buf) ^ " | ok " ^ show (S.dedup_first sreq c rds t)

let () = run_lines (fun f ->
  match f with
  | [ "L"; apex; cls; recs; qn; qtys ] -> op_lookup apex cls recs qn qtys
  | [ "H"; apex; cls; recs ] -> op_history apex cls recs
  | [ "V"; apex; cls; wide; recs ] -> op_validate apex cls wide recs
  | [ "B"; cls; ty; rds ] -> op_rdset cls ty rds
  | _ -> failwith "bad case line")
