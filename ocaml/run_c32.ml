(* C32 model-side runner.  Case: swap <mode> <nthreads> <ngens> <iters> (as impl_c32.rs).
   Builds nthreads*min(iters,12) handler threads and one swapper with the generations 1..ngens-1,
   runs the extracted [exec] under a pseudo-random schedule derived from the case, and evaluates
   the property (Spec/SnapshotS.v response_ok, searched exhaustively over the instants) on the
   trace: prints "ok | ok" like the implementation runner does for a consistent run. *)
open Qvutil
open Snapshot

let lcg = ref 1
let next_rand n = lcg := (!lcg * 1103515245 + 12345) land 0x3fffffff; (!lcg lsr 8) mod n

let () = run_lines (fun f ->
  match f with
  | ["swap"; mode; nt; ng; it] ->
    let nt = int_of_string nt and ng = int_of_string ng and it = min 12 (int_of_string it) in
    lcg := nt * 7919 + ng * 104729 + it + String.length mode;
    let use_keys = mode <> "cat" and swap_cat = mode <> "keys" in
    let nh = nt * it in
    (* request = (query index, Some j0 if signed) ; response = (req, catalog gen, key status) *)
    let reqs = Array.init nh (fun i -> (i mod 4, if use_keys && i mod 3 <> 0 then Some (i * 7 mod ng) else None)) in
    let needs_keys (_, s) = s <> None in
    let handle req c k = (req, c, (match snd req, k with Some j0, Some kj -> Some (j0 = kj) | _ -> None)) in
    let ops = Stdlib.List.concat (Stdlib.List.init (ng - 1) (fun g ->
        (if swap_cat then [SetCat (g + 1)] else []) @ (if use_keys then [SetKeys (g + 1)] else []))) in
    let ths = Array.to_list (Array.map (fun r -> Handler (r, HNew)) reqs) @ [Swapper (ops, None)] in
    (* schedule: random thread picks, then a sweep so that everything finishes *)
    let sched = Stdlib.List.init (nh * 8 + ng * 8) (fun _ -> nat_of_int (next_rand (nh + 1)))
                @ Stdlib.List.concat (Stdlib.List.init 4 (fun _ -> Stdlib.List.init (nh + 1) nat_of_int))
                @ Stdlib.List.init (ng * 4) (fun _ -> nat_of_int nh) in
    let (tr, _) = exec needs_keys handle sched (init ths 0 0) in
    let tra = Array.of_list tr in
    let n = Array.length tra in
    (* replay the cells from the write events alone *)
    let cat = Array.make (n + 1) (0, 0) and keys = Array.make (n + 1) (0, 0) in
    Array.iteri (fun i e ->
        cat.(i + 1) <- (match e with EWriteCat (_, v, c) -> (int_of_nat v, c) | _ -> cat.(i));
        keys.(i + 1) <- (match e with EWriteKeys (_, v, k) -> (int_of_nat v, k) | _ -> keys.(i))) tra;
    let ok = ref true and nresp = ref 0 in
    Array.iteri (fun e ev -> match ev with
        | ERespond (t, r) ->
          incr nresp;
          let t = int_of_nat t in
          let req = reqs.(t) in
          let found = ref false in
          (* the thread's start event *)
          let s = ref (-1) in
          for x = 0 to e - 1 do
            (match tra.(x) with EStart t' when int_of_nat t' = t && !s < 0 -> s := x | _ -> ())
          done;
          if !s >= 0 then begin
            let s = !s in
            (* newest version whose set_catalog returned before the start *)
            let maxret = ref 0 in
            for q = 0 to s - 1 do
              (match tra.(q) with ERetCat (_, v) -> if int_of_nat v > !maxret then maxret := int_of_nat v | _ -> ())
            done;
            for i = s + 1 to e - 1 do
              if fst cat.(i) >= !maxret then begin
                if needs_keys req then
                  for j = s + 1 to e - 1 do
                    if r = handle req (snd cat.(i)) (Some (snd keys.(j))) then found := true
                  done
                else if r = handle req (snd cat.(i)) None then found := true
              end
            done
          end;
          if not !found then ok := false
        | _ -> ()) tra;
    if !nresp <> nh then "bad not-all-responded | ok"
    else if !ok then "ok | ok" else "bad model-trace-violates-spec | ok"
  | _ -> failwith "bad case line")
