(* C27 model-side runner: same case lines as harness/src/bin/impl_c27.rs.
   `<v4len> <v6len> <slip> <size> <src1> <tr1> <kind1> <edns1> <src2> <tr2> <kind2> <edns2>`
   Prints "<model result> | <oracle result>": the model column runs the extracted
   process_response on the two requests (fresh table, 1 ms apart); the oracle column is the
   specification: the first response is never limited, the second is limited iff both are
   limitable (UDP, QUERY, a response exists) and [same_stream] of Spec/RrlStreamS.v holds. *)
open Qvutil
open BinNums

let n_add = BinNat.N.add and n_mul = BinNat.N.mul
let ten = n_of_int 10
(* arbitrary-size decimal *)
let n_of_dec (s : string) : coq_N =
  let r = ref N0 in
  String.iter (fun ch -> r := n_add (n_mul !r ten) (n_of_int (Char.code ch - 48))) s;
  !r

let label (s : string) : coq_N list =
  Stdlib.List.init (String.length s) (fun i -> n_of_int (Char.code s.[i]))

(* --- the glue shared with rrl_common::query: what the tiny zone answers ---------------- *)
(* returns (opcode, rcode, question, source of synthesis, send_response before RRL) *)
let kind_ctx (kind : string) =
  let k = String.sub kind 0 1 and l = String.sub kind 1 (String.length kind - 1) in
  let ex = label "example" in
  (* <label> may hold several labels separated by '.' *)
  let ls = Stdlib.List.map label (String.split_on_char '.' l) in
  match k with
  | "n" | "d" -> (0, 0, Some (ls @ [ex]), None, true)
  | "w" | "y" | "z" -> (0, 0, Some (ls @ [label "w"; ex]), Some [label "*"; label "w"; ex], true)
  | "b" -> (0, 0, Some (ls @ [label "big"; ex]), Some [label "*"; label "big"; ex], true)
  | "c" -> (0, 0, Some (ls @ [label "cw"; ex]), Some [label "*"; label "cw"; ex], true)
  | "g" -> (0, 3, Some (ls @ [label "cn"; ex]), Some [label "*"; label "cn"; ex], true)
  | "h" -> (0, 2, Some (ls @ [label "cl"; ex]), Some [label "*"; label "cl"; ex], true)
  | "x" -> (0, 3, Some (ls @ [label "nx"; ex]), None, true)
  | "r" -> (0, 5, Some (ls @ [label "other"]), None, true)
  | "f" -> (0, 1, None, None, true)
  | "u" -> (0, 16, None, None, true)      (* BADVERS without a question *)
  | "m" -> (0, 0, None, None, false)
  | "o" -> (4, 4, Some (ls @ [ex]), None, true)
  | "v" -> (0, 16, Some (ls @ [ex]), None, true)      (* BADVERS: extended RCODE 16 *)
  | _ -> failwith "unknown kind"

let mk_ctx kind edns src transport : Rrl.ctx =
  let edns = edns || String.sub kind 0 1 = "v" || String.sub kind 0 1 = "u" in
  let (op, rc, q, sos, send) = kind_ctx kind in
  let w = { Rrl.w_ancount = n_of_int 1; w_nscount = n_of_int 1; w_arcount = n_of_int (if edns then 2 else 1);
            w_edns = edns; w_tsig = false; w_tc = false; w_rcode = n_of_int rc } in
  { Rrl.c_source = src; c_transport = transport; c_opcode = n_of_int op; c_question = q; c_sos = sos;
    c_response = w; c_rrl_action = None; c_send_response = send }

(* stand-ins for the RandomState (any functions will do: the theorems hold for all) *)
let hname (b : coq_N list) : coq_N =
  n_of_int (Stdlib.List.fold_left (fun h x -> (h * 1000003 + int_of_n x + 1) land 0x3fffffffffff) 7 b)
let hkey (k : Rrl.key) : coq_N =
  let c = match k.Rrl.k_category with Rrl.NoError -> 1 | Rrl.NxDomain -> 2 | Rrl.ErrorCat -> 3 in
  let d = match k.Rrl.k_dest with N0 -> 0 | Npos _ -> Hashtbl.hash (k.Rrl.k_dest) in
  n_of_int ((d * 31 + int_of_n k.Rrl.k_qname_hash * 7 + c * 131 + (if k.Rrl.k_ipv6 then 977 else 0)) land 0x3fffffffffff)

let perr (e : Rrl.param_err) = match e with
  | Rrl.NoerrorRateIsZero -> "NoerrorRateIsZero" | Rrl.NxdomainRateIsZero -> "NxdomainRateIsZero"
  | Rrl.ErrorRateIsZero -> "ErrorRateIsZero" | Rrl.WindowIsZero -> "WindowIsZero"
  | Rrl.WindowIsTooLargeForRates -> "WindowIsTooLargeForRates"
  | Rrl.InvalidIpv4PrefixLen -> "InvalidIpv4PrefixLen" | Rrl.InvalidIpv6PrefixLen -> "InvalidIpv6PrefixLen"
  | Rrl.SizeIsZero -> "SizeIsZero"

(* RrlParams::new then the setters in the order of rrl_common::params *)
let params ne nx er win slip size v4 v6 : (Rrl.params, string) Stdlib.result =
  let ( >>= ) r f = match r with
    | Res.Ok p -> f p | Res.Err e -> Stdlib.Error ("err " ^ perr e) | Res.Panic -> Stdlib.Error "panic" in
  Rrl.params_new ne nx er win >>= fun p ->
  let p = Rrl.set_slip p slip in
  Rrl.set_size p size >>= fun p ->
  Rrl.set_ipv4_prefix_len p v4 >>= fun p ->
  Rrl.set_ipv6_prefix_len p v6 >>= fun p -> Stdlib.Ok p

let letter slip (c : Rrl.ctx) : string =
  let edns = c.Rrl.c_response.Rrl.w_edns and tsig = c.Rrl.c_response.Rrl.w_tsig in
  match Rrl.final_response c with
  | None -> if slip >= 2 then "L" else "D"
  | Some w ->
    if not w.Rrl.w_tc then "S"
    else
      let an = int_of_n w.Rrl.w_ancount and ns = int_of_n w.Rrl.w_nscount and ar = int_of_n w.Rrl.w_arcount in
      if an = 0 && ns = 0 && ar = (if edns then 1 else 0) + (if tsig then 1 else 0)
      then (if slip >= 2 then "L" else "T")
      else Printf.sprintf "t(an=%d,ns=%d,ar=%d)" an ns ar


let addr (h : string) : Rrl.ipaddr =
  let o = unhex h in
  if Stdlib.List.length o = 4 then Rrl.V4 o else Rrl.V6 o
let saddr (h : string) : RrlStreamS.saddr =
  let o = unhex h in
  if Stdlib.List.length o = 4 then RrlStreamS.S4 o else RrlStreamS.S6 o

let t0 = n_of_dec "1000000000"

let () = run_lines (fun f ->
  match f with
  | [v4; v6; slip; size; s1; tr1; k1; e1; s2; tr2; k2; e2] ->
    let slip_i = int_of_string slip in
    let one = n_of_int 1 in
    let tr s = if s = "udp" then Rrl.Udp else Rrl.Tcp in
    let reqs = [ (s1, tr1, k1, e1 = "1"); (s2, tr2, k2, e2 = "1") ] in
    let lim_letter = if slip_i >= 2 then "L" else if slip_i = 1 then "T" else "-" in
    let none_letter = if slip_i >= 2 then "L" else "-" in
    let model =
      match params one one one one (n_of_int slip_i) (n_of_dec size) (n_of_dec v4) (n_of_dec v6) with
      | Stdlib.Error e -> e
      | Stdlib.Ok p ->
        let h = Stdlib.List.mapi (fun i (s, t, k, e) ->
            ((mk_ctx k e (Rrl.received_info_source (addr s)) (tr t),
              n_add t0 (n_of_int (1000000 * (i + 1)))), N0)) reqs in
        (match Rrl.run_requests hname hkey p (Rrl.rrl_new p t0) h with
         | Res.Ok (_, cs) ->
           "ok " ^ String.concat " " (Stdlib.List.map (fun c ->
               let l = letter slip_i c in
               if l = "D" then "-" else l) cs)
         | Res.Err () -> "err"
         | Res.Panic -> "panic") in
    let oracle =
      if int_of_string v4 > 32 || int_of_string v6 > 64 || n_of_dec size = N0 then "reject"
      else begin
        let descr (s, t, k, _) =
          let (op, rc, q, sos, send) = kind_ctx k in
          let name = match sos with Some n -> n | None -> (match q with Some n -> n | None -> []) in
          (RrlStreamS.limitable (t = "udp") (n_of_int op) send, send,
           { RrlStreamS.s_dest = saddr s; s_rcode = n_of_int rc; s_name = name }) in
        match Stdlib.List.map descr reqs with
        | [ (l1, send1, r1); (l2, send2, r2) ] ->
          let a1 = if send1 then "S" else none_letter in
          let a2 =
            if not send2 then none_letter
            else if l1 && l2 && RrlStreamS.same_stream (n_of_dec v4) (n_of_dec v6) r1 r2 then lim_letter
            else "S" in
          "ok " ^ a1 ^ " " ^ a2
        | _ -> "-"
      end in
    model ^ " | " ^ oracle
  | _ -> failwith "bad case line")
