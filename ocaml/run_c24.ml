(* C24 model-side runner: same case lines as harness/src/bin/impl_c24.rs.
   zf <mode> <hexfile>      -> items of the zone-file iterator (mode = how the real Reader is fed; ignored here)
   zro <mode> <hexfile>     -> items of the records-only iterator (Parser::records_only())
   u8|u16|u32|ip4|ip6|class|type <hexstring> -> the std / mnemonic parsers
   Oracle column: `-` (the property predicate of C24 is evaluated on the implementation line by
   checks/c24.py: no panic, nothing after the first error, every record valid). *)
open Qvutil

let int_err = function
  | ZfStd.IeEmpty -> "Empty" | ZfStd.IeInvalidDigit -> "InvalidDigit" | ZfStd.IePosOverflow -> "PosOverflow"
let sym_err = function ZfStd.SeUnknown -> "unknown" | ZfStd.SeBadValue -> "badvalue"
let name_err (e : NameWire.name_err) = match e with
  | NameWire.ExtraData -> "ExtraData" | NameWire.InvalidEscape -> "InvalidEscape"
  | NameWire.InvalidPointer -> "InvalidPointer" | NameWire.LabelTooLong -> "LabelTooLong"
  | NameWire.NameTooLong -> "NameTooLong" | NameWire.NonNullTerminal -> "NonNullTerminal"
  | NameWire.NullNonTerminal -> "NullNonTerminal" | NameWire.StrEmpty -> "StrEmpty"
  | NameWire.StrNotAscii -> "StrNotAscii" | NameWire.UnexpectedEom -> "UnexpectedEom"
  | NameWire.OutOfFuel -> "OutOfFuel"

let kind (k : ZfReader.zkind) = let open ZfReader in match k with
  | AtWhenOriginNotSet -> "AtWhenOriginNotSet" | BadUtf8 -> "BadUtf8"
  | CharacterStringTooLong -> "CharacterStringTooLong" | EmptyOwnerWithNoPrevious -> "EmptyOwnerWithNoPrevious"
  | EofBeforeCloseParen -> "EofBeforeCloseParen" | EofInEscape -> "EofInEscape"
  | EofInQuotedCharacterString -> "EofInQuotedCharacterString" | EofInQuotedIncludePath -> "EofInQuotedIncludePath"
  | EscapeNeedsThreeDigits -> "EscapeNeedsThreeDigits" | EscapeValueOutOfRange -> "EscapeValueOutOfRange"
  | ExpectedBackslashHash -> "ExpectedBackslashHash" | ExpectedChaosnetAddr -> "ExpectedChaosnetAddr"
  | ExpectedCharacterString -> "ExpectedCharacterString" | ExpectedCharacterStringOrBh -> "ExpectedCharacterStringOrBh"
  | ExpectedClassOrType -> "ExpectedClassOrType" | ExpectedEol -> "ExpectedEol"
  | ExpectedHexRdata -> "ExpectedHexRdata" | ExpectedIncludePath -> "ExpectedIncludePath"
  | ExpectedIpProto -> "ExpectedIpProto" | ExpectedIpv4OrBh -> "ExpectedIpv4OrBh"
  | ExpectedIpv6OrBh -> "ExpectedIpv6OrBh" | ExpectedName -> "ExpectedName"
  | ExpectedNameOrBh -> "ExpectedNameOrBh" | ExpectedRdataLen -> "ExpectedRdataLen"
  | ExpectedTtl -> "ExpectedTtl" | ExpectedTtlClassOrType -> "ExpectedTtlClassOrType"
  | ExpectedTtlOrType -> "ExpectedTtlOrType" | ExpectedType -> "ExpectedType"
  | ExpectedU16 -> "ExpectedU16" | ExpectedU16OrBh -> "ExpectedU16OrBh" | ExpectedU32 -> "ExpectedU32"
  | FieldTooLong -> "FieldTooLong" | IncludeNotSupported -> "IncludeNotSupported"
  | IncludePathTooLong -> "IncludePathTooLong" | InvalidChaosnetAddr -> "InvalidChaosnetAddr"
  | InvalidClass e -> "InvalidClass:" ^ sym_err e | InvalidHexDigit -> "InvalidHexDigit"
  | InvalidInt e -> "InvalidInt:" ^ int_err e | InvalidIpv4 -> "InvalidIpv4" | InvalidIpv6 -> "InvalidIpv6"
  | InvalidLabel e -> "InvalidLabel:" ^ name_err e | InvalidName e -> "InvalidName:" ^ name_err e
  | InvalidRdataForType -> "InvalidRdataForType" | InvalidRdataLen e -> "InvalidRdataLen:" ^ int_err e
  | InvalidTtl e -> "InvalidTtl:" ^ int_err e | InvalidType e -> "InvalidType:" ^ sym_err e
  | NestedParens -> "NestedParens" | NullNotAllowed -> "NullNotAllowed"
  | OmittedClassWithNoPrevious -> "OmittedClassWithNoPrevious"
  | OmittedTtlWithNoDefaultOrPrevious -> "OmittedTtlWithNoDefaultOrPrevious"
  | OptNotAllowed -> "OptNotAllowed" | PqdnWhenOriginNotSet -> "PqdnWhenOriginNotSet"
  | TsigNotAllowed -> "TsigNotAllowed" | TxtTooLong -> "TxtTooLong"
  | UnexpectedEndOfHexRdata -> "UnexpectedEndOfHexRdata" | UnknownDirective -> "UnknownDirective"
  | UnmatchedCloseParen -> "UnmatchedCloseParen" | WksTooLong -> "WksTooLong"

let show_name (nm : NameWire.name) =
  Printf.sprintf "%s/%d" (hex nm.NameWire.n_wire) (Stdlib.List.length nm.NameWire.n_offsets)

let show_record n (r : ZfParser.rr) =
  let v = match ZfParser.rdata_validate r.ZfParser.rr_class r.ZfParser.rr_type r.ZfParser.rr_rdata with
    | Res.Ok true -> "ok" | Res.Ok false -> "bad" | Res.Err _ -> "unmodelled" | Res.Panic -> "panic" in
  Printf.sprintf "R%d o=%s t=%d c=%d y=%d d=%s v=%s" n (show_name r.ZfParser.rr_owner)
    (int_of_n r.ZfParser.rr_ttl) (int_of_n r.ZfParser.rr_class) (int_of_n r.ZfParser.rr_type)
    (hex r.ZfParser.rr_rdata) v

let show_error (p, k) =
  Printf.sprintf "E%d:%d %s" (int_of_n p.ZfReader.p_line) (int_of_n p.ZfReader.p_col) (kind k)

let show_item (it : (ZfParser.line, ZfReader.pos * ZfReader.zkind) Datatypes.sum) = match it with
  | Datatypes.Coq_inl l ->
    let n = int_of_n l.ZfParser.l_number in
    (match l.ZfParser.l_content with
     | ZfParser.CRecord r -> show_record n r
     | ZfParser.CInclude (p, o) ->
       Printf.sprintf "I%d p=%s o=%s" n (hex p) (match o with Some nm -> show_name nm | None -> "none"))
  | Datatypes.Coq_inr e -> show_error e

(* after the iterator returned None: three more calls, count what they yield *)
let after (p : ZfParser.coq_parser) =
  let rec go k p acc =
    if k = 0 then string_of_int acc
    else match ZfParser.parser_next p with
      | Res.Ok (Some _, p') -> go (k - 1) p' (acc + 1)
      | Res.Ok (None, p') -> go (k - 1) p' acc
      | Res.Err _ -> "outoffuel"
      | Res.Panic -> "panic" in
  go 3 p 0

let run_zf buf =
  match ZfParser.parse_all buf with
  | Res.Ok (items, p) ->
    String.concat " ; " (Stdlib.List.map show_item items @ ["after=" ^ after p])
  | Res.Err _ -> "outoffuel"
  | Res.Panic -> "panic"

(* the records-only iterator (model of RecordsOnly) *)
let run_zro buf =
  let after p =
    let rec go k p acc =
      if k = 0 then string_of_int acc
      else match ZfRecOnly.ro_next p with
        | Res.Ok (Some _, p') -> go (k - 1) p' (acc + 1)
        | Res.Ok (None, p') -> go (k - 1) p' acc
        | Res.Err _ -> "outoffuel"
        | Res.Panic -> "panic" in
    go 3 p 0 in
  match ZfRecOnly.ro_all buf with
  | Res.Ok (items, p) ->
    let show = function
      | Datatypes.Coq_inl l -> show_record (int_of_n l.ZfRecOnly.ro_number) l.ZfRecOnly.ro_record
      | Datatypes.Coq_inr e -> show_error e in
    String.concat " ; " (Stdlib.List.map show items @ ["after=" ^ after p])
  | Res.Err _ -> "outoffuel"
  | Res.Panic -> "panic"

(* ---- C23 `render` suite: decode the serialized abstract lines + choices (checks/zfcoq.py: ser_lines), render them with the
   extracted Coq renderer (Spec/ZfRenderS.v) and compare with the Python rendering; the oracle column is what
   Coq's number_lines says the file denotes ------------------------------------------------------------------------------ *)
module R = ZfRenderS

let decode_lines (ser : string) : R.aline list =
  let toks = Array.of_list (String.split_on_char ',' ser) in
  let i = ref 0 in
  let next () = let t = toks.(!i) in incr i; t in
  let int () = int_of_string (next ()) in
  let n () = n_of_int (int ()) in
  let nat () = nat_of_int (int ()) in
  let bl () = next () = "1" in
  let by () = unhex (next ()) in
  let lst f = let k = int () in Stdlib.List.init k (fun _ -> f ()) in
  let esc () = match int () with 0 -> R.ERaw | 1 -> R.EChar | _ -> R.EDec in
  let escs () = lst esc in
  let sitem () = match int () with
    | 0 -> R.SOpen | 1 -> R.SClose | 2 -> R.SNl (bl ())
    | _ -> let t = by () in let c = bl () in R.SComment (t, c) in
  let sep () =
    let gs = lst (fun () -> let b = by () in let it = sitem () in (b, it)) in
    let tl = by () in { R.s_groups = gs; R.s_tail = tl } in
  let term () = match int () with
    | 0 -> R.TNl (bl ()) | 1 -> let t = by () in let c = bl () in R.TComment (t, c)
    | 2 -> R.TEof | _ -> R.TCommentEof (by ()) in
  let eol () = let s = sep () in let t = term () in { R.e_sep = s; R.e_term = t } in
  let labels () = lst by in
  let nch () = match int () with
    | 0 -> R.NAt | 1 -> R.NAbs (lst escs)
    | _ -> let k = nat () in let e = lst escs in R.NRel (k, e) in
  let ich () = let p = bl () in let z = nat () in { R.i_plus = p; R.i_zeros = z } in
  let sym () = match int () with
    | 0 -> R.SymMnemonic (lst bl)
    | _ -> let l = lst bl in let ic = ich () in R.SymNumeric (l, ic) in
  let sch () = match int () with 0 -> R.SQuoted (escs ()) | _ -> R.SUnquoted (escs ()) in
  let fch () = match int () with
    | 0 -> R.CName (nch ()) | 1 -> R.CInt (ich ())
    | 2 -> let d = lst nat in let u = lst bl in
      let z = (match int () with 0 -> None | _ -> let i = nat () in let k = nat () in Some (i, k)) in
      R.CIp6 { R.g_drop = d; R.g_upper = u; R.g_zip = z }
    | 3 -> R.CStr (sch ())
    | 5 -> (match int () with 0 -> R.CProto (R.PTcp (lst bl)) | 1 -> R.CProto (R.PUdp (lst bl)) | _ -> R.CProto (R.PNum (ich ())))
    | _ -> R.CPlain in
  let fval () = match int () with
    | 0 -> R.VName (labels ()) | 1 -> R.VU16 (n ()) | 2 -> R.VU32 (n ()) | 3 -> R.VOct (n ())
    | 4 -> let a = n () in let b = n () in let c = n () in let d = n () in R.VIp4 (a, b, c, d)
    | 5 -> R.VIp6 (lst n) | 7 -> R.VProto (n ()) | 8 -> R.VPort (n ()) | _ -> R.VStr (by ()) in
  let tcc () = match int () with
    | 0 -> R.TcNone
    | 1 -> let raw = n () in let ic = ich () in let s = sep () in R.TcT (raw, ic, s)
    | 2 -> let sc = sym () in let s = sep () in R.TcC (sc, s)
    | 3 -> let raw = n () in let ic = ich () in let s1 = sep () in let sc = sym () in let s2 = sep () in R.TcTC (raw, ic, s1, sc, s2)
    | _ -> let sc = sym () in let s1 = sep () in let raw = n () in let ic = ich () in let s2 = sep () in R.TcCT (sc, s1, raw, ic, s2) in
  let dch () = match int () with
    | 0 -> R.DFields (lst (fun () -> let s = sep () in let f = fch () in (s, f)))
    | _ -> let s0 = sep () in let s1 = sep () in let ic = ich () in
      let ws = lst (fun () -> let so = (match int () with 0 -> None | _ -> Some (sep ())) in
                              let u1 = bl () in let u2 = bl () in ((so, u1), u2)) in
      R.DGeneric (s0, s1, ic, ws) in
  let rdata () = match int () with 0 -> R.AFields (lst fval) | _ -> R.AGeneric (by ()) in
  let line () = match int () with
    | 0 ->
      let lead = sep () in
      let owner = (match int () with 0 -> None | _ -> let nc = nch () in let s = sep () in Some (nc, s)) in
      let tc = tcc () in let ty = sym () in let rd = dch () in let e = eol () in
      let o = labels () in let ttl = n () in let c = n () in let t = n () in let d = rdata () in
      R.LRecord ({ R.rc_lead = lead; R.rc_owner = owner; R.rc_tc = tc; R.rc_type = ty; R.rc_rdata = rd; R.rc_end = e },
                 { R.a_owner = o; R.a_ttl = ttl; R.a_class = c; R.a_type = t; R.a_rdata = d })
    | 1 -> R.LBlank (eol ())
    | 2 -> let l = lst bl in let s = sep () in let nc = nch () in let ls = labels () in let e = eol () in R.LOrigin (l, s, nc, ls, e)
    | 4 -> let l = lst bl in let s = sep () in let pc = sch () in let path = by () in
      let org = (match int () with 0 -> None | _ -> let s2 = sep () in let nc = nch () in let ls = labels () in Some ((s2, nc), ls)) in
      let e = eol () in R.LInclude (l, s, pc, path, org, e)
    | _ -> let l = lst bl in let s = sep () in let ic = ich () in let raw = n () in let e = eol () in R.LTtl (l, s, ic, raw, e) in
  lst line

let show_denoted (items : (BinNums.coq_N * R.aitem) list) =
  let nm ls = Printf.sprintf "%s/%d" (hex (NameWireS.wire_of ls)) (Stdlib.List.length ls + 1) in
  let one (ln, it) = match it with
    | R.IRecord r ->
      Printf.sprintf "R%d o=%s t=%d c=%d y=%d d=%s v=ok" (int_of_n ln) (nm r.R.a_owner)
        (int_of_n r.R.a_ttl) (int_of_n r.R.a_class) (int_of_n r.R.a_type) (hex (R.rdata_wire R.rfc_order r.R.a_rdata))
    | R.IInclude (path, o) ->
      Printf.sprintf "I%d p=%s o=%s" (int_of_n ln) (hex path) (match o with Some ls -> nm ls | None -> "none") in
  String.concat " ; " (Stdlib.List.map one items @ ["after=0"])

let run_zrc file expected ser =
  let lines = decode_lines ser in
  (* the specification with the RFC's numbering of the WKS bits (known finding C23-1: the parser's differs) *)
  let coq_text = R.render R.rfc_order lines in
  let denoted = show_denoted (R.number_lines R.rfc_order lines) in
  if not (R.file_ok R.rfc_order R.sctx0 lines) then "coq-file_ok=false | " ^ denoted
  else if coq_text <> file then "coq-render=" ^ hex coq_text ^ " | " ^ denoted
  else if denoted <> expected then "coq-denotes-differently | " ^ denoted
  else run_zf file ^ " | " ^ denoted

let show_uint max buf =
  if not (ZfStd.utf8_valid buf) then "badutf8"
  else match ZfStd.parse_uint max buf with
    | Datatypes.Coq_inl v -> Printf.sprintf "ok %d" (int_of_n v)
    | Datatypes.Coq_inr e -> "err " ^ int_err e

let show_sym f buf =
  if not (ZfStd.utf8_valid buf) then "badutf8"
  else match f buf with
    | Datatypes.Coq_inl v -> Printf.sprintf "ok %d" (int_of_n v)
    | Datatypes.Coq_inr e -> "err " ^ sym_err e

let show_ip f buf =
  if not (ZfStd.utf8_valid buf) then "badutf8"
  else match f buf with Some o -> "ok " ^ hex o | None -> "err"

let string_of_hex h =
  String.concat "" (Stdlib.List.map (fun x -> String.make 1 (Char.chr (int_of_n x))) (unhex h))

let () = run_lines (fun f ->
  match f with
  | ["zrc"; _; hx; expected; ser] -> run_zrc (unhex hx) (string_of_hex expected) ser
  | ["zfx"; _; hx; expected] ->
    (* C23: the expected parse (computed by the generator from the abstract records) is the oracle *)
    run_zf (unhex hx) ^ " | " ^ string_of_hex expected
  | _ ->
  let m = match f with
    | ["zf"; _; hx] -> run_zf (unhex hx)
    | ["zro"; _; hx] -> run_zro (unhex hx)
    | ["u8"; hx] -> show_uint ZfStd.coq_U8_MAX (unhex hx)
    | ["u16"; hx] -> show_uint ZfStd.coq_U16_MAX (unhex hx)
    | ["u32"; hx] -> show_uint ZfStd.coq_U32_MAX (unhex hx)
    | ["ip4"; hx] -> show_ip ZfStd.ipv4_from_str (unhex hx)
    | ["ip6"; hx] -> show_ip ZfStd.ipv6_from_str (unhex hx)
    | ["class"; hx] -> show_sym ZfStd.class_from_str (unhex hx)
    | ["type"; hx] -> show_sym ZfStd.type_from_str (unhex hx)
    | ["utf8"; hx] -> if ZfStd.utf8_valid (unhex hx) then "ok" else "badutf8"
    | _ -> failwith "bad case line" in
  m ^ " | -")
