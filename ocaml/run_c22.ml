(* C22 model-side runner: same case lines as harness/src/bin/impl_c22.rs (a line is a whole
   history, one step per field).  Prints "<model result> | <oracle result>": the model is
   the tree of Model/CatTree.v, the oracle the flat reference map of Spec/CatTreeS.v. *)
open Qvutil

type ent = BinNums.coq_N CatTree.entry

let parse_name (s : string) : CatTree.cname =
  if s = "@" then [] else Stdlib.List.map unhex (String.split_on_char '.' s)

let show_name (n : CatTree.cname) =
  if n = [] then "@" else String.concat "." (Stdlib.List.map hex n)

let show_entry (e : ent) =
  Printf.sprintf "%d/%s/%d" (int_of_n e.CatTree.e_class) (show_name e.CatTree.e_name) (int_of_n e.CatTree.e_val)

let show_opt = function Some e -> show_entry e | None -> "none"

let show_list (l : ent list) =
  "[" ^ String.concat "," (Stdlib.List.sort compare (Stdlib.List.map show_entry l)) ^ "]"

let mk cls name tag : ent =
  { CatTree.e_name = parse_name name; e_class = n_of_int (int_of_string cls); e_val = n_of_int (int_of_string tag) }

let ename (e : ent) = e.CatTree.e_name
let eclass (e : ent) = e.CatTree.e_class

exception Model_panic

(* one step on the model; returns (catalog', text) *)
let model_step cat (p : string list) =
  let unres = function Res.Ok x -> x | _ -> raise Model_panic in
  let cls c = n_of_int (int_of_string c) in
  match p with
  | ["i"; c; n; t] ->
    (match unres (CatTree.cat_step cat (CatTree.OpInsert (mk c n t))) with
     | (cat', CatTree.OutEntry o) -> (cat', show_opt o ^ "=" ^ show_list (CatTree.cat_iter cat'))
     | _ -> failwith "shape")
  | ["r"; c; n] ->
    (match unres (CatTree.cat_step cat (CatTree.OpRemove (parse_name n, cls c))) with
     | (cat', CatTree.OutEntry o) -> (cat', show_opt o ^ "=" ^ show_list (CatTree.cat_iter cat'))
     | _ -> failwith "shape")
  | ["l"; c; n] ->
    (match unres (CatTree.cat_step cat (CatTree.OpLookup (parse_name n, cls c))) with
     | (cat', CatTree.OutEntry o) -> (cat', show_opt o)
     | _ -> failwith "shape")
  | ["g"; c; n] ->
    (match unres (CatTree.cat_step cat (CatTree.OpGet (parse_name n, cls c))) with
     | (cat', CatTree.OutEntry o) -> (cat', show_opt o)
     | _ -> failwith "shape")
  | ["it"] ->
    (match unres (CatTree.cat_step cat CatTree.OpIter) with
     | (cat', CatTree.OutIter l) -> (cat', show_list l)
     | _ -> failwith "shape")
  | ["sl"; ec; en; t; c; n] -> (cat, show_opt (CatTree.single_lookup (mk ec en t) (parse_name n) (cls c)))
  | ["sg"; ec; en; t; c; n] -> (cat, show_opt (CatTree.single_get (mk ec en t) (parse_name n) (cls c)))
  | _ -> failwith "unknown step"

(* the same step on the reference map *)
let oracle_step (m : ent list) (p : string list) =
  let cls c = n_of_int (int_of_string c) in
  let one op = match CatTreeS.l_step ename eclass m op with
    | (m', CatTreeS.ROne o) -> (m', o)
    | _ -> failwith "shape" in
  match p with
  | ["i"; c; n; t] -> let (m', o) = one (CatTreeS.RInsert (mk c n t)) in (m', show_opt o ^ "=" ^ show_list m')
  | ["r"; c; n] -> let (m', o) = one (CatTreeS.RRemove (parse_name n, cls c)) in (m', show_opt o ^ "=" ^ show_list m')
  | ["l"; c; n] -> let (m', o) = one (CatTreeS.RLookup (parse_name n, cls c)) in (m', show_opt o)
  | ["g"; c; n] -> let (m', o) = one (CatTreeS.RGet (parse_name n, cls c)) in (m', show_opt o)
  | ["it"] -> (match CatTreeS.l_step ename eclass m CatTreeS.RIter with
      | (m', CatTreeS.RAll l) -> (m', show_list l)
      | _ -> failwith "shape")
  (* a SingleZoneCatalog is the reference map with exactly that one entry *)
  | ["sl"; ec; en; t; c; n] ->
    (m, show_opt (CatTreeS.l_lookup ename eclass [mk ec en t] (cls c) (CatTreeS.canon (parse_name n))))
  | ["sg"; ec; en; t; c; n] ->
    (m, show_opt (CatTreeS.l_get ename eclass [mk ec en t] (cls c, CatTreeS.canon (parse_name n))))
  | _ -> failwith "unknown step"

let () = run_lines (fun f ->
  let steps = Stdlib.List.map (String.split_on_char ':') f in
  let model =
    try
      let (_, outs) = Stdlib.List.fold_left (fun (cat, acc) p ->
          let (cat', s) = model_step cat p in (cat', s :: acc)) (CatTree.cat_new, []) steps in
      String.concat " " ("ok" :: Stdlib.List.rev outs)
    with Model_panic -> "panic" in
  let (_, outs) = Stdlib.List.fold_left (fun (m, acc) p ->
      let (m', s) = oracle_step m p in (m', s :: acc)) ([], []) steps in
  model ^ " | " ^ String.concat " " ("ok" :: Stdlib.List.rev outs))
