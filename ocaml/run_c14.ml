(* C14 model-side runner: same case lines as harness/src/bin/impl_c14.rs.
   Prints "<model result> | <spec-oracle result>"; the oracle column is the
   executable RFC 1035 decoder of Spec/NameWireS.v (proved equal to the relation). *)
open Qvutil

let err_name (e : NameWire.name_err) = match e with
  | NameWire.ExtraData -> "ExtraData" | NameWire.InvalidEscape -> "InvalidEscape"
  | NameWire.InvalidPointer -> "InvalidPointer" | NameWire.LabelTooLong -> "LabelTooLong"
  | NameWire.NameTooLong -> "NameTooLong" | NameWire.NonNullTerminal -> "NonNullTerminal"
  | NameWire.NullNonTerminal -> "NullNonTerminal" | NameWire.StrEmpty -> "StrEmpty"
  | NameWire.StrNotAscii -> "StrNotAscii" | NameWire.UnexpectedEom -> "UnexpectedEom"
  | NameWire.OutOfFuel -> "OutOfFuel"

let show_name (nm : NameWire.name) =
  let n = Stdlib.List.length nm.NameWire.n_offsets in
  let labels = Stdlib.List.init n (fun i ->
    match NameWire.label_at nm (nat_of_int i) with
    | Res.Ok l -> hex l
    | _ -> "BADLABEL") in
  Printf.sprintf "wire=%s labels=%s" (hex nm.NameWire.n_wire) (String.concat "," labels)

let show_res okf r = match r with
  | Res.Ok a -> "ok" ^ okf a
  | Res.Err e -> "err " ^ err_name e
  | Res.Panic -> "panic"

let rec drop n l = if n <= 0 then l else match l with [] -> [] | _ :: t -> drop (n - 1) t

(* what the spec says the API must return, as an ok-line or "reject" *)
let oracle op buf start =
  let sub = drop start buf in
  match op with
  | "pc" -> (match NameWireS.spec_decode_name buf (nat_of_int start) with
      | Some (ls, l) -> Printf.sprintf "ok %s len=%d" (show_name (NameRepr.name_of ls)) (int_of_nat l)
      | None -> "reject")
  | "pu" | "pua" | "vu" | "vua" ->
    (* uncompressed: decode with chunk start 0 at offset 0 of the sub-buffer => no pointer can be legal *)
    (match NameWireS.spec_decode_name sub (nat_of_int 0) with
     | Some (ls, l) ->
       let l = int_of_nat l in
       let all = (op = "pua" || op = "vua") in
       if all && l <> Stdlib.List.length sub then "reject"
       else (match op with
           | "pu" -> Printf.sprintf "ok %s len=%d" (show_name (NameRepr.name_of ls)) l
           | "pua" -> Printf.sprintf "ok %s" (show_name (NameRepr.name_of ls))
           | "vu" -> Printf.sprintf "ok len=%d" l
           | _ -> "ok")
     | None -> "reject")
  | _ -> "-"

let () = run_lines (fun f ->
  match f with
  | [op; hx; st] ->
    let buf = unhex hx in
    let start = int_of_string st in
    let sub = drop start buf in
    let m = match op with
      | "pc" -> show_res (fun (nm, l) -> Printf.sprintf " %s len=%d" (show_name nm) (int_of_nat l))
                  (NameWire.parse_compressed_name buf (nat_of_int start))
      | "pu" -> show_res (fun (nm, l) -> Printf.sprintf " %s len=%d" (show_name nm) (int_of_nat l))
                  (NameWire.parse_uncompressed_name sub false)
      | "pua" -> show_res (fun (nm, _) -> Printf.sprintf " %s" (show_name nm))
                   (NameWire.parse_uncompressed_name sub true)
      | "vu" -> show_res (fun l -> Printf.sprintf " len=%d" (int_of_nat l))
                  (NameWire.validate_uncompressed_name sub false)
      | "vua" -> show_res (fun _ -> "") (NameWire.validate_uncompressed_name sub true)
      | "sk" -> show_res (fun l -> Printf.sprintf " len=%d" (int_of_nat l))
                  (NameWire.skip_compressed_name sub)
      | _ -> failwith "unknown op" in
    m ^ " | " ^ oracle op buf start
  | _ -> failwith "bad case line")
