(* C18 model-side runner: same case lines as harness/src/bin/impl_c18.rs.
   Prints "<model result> | <spec-oracle result>"; the oracle column comes from
   the executable RFC grammar of Spec/RdataFormatS.v (spec_valid / spec_read) and, for
   op c, the executable split of Spec/RdataCompS.v (spec_components). *)
open Qvutil

let name_err_name (e : NameWire.name_err) = match e with
  | NameWire.ExtraData -> "ExtraData" | NameWire.InvalidEscape -> "InvalidEscape"
  | NameWire.InvalidPointer -> "InvalidPointer" | NameWire.LabelTooLong -> "LabelTooLong"
  | NameWire.NameTooLong -> "NameTooLong" | NameWire.NonNullTerminal -> "NonNullTerminal"
  | NameWire.NullNonTerminal -> "NullNonTerminal" | NameWire.StrEmpty -> "StrEmpty"
  | NameWire.StrNotAscii -> "StrNotAscii" | NameWire.UnexpectedEom -> "UnexpectedEom"
  | NameWire.OutOfFuel -> "OutOfFuel"

let err_name (e : RdataM.rd_err) = match e with
  | RdataM.InvalidName n -> "InvalidName(" ^ name_err_name n ^ ")"
  | RdataM.RUnexpectedEom -> "UnexpectedEom"
  | RdataM.ROther -> "Other"
  | RdataM.ROutOfFuel -> "OutOfFuel"

let show_res okf r = match r with
  | Res.Ok a -> "ok" ^ okf a
  | Res.Err e -> "err " ^ err_name e
  | Res.Panic -> "panic"

let show_comp (c : RdataM.component) = match c with
  | RdataM.CName (true, nm) -> "C:" ^ hex nm.NameWire.n_wire
  | RdataM.CName (false, nm) -> "U:" ^ hex nm.NameWire.n_wire
  | RdataM.COther b -> "O:" ^ hex b

let show_piece (p : RdataCompS.piece) = match p with
  | RdataCompS.PName (true, w) -> "C:" ^ hex w
  | RdataCompS.PName (false, w) -> "U:" ^ hex w
  | RdataCompS.POctets b -> "O:" ^ hex b

let () = run_lines (fun f ->
  match f with
  | op :: cl :: ty :: hx :: rest ->
    let c = n_of_int (int_of_string cl) and t = n_of_int (int_of_string ty) in
    let buf = unhex hx in
    (match op, rest with
     | "v", [] ->
       show_res (fun _ -> "") (RdataM.validate c t buf) ^ " | " ^
       (if RdataFormatS.spec_valid c t buf then "ok" else "reject")
     | "r", [cur; len] ->
       let cur = nat_of_int (int_of_string cur) and len = n_of_int (int_of_string len) in
       show_res (fun r -> " " ^ hex r) (RdataM.read c t buf cur len) ^ " | " ^
       (match RdataFormatS.spec_read c t buf cur len with
        | Some r -> "ok " ^ hex r
        | None -> "reject")
     | "c", [] ->
       show_res (fun cs -> " " ^ (if cs = [] then "-" else String.concat "," (Stdlib.List.map show_comp cs)))
         (RdataM.components c t buf) ^ " | " ^
       (match RdataCompS.spec_components c t buf with
        | Some ps -> "ok " ^ (if ps = [] then "-" else String.concat "," (Stdlib.List.map show_piece ps))
        | None -> "reject")
     | _ -> failwith "bad case line")
  | _ -> failwith "bad case line")
