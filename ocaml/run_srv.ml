(* Server-level model runner: `<u|t> <edns> <catalog> <keys> <requesthex>`; prints the
   abstract response in the field syntax of harness/src/srvcase.rs::render (without raw=).
   Query answering for Loaded zones and HMAC verification are parameters of the model.
   Query answering is plugged in at the OCTET level: when the server model reaches the answering
   logic for a Loaded zone (and no TSIG is involved) the complete response is produced by
   QueryW.respond_w — the C05 query model (Model/Query.v) driving the Writer model of C12
   (Model/MsgWriter.v) on the tree zone built from the catalog entry's records, with the id, RD,
   question, EDNS size and limit in effect that the server model computed — and rendered from its
   octets with the message decoder of Spec/MsgWriterS.v, both transports, truncation included.
   With TSIG (HMAC is a parameter) the runner prints `?` for what answering decides, as before. *)
open Qvutil

let n = int_of_n
let b x = if x then 1 else 0

let labels_of_wirehex h =
  Server.lower_labels (Server.wire_labels (unhex h))

(* the zones of the Loaded entries, by index in the catalog description (Ttl::from applied as in
   srvcase::build_catalog) *)
let parse_zones spec : ZoneTree.zone option array =
  if spec = "-" then [||] else
  Array.of_list (Stdlib.List.map (fun e ->
    match String.split_on_char ',' e with
    | cl :: nm :: st :: rest when st <> "N" && st <> "F" && st <> "R" ->
      let cls = n_of_int (int_of_string cl) in
      let apex = Server.wire_labels (unhex nm) in
      let recs = (match rest with
        | r :: _ when r <> "" ->
          Stdlib.List.map (fun s ->
            match String.split_on_char '/' s with
            | [o; ty; ttl; rd] ->
              let t = int_of_string ttl in
              { ZoneTree.r_owner = Server.wire_labels (unhex o); r_type = n_of_int (int_of_string ty); r_class = cls;
                r_ttl = n_of_int (if t > 0x7fffffff then 0 else t); r_rdata = unhex rd }
            | _ -> failwith "bad record") (String.split_on_char '+' r)
        | _ -> []) in
      ZoneTree.zone_build ZoneTree.req_simple (ZoneTree.zone_new apex cls false) recs
    | _ -> None) (String.split_on_char ';' spec))

let wire_of_labels (ls : BinNums.coq_N list list) =
  Stdlib.List.concat (Stdlib.List.map (fun l -> n_of_int (Stdlib.List.length l) :: l) ls) @ [n_of_int 0]

(* uncompressed size of the response the idealised writer would produce: decides the size of the
   model's buffer (a 65535-octet list per write is slow; below 4000 octets a 4096-octet buffer and
   the real 65535-octet one behave identically, nothing can fail for lack of space) *)
let estimate z qname qtype =
  match Query.answer_rec z qname qtype true with
  | None -> 70000
  | Some r ->
    let rr (x : Query.qrr) = Stdlib.List.length (wire_of_labels x.Query.q_owner) + 10 + Stdlib.List.length x.Query.q_rdata in
    let sum l = Stdlib.List.fold_left (fun a x -> a + rr x) 0 l in
    12 + Stdlib.List.length (wire_of_labels qname) + 4 + 11 + sum r.Query.rc_an + sum r.Query.rc_ns + sum r.Query.rc_ar

let zero_buf = Hashtbl.create 2
let buffer k = match Hashtbl.find_opt zero_buf k with
  | Some b -> b
  | None -> let b = Stdlib.List.init k (fun _ -> n_of_int 0) in Hashtbl.add zero_buf k b; b

let rec take k l = if k <= 0 then [] else match l with [] -> [] | x :: r -> x :: take (k - 1) r

(* canonical rendering of response octets (same fields as harness/src/srvcase.rs::render) *)
let render_octets (b : BinNums.coq_N list) =
  match MsgWriterS.decode_msg b with
  | None -> Printf.sprintf "resp undecodable-by-model raw=%s" (hex b)
  | Some m ->
    let f2 = int_of_n m.MsgWriterS.m_flags2 and f3 = int_of_n m.MsgWriterS.m_flags3 in
    let part = function
      | MsgWriterS.PName (ls, _, _) -> wire_of_labels ls
      | MsgWriterS.PRaw r -> r in
    let rr (d : MsgWriterS.drr) =
      Printf.sprintf "%s/%d/%d/%d/%s" (hex (wire_of_labels d.MsgWriterS.dr_owner)) (int_of_n d.MsgWriterS.dr_type)
        (int_of_n d.MsgWriterS.dr_class) (int_of_n d.MsgWriterS.dr_ttl)
        (hex (Stdlib.List.concat (Stdlib.List.map part d.MsgWriterS.dr_parts))) in
    let q (d : MsgWriterS.dq) =
      Printf.sprintf "%s/%d/%d" (hex (wire_of_labels d.MsgWriterS.dq_name)) (int_of_n d.MsgWriterS.dq_type) (int_of_n d.MsgWriterS.dq_class) in
    let sec l = String.concat "," (Stdlib.List.map rr l) in
    Printf.sprintf "resp len=%d id=%d qr=%d aa=%d tc=%d rd=%d ra=%d z=%d op=%d rc=%d qd=%d an=%d ns=%d ar=%d Q=[%s] AN=[%s] NS=[%s] AR=[%s] raw=%s"
      (Stdlib.List.length b) (int_of_n m.MsgWriterS.m_id) ((f2 lsr 7) land 1) ((f2 lsr 2) land 1) ((f2 lsr 1) land 1) (f2 land 1)
      ((f3 lsr 7) land 1) ((f3 lsr 4) land 7) ((f2 lsr 3) land 15) (f3 land 15)
      (Stdlib.List.length m.MsgWriterS.m_qs) (Stdlib.List.length m.MsgWriterS.m_an) (Stdlib.List.length m.MsgWriterS.m_ns)
      (Stdlib.List.length m.MsgWriterS.m_ar)
      (String.concat "," (Stdlib.List.map q m.MsgWriterS.m_qs)) (sec m.MsgWriterS.m_an) (sec m.MsgWriterS.m_ns) (sec m.MsgWriterS.m_ar) (hex b)

(* the catalog is built the way the server's configuration builds it: Catalog::insert of every entry in
   order into the hash-map tree (Model/CatTree.v; a later entry with an equal (class, name) replaces the
   earlier one inside the tree); the server model then runs on the flat view of that tree
   (Model/ServerCat.v), which Props/C07.v c07_catalog_tree_link proves equivalent to the tree's own lookup *)
let parse_catalog spec : Server.entry_kind CatTree.cat_op list =
  if spec = "-" then [] else
  Stdlib.List.mapi (fun i e ->
    match String.split_on_char ',' e with
    | cl :: nm :: "R" :: _ ->       (* Catalog::remove at this point of the history *)
      CatTree.OpRemove (Server.wire_labels (unhex nm), n_of_int (int_of_string cl))
    | cl :: nm :: st :: _ ->
      CatTree.OpInsert
        { CatTree.e_class = n_of_int (int_of_string cl); CatTree.e_name = Server.wire_labels (unhex nm);
          CatTree.e_val = (match st with "N" -> Server.ENotYetLoaded | "F" -> Server.EFailedToLoad
                                       | _ -> Server.ELoaded (nat_of_int i)) }
    | _ -> failwith "bad catalog entry") (String.split_on_char ';' spec)

let tree_catalog ops =
  match ServerCat.tree_of_history ops with
  | Res.Ok c -> ServerCat.flat_of_tree c
  | _ -> failwith "catalog operation panicked"

let parse_keys spec =
  if spec = "-" then [] else
  let ks = Stdlib.List.map (fun e ->
    match String.split_on_char ',' e with
    | [nm; alg; key] ->
      { Server.k_name = labels_of_wirehex nm;
        Server.k_alg = (if alg = "1" then Server.HmacSha1 else Server.HmacSha256);
        Server.k_secret = unhex key }
    | _ -> failwith "bad key") (String.split_on_char ';' spec) in
  (* later insert of the same name replaces the earlier *)
  let rec go acc = function
    | [] -> Stdlib.List.rev acc
    | k :: rest -> go (k :: Stdlib.List.filter (fun x -> x.Server.k_name <> k.Server.k_name) acc) rest in
  go [] ks

let show_q (q : Reader.question) =
  Printf.sprintf "%s/%d/%d" (hex q.Reader.q_name.NameWire.n_wire) (n q.Reader.q_type) (n q.Reader.q_class)

(* ---- the spec-level oracle columns (Spec/MsgWalkS.v, extracted): independent of the server model ---- *)
let show_problem = function
  | MsgWalkS.QuestionUnparseable -> "QuestionUnparseable"
  | MsgWalkS.RecordUndelimitable i -> Printf.sprintf "RecordUndelimitable:%d" (int_of_nat i)
  | MsgWalkS.PseudoOutsideAdditional i -> Printf.sprintf "PseudoOutsideAdditional:%d" (int_of_nat i)
  | MsgWalkS.SecondOpt i -> Printf.sprintf "SecondOpt:%d" (int_of_nat i)
  | MsgWalkS.OptMalformed i -> Printf.sprintf "OptMalformed:%d" (int_of_nat i)
  | MsgWalkS.TsigNotLast i -> Printf.sprintf "TsigNotLast:%d" (int_of_nat i)
  | MsgWalkS.TsigMalformed i -> Printf.sprintf "TsigMalformed:%d" (int_of_nat i)
  | MsgWalkS.QueryWithoutQuestion -> "QueryWithoutQuestion"
  | MsgWalkS.TrailingOctets -> "TrailingOctets"
let show_verdict = function
  | MsgWalkS.VSilent -> "silent"
  | MsgWalkS.VFormerr p -> "formerr:" ^ show_problem p
  | MsgWalkS.VBadVers i -> Printf.sprintf "badvers:%d" (int_of_nat i)
  | MsgWalkS.VTsig (i, t) -> Printf.sprintf "tsig:%d:%s" (int_of_nat i) (match t with None -> "none" | Some p -> show_problem p)
  | MsgWalkS.VClean -> "clean"
let rec drop k l = if k <= 0 then l else match l with [] -> [] | _ :: r -> drop (k - 1) r
(* the request's question octets when the QNAME is uncompressed (qname_uncompressed) and QTYPE/QCLASS are present *)
let question_octets req =
  match MsgWalkS.s_first_name req (nat_of_int 12) with
  | Some (e, false) ->
    let e = int_of_nat e in
    if e + 4 <= Stdlib.List.length req then hex (take (e + 4 - 12) (drop 12 req)) else "-"
  | _ -> "-"
let spec_columns req =
  Printf.sprintf " fp=%s sopt=%d qoct=%s" (show_verdict (MsgWalkS.first_problem req))
    (if MsgWalkS.s_opt_reached req then 1 else 0) (question_octets req)

let () = run_lines (fun f ->
  (* the model line doubles as the property oracle (see Props/C0x.v); the oracle column also carries the verdicts of the
     extracted spec-level classifier, which Props/C08.v / C09.v / C03.v prove the model obeys *)
  let dup s = s ^ " | " ^ s ^ (match f with [_; _; _; _; req] -> spec_columns (unhex req) | _ -> "") in
  dup (match f with
  | [tr; edns; cat; keys; req] ->
    let answered = ref false and verified = ref false and reached = ref None in
    let answer zid (q : Reader.question) _ _ = answered := true; reached := Some (int_of_nat zid, q); Server.empty_body in
    let verify _ _ _ _ _ _ = verified := true; Server.VOk in
    let cfg = { Server.c_transport = (if tr = "t" || tr = "T" then Server.Tcp else Server.Udp);
                Server.c_edns_size = n_of_int (int_of_string edns);
                Server.c_buflen = nat_of_int 65535;
                Server.c_catalog = tree_catalog (parse_catalog cat);
                Server.c_keys = parse_keys keys; Server.c_now = n_of_int 0 } in
    (match Server.handle_message answer verify cfg (unhex req) with
     | Res.Panic -> "panic"
     | Res.Err _ -> "model-error"
     | Res.Ok None -> "none"
     | Res.Ok (Some w) when !reached <> None && w.Server.w_tsig = None ->
       let (zid, q) = (match !reached with Some x -> x | None -> assert false) in
       let zones = parse_zones cat in
       (match (if zid < Array.length zones then zones.(zid) else None) with
        | None -> "panic"
        | Some z ->
          let qname = Query.labels_of q.Reader.q_name in
          let tcp = (tr = "t" || tr = "T") in
          let est = estimate z qname q.Reader.q_type in
          let buf = buffer (if est + 96 <= 4096 then 4096 else 65535) in
          (match QueryW.respond_w Query.neg_ttl buf tcp w.Server.w_id w.Server.w_rd qname q.Reader.q_type q.Reader.q_class
                   (match w.Server.w_edns with Some (sz, _) -> Some sz | None -> None) w.Server.w_limit z with
           | None -> "panic"
           | Some (len, b) -> render_octets (take (int_of_nat len) b)))
     | Res.Ok (Some w) ->
       let unk = !answered in
       let opt = match w.Server.w_edns with
         | Some (sz, up) -> [Printf.sprintf "00/41/%d/%d/-" (n sz) ((n up) lsl 24)]
         | None -> [] in
       let tsig = match w.Server.w_tsig with
         | None -> []
         | Some t ->
           let rd = t.Server.t_request_rdata in
           let al = int_of_nat (Server.tsig_alg_len rd) in
           let macsz = (match RdataLite.get16 rd (nat_of_int (al + 8)) with Some x -> n x | None -> 0) in
           let origid = (match RdataLite.get16 rd (nat_of_int (al + 10 + macsz)) with Some x -> n x | None -> 0) in
           let algw, signed = (match t.Server.t_mode with
             | Server.TUnsigned a -> a, 0
             | Server.TResponse (a, _, _) -> Server.alg_name_wire a, 1) in
           [Printf.sprintf "%s/250/255/0/TSIG(alg=%s;err=%d;origid=%d;signed=%d)"
              (hex t.Server.t_key_wire) (hex algw) (n t.Server.t_error) origid signed] in
       let ar = opt @ tsig in
       let len =
         if unk || tsig <> [] then "?"
         else string_of_int (int_of_nat w.Server.w_cursor + (if opt <> [] then 11 else 0)) in
       let u s = if unk then "?" else s in
       Printf.sprintf "resp len=%s id=%d qr=1 aa=%s tc=%s rd=%d ra=0 z=0 op=%d rc=%s qd=%d an=%s ns=%s ar=%s Q=[%s] AN=[%s] NS=[%s] AR=[%s]%s"
         len (n w.Server.w_id) (u (string_of_int (b w.Server.w_aa))) (u (string_of_int (b w.Server.w_tc)))
         (b w.Server.w_rd) (n w.Server.w_opcode) (u (string_of_int (n w.Server.w_rcode)))
         (match w.Server.w_question with Some _ -> 1 | None -> 0)
         (u "0") (u "0") (u (string_of_int (Stdlib.List.length ar)))
         (match w.Server.w_question with Some q -> show_q q | None -> "")
         (u "") (u "") (if unk then "?" else String.concat "," ar)
         (if !verified then " hmac" else ""))
  | _ -> failwith "bad case"))
