(* Server-level model runner: `<u|t> <edns> <catalog> <keys> <requesthex>`; prints the
   abstract response in the field syntax of harness/src/srvcase.rs::render (without raw=).
   Query answering for Loaded zones and HMAC verification are parameters of the model; this
   runner plugs in stubs that record that they were reached and prints `?` for what they decide. *)
open Qvutil

let n = int_of_n
let b x = if x then 1 else 0

let labels_of_wirehex h =
  Server.lower_labels (Server.wire_labels (unhex h))

let parse_catalog spec =
  if spec = "-" then [] else
  Stdlib.List.mapi (fun i e ->
    match String.split_on_char ',' e with
    | cl :: nm :: st :: _ ->
      { Server.e_class = n_of_int (int_of_string cl); Server.e_name = labels_of_wirehex nm;
        Server.e_kind = (match st with "N" -> Server.ENotYetLoaded | "F" -> Server.EFailedToLoad
                                     | _ -> Server.ELoaded (nat_of_int i)) }
    | _ -> failwith "bad catalog entry") (String.split_on_char ';' spec)

(* HashMap insert: a later entry with an equal (class, name) replaces the earlier one *)
let dedup_catalog es =
  let rec go acc = function
    | [] -> Stdlib.List.rev acc
    | e :: rest ->
      let same x = x.Server.e_class = e.Server.e_class && x.Server.e_name = e.Server.e_name in
      go (e :: Stdlib.List.filter (fun x -> not (same x)) acc) rest in
  go [] es

let parse_keys spec =
  if spec = "-" then [] else
  let ks = Stdlib.List.map (fun e ->
    match String.split_on_char ',' e with
    | [nm; alg; key] ->
      { Server.k_name = labels_of_wirehex nm;
        Server.k_alg = (if alg = "1" then Server.HmacSha1 else Server.HmacSha256);
        Server.k_secret = unhex key }
    | _ -> failwith "bad key") (String.split_on_char ';' spec) in
  (* later insert of the same name replaces the earlier *)
  let rec go acc = function
    | [] -> Stdlib.List.rev acc
    | k :: rest -> go (k :: Stdlib.List.filter (fun x -> x.Server.k_name <> k.Server.k_name) acc) rest in
  go [] ks

let show_q (q : Reader.question) =
  Printf.sprintf "%s/%d/%d" (hex q.Reader.q_name.NameWire.n_wire) (n q.Reader.q_type) (n q.Reader.q_class)

let () = run_lines (fun f ->
  let dup s = s ^ " | " ^ s in      (* the model line doubles as the property oracle (see Props/C0x.v) *)
  dup (match f with
  | [tr; edns; cat; keys; req] ->
    let answered = ref false and verified = ref false in
    let answer _ _ _ _ = answered := true; Server.empty_body in
    let verify _ _ _ _ _ _ = verified := true; Server.VOk in
    let cfg = { Server.c_transport = (if tr = "t" then Server.Tcp else Server.Udp);
                Server.c_edns_size = n_of_int (int_of_string edns);
                Server.c_buflen = nat_of_int 65535;
                Server.c_catalog = dedup_catalog (parse_catalog cat);
                Server.c_keys = parse_keys keys; Server.c_now = n_of_int 0 } in
    (match Server.handle_message answer verify cfg (unhex req) with
     | Res.Panic -> "panic"
     | Res.Err _ -> "model-error"
     | Res.Ok None -> "none"
     | Res.Ok (Some w) ->
       let unk = !answered in
       let opt = match w.Server.w_edns with
         | Some (sz, up) -> [Printf.sprintf "00/41/%d/%d/-" (n sz) ((n up) lsl 24)]
         | None -> [] in
       let tsig = match w.Server.w_tsig with
         | None -> []
         | Some t ->
           let rd = t.Server.t_request_rdata in
           let al = int_of_nat (Server.tsig_alg_len rd) in
           let macsz = (match RdataLite.get16 rd (nat_of_int (al + 8)) with Some x -> n x | None -> 0) in
           let origid = (match RdataLite.get16 rd (nat_of_int (al + 10 + macsz)) with Some x -> n x | None -> 0) in
           let algw, signed = (match t.Server.t_mode with
             | Server.TUnsigned a -> a, 0
             | Server.TResponse (a, _, _) -> Server.alg_name_wire a, 1) in
           [Printf.sprintf "%s/250/255/0/TSIG(alg=%s;err=%d;origid=%d;signed=%d)"
              (hex t.Server.t_key_wire) (hex algw) (n t.Server.t_error) origid signed] in
       let ar = opt @ tsig in
       let len =
         if unk || tsig <> [] then "?"
         else string_of_int (int_of_nat w.Server.w_cursor + (if opt <> [] then 11 else 0)) in
       let u s = if unk then "?" else s in
       Printf.sprintf "resp len=%s id=%d qr=1 aa=%s tc=%s rd=%d ra=0 z=0 op=%d rc=%s qd=%d an=%s ns=%s ar=%s Q=[%s] AN=[%s] NS=[%s] AR=[%s]%s"
         len (n w.Server.w_id) (u (string_of_int (b w.Server.w_aa))) (u (string_of_int (b w.Server.w_tc)))
         (b w.Server.w_rd) (n w.Server.w_opcode) (u (string_of_int (n w.Server.w_rcode)))
         (match w.Server.w_question with Some _ -> 1 | None -> 0)
         (u "0") (u "0") (u (string_of_int (Stdlib.List.length ar)))
         (match w.Server.w_question with Some q -> show_q q | None -> "")
         (u "") (u "") (if unk then "?" else String.concat "," ar)
         (if !verified then " hmac" else ""))
  | _ -> failwith "bad case"))
