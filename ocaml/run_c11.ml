(* C11 model-side runner: same case lines as harness/src/bin/impl_c11.rs.
   HMAC is not computed here: the Section variable [hmac] of the model is instantiated by
   the one-entry table (key, pyd) -> pym that the case line carries (computed by Python's
   hmac/hashlib over Python's own RFC 8945 digest).  A lookup miss means the model (or the
   spec twin) fed the authenticator other octets than the Python signer: the line gets a
   " hmac-miss" suffix, which can never match the implementation's line.
   Output: "<model result> | <spec result>". *)
open Qvutil
open TsigMsg

let miss = ref false

let table_hmac key pyd pym =
  fun (a : alg) k d ->
    if k = key && d = pyd then pym
    else begin
      miss := true;
      Stdlib.List.init (int_of_nat (output_size a)) (fun _ -> n_of_int 0xEE)
    end

let alg_of = function "1" -> HmacSha1 | "256" -> HmacSha256 | _ -> failwith "bad algorithm field"
let n_of_string s = n_of_int (int_of_string s)
let show_n n = string_of_int (int_of_n n)

let verr_name = function BadSig -> "BadSig" | BadTime -> "BadTime" | VFormErr -> "FormErr"

let name_err_name (e : NameWire.name_err) = match e with
  | NameWire.ExtraData -> "ExtraData" | NameWire.InvalidEscape -> "InvalidEscape"
  | NameWire.InvalidPointer -> "InvalidPointer" | NameWire.LabelTooLong -> "LabelTooLong"
  | NameWire.NameTooLong -> "NameTooLong" | NameWire.NonNullTerminal -> "NonNullTerminal"
  | NameWire.NullNonTerminal -> "NullNonTerminal" | NameWire.StrEmpty -> "StrEmpty"
  | NameWire.StrNotAscii -> "StrNotAscii" | NameWire.UnexpectedEom -> "UnexpectedEom"
  | NameWire.OutOfFuel -> "OutOfFuel"

let prepared_of = function
  | [kn; t; fudge; oid; err; st] ->
    { p_key_name = to_lowercase_name (unhex kn); p_time_signed = unhex t; p_fudge = n_of_string fudge;
      p_original_id = n_of_string oid; p_error = n_of_string err; p_server_time = unhex st }
  | _ -> failwith "prepared fields"

let rec take n l = if n <= 0 then [] else match l with [] -> [] | x :: t -> x :: take (n - 1) t
let rec drop n l = if n <= 0 then l else match l with [] -> [] | _ :: t -> drop (n - 1) t

let opt f = function Some x -> f x | None -> "!"

let show_read (t : read_tsig) =
  Printf.sprintf "key=%s alg=%s ts=%s fudge=%s mac=%s oid=%s err=%s other=%s"
    (hex t.r_key_name) (hex t.r_algorithm)
    (opt hex (r_time_signed t)) (opt show_n (r_fudge t)) (opt hex (r_mac t))
    (opt show_n (r_original_id t)) (opt show_n (r_error t)) (opt hex (r_other t))

let smode_of mode pmac = match mode with
  | "rq" -> SRequest | "rs" -> SResponse pmac | "sb" -> SSubsequent pmac | _ -> failwith "bad mode"
let vmode_of mode pmac = match mode with
  | "rq" -> VRequest | "rs" -> VResponse pmac | "sb" -> VSubsequent pmac | _ -> failwith "bad mode"

(* the table fields: "pyd=<hex>" "pym=<hex>" anywhere in the line *)
let field pre fs =
  let n = String.length pre in
  match Stdlib.List.find_opt (fun s -> String.length s >= n && String.sub s 0 n = pre) fs with
  | Some s -> unhex (String.sub s n (String.length s - n))
  | None -> []

let cur_pyd = ref [] and cur_pym = ref [] and cur_pre = ref [] and cur_edns = ref "-"

let model (f : string list) : string =
  let pyd = !cur_pyd and pym = !cur_pym in
  match f with
  | "sign" :: mode :: a :: key :: pmac :: msg :: rest ->
    let key = unhex key in
    let hm = table_hmac key pyd pym in
    let p = prepared_of (take 6 rest) in
    (match sign hm p (unhex msg) (smode_of mode (unhex pmac)) (alg_of a) key with
     | Res.Ok (rdata, mac) -> Printf.sprintf "ok rdata=%s mac=%s" (hex rdata) (hex mac)
     | Res.Err e -> "err " ^ verr_name e
     | Res.Panic -> "panic")
  | "unsg" :: an :: rest ->
    let an = to_lowercase_name (unhex an) in
    let p = prepared_of (take 6 rest) in
    (match unsigned p an with
     | Res.Ok rdata ->
       Printf.sprintf "ok rdata=%s ulen=%d slen1=%d slen256=%d" (hex rdata)
         (int_of_nat (unsigned_len p an)) (int_of_nat (signed_len p HmacSha1))
         (int_of_nat (signed_len p HmacSha256))
     | Res.Err e -> "err " ^ verr_name e
     | Res.Panic -> "panic")
  | ["read"; owner; ty; cl; ttl; rdata] ->
    let rdata = unhex rdata in
    let rr = { rr_owner = unhex owner; rr_type = n_of_string ty; rr_class = n_of_string cl;
               rr_ttl = ttl_of_u32 (n_of_string ttl); rr_rdata = rdata } in
    let v = match validate_as_tsig rdata with
      | Res.Ok () -> "ok"
      | Res.Err (RdInvalidName e) -> "InvalidName(" ^ name_err_name e ^ ")"
      | Res.Err RdUnexpectedEom -> "UnexpectedEom"
      | Res.Err RdOther -> "Other"
      | Res.Panic -> "panic" in
    let tf = match read_tsig_try_from rr with
      | Res.Panic -> "panic"
      | Res.Err FrFormErr -> "err FormErr"
      | Res.Err FrNotTsig -> "err NotTsig"
      | Res.Ok t ->
        let an = match alg_from_name t.r_algorithm with
          | Some HmacSha1 -> "1" | Some HmacSha256 -> "256" | None -> "none" in
        Printf.sprintf "ok %s known=%s" (show_read t) an in
    Printf.sprintf "val=%s tf=%s" v tf
  | "vfy" :: mode :: key :: pmac :: now :: msg :: owner :: rdata :: _ ->
    let key = unhex key in
    let hm = table_hmac key pyd pym in
    let rr = { rr_owner = unhex owner; rr_type = n_of_int 250; rr_class = n_of_int 255;
               rr_ttl = n_of_int 0; rr_rdata = unhex rdata } in
    (match read_tsig_try_from rr with
     | Res.Panic -> "panic"
     | Res.Err FrFormErr -> "err tf FormErr"
     | Res.Err FrNotTsig -> "err tf NotTsig"
     | Res.Ok t ->
       (match alg_from_name t.r_algorithm with
        | None -> "err UnknownAlgorithm"
        | Some a ->
          (match verify hm t (unhex msg) (vmode_of mode (unhex pmac)) a key (unhex now) with
           | Res.Ok () -> "ok"
           | Res.Err e -> "err " ^ verr_name e
           | Res.Panic -> "panic")))
  | ["nfr"; err; now; fudge; owner; rdata] ->
    let rr = { rr_owner = unhex owner; rr_type = n_of_int 250; rr_class = n_of_int 255;
               rr_ttl = n_of_int 0; rr_rdata = unhex rdata } in
    (match read_tsig_try_from rr with
     | Res.Ok t ->
       (match new_from_read t (unhex now) (n_of_string fudge) (n_of_string err) with
        | Res.Ok p ->
          Printf.sprintf "ok key=%s ts=%s fudge=%s oid=%s err=%s st=%s" (hex p.p_key_name)
            (hex p.p_time_signed) (show_n p.p_fudge) (show_n p.p_original_id) (show_n p.p_error)
            (hex p.p_server_time)
        | _ -> "panic")
     | _ -> "panic")
  | "wsig" :: mode :: a :: key :: pmac :: _id :: _qr :: _qname :: _qtype :: _rrs :: rest ->
    let key = unhex key and pmac = unhex pmac in
    let hm = table_hmac key pyd pym in
    let p = prepared_of (take 6 rest) in
    let pre = !cur_pre in
    let a = alg_of a in
    let tm = match mode with
      | "rq" -> TmRequest (a, key) | "rs" -> TmResponse (a, pmac, key) | "sb" -> TmSubsequent (a, pmac, key)
      | "un" -> TmUnsigned (alg_name a) | _ -> failwith "bad mode" in
    let e = match !cur_edns with
      | "-" | "" -> None
      | es -> (match String.split_on_char ':' es with
          | pl :: xr :: _ ->
            Some { e_udp_payload_size = n_of_string pl; e_extended_rcode_upper_bits = n_of_int ((int_of_string xr) lsr 4) }
          | _ -> failwith "E=") in
    (match finish_tail hm pre e (Some (tm, p)) with
     | Res.Ok (message, Some (rdata, mac)) ->
       Printf.sprintf "ok pre=%s owner=%s type=250 class=255 ttl=0 rdata=%s mac=%s" (hex message) (hex p.p_key_name)
         (hex rdata) (match mac with Some m -> hex m | None -> "none")
     | Res.Ok (_, None) -> "no-tsig"
     | Res.Err e -> "err " ^ verr_name e
     | Res.Panic -> "panic")
  | _ -> failwith "bad case line"

let oracle (_ : string list) : string = "-"

let is_meta s =
  let pre p = String.length s >= String.length p && String.sub s 0 (String.length p) = p in
  pre "pyd=" || pre "pym=" || pre "X:" || pre "T:" || pre "pre=" || pre "E=" || pre "V="

let () = run_lines (fun f0 ->
  let pyd = field "pyd=" f0 and pym = field "pym=" f0 in
  let f = Stdlib.List.filter (fun s -> not (is_meta s)) f0 in
  cur_pyd := pyd; cur_pym := pym; cur_pre := field "pre=" f0;
  cur_edns := (match Stdlib.List.find_opt (fun x -> String.length x >= 2 && String.sub x 0 2 = "E=") f0 with Some x -> String.sub x 2 (String.length x - 2) | None -> "-");
  miss := false;
  let m = model f in
  let m = if !miss then m ^ " hmac-miss" else m in
  miss := false;
  let o = oracle f in
  let o = if !miss then o ^ " hmac-miss" else o in
  m ^ " | " ^ o)
