(* C26 model-side runner: same case lines as harness/src/bin/impl_c26.rs.
   `<noerror_rate> <nxdomain_rate> <error_rate> <window> <slip> <size> <kind> <edns> <gaps>`
   Prints "<model result> | <oracle result>": the model column runs the extracted
   process_response over the history, the oracle column the extracted token bucket of
   Spec/RrlBucketS.v (or `reject` when the documented parameter rules refuse the
   configuration).  `--release` (thorough tier: the harness built without overflow checks)
   changes nothing on the model side: the repaired code has no operation that can overflow
   (c26_count_bound), so both builds must behave like the one model.  `--old-wrapping` runs
   the pre-fix wrapping arithmetic instead (what a release build of the unfixed tree does). *)
open Qvutil
open BinNums

let n_add = BinNat.N.add and n_mul = BinNat.N.mul
let ten = n_of_int 10
(* arbitrary-size decimal *)
let n_of_dec (s : string) : coq_N =
  let r = ref N0 in
  String.iter (fun ch -> r := n_add (n_mul !r ten) (n_of_int (Char.code ch - 48))) s;
  !r

let label (s : string) : coq_N list =
  Stdlib.List.init (String.length s) (fun i -> n_of_int (Char.code s.[i]))

(* --- the glue shared with rrl_common::query: what the tiny zone answers ---------------- *)
(* returns (opcode, rcode, question, source of synthesis, send_response before RRL) *)
let kind_ctx (kind : string) =
  let k = String.sub kind 0 1 and l = String.sub kind 1 (String.length kind - 1) in
  let ex = label "example" in
  (* <label> may hold several labels separated by '.' *)
  let ls = Stdlib.List.map label (String.split_on_char '.' l) in
  match k with
  | "n" | "d" -> (0, 0, Some (ls @ [ex]), None, true)
  | "w" | "y" | "z" -> (0, 0, Some (ls @ [label "w"; ex]), Some [label "*"; label "w"; ex], true)
  | "b" -> (0, 0, Some (ls @ [label "big"; ex]), Some [label "*"; label "big"; ex], true)
  | "c" -> (0, 0, Some (ls @ [label "cw"; ex]), Some [label "*"; label "cw"; ex], true)
  | "g" -> (0, 3, Some (ls @ [label "cn"; ex]), Some [label "*"; label "cn"; ex], true)
  | "h" -> (0, 2, Some (ls @ [label "cl"; ex]), Some [label "*"; label "cl"; ex], true)
  | "x" -> (0, 3, Some (ls @ [label "nx"; ex]), None, true)
  | "r" -> (0, 5, Some (ls @ [label "other"]), None, true)
  | "f" -> (0, 1, None, None, true)
  | "u" -> (0, 16, None, None, true)      (* BADVERS without a question *)
  | "m" -> (0, 0, None, None, false)
  | "o" -> (4, 4, Some (ls @ [ex]), None, true)
  | "v" -> (0, 16, Some (ls @ [ex]), None, true)      (* BADVERS: extended RCODE 16 (low four bits 0) *)
  | _ -> failwith "unknown kind"

let mk_ctx kind edns src transport : Rrl.ctx =
  let edns = edns || String.sub kind 0 1 = "v" || String.sub kind 0 1 = "u" in
  let (op, rc, q, sos, send) = kind_ctx kind in
  let w = { Rrl.w_ancount = n_of_int 1; w_nscount = n_of_int 1; w_arcount = n_of_int (if edns then 2 else 1);
            w_edns = edns; w_tsig = false; w_tc = false; w_rcode = n_of_int rc } in
  { Rrl.c_source = src; c_transport = transport; c_opcode = n_of_int op; c_question = q; c_sos = sos;
    c_response = w; c_rrl_action = None; c_send_response = send }

(* stand-ins for the RandomState (any functions will do: the theorems hold for all) *)
let hname (b : coq_N list) : coq_N =
  n_of_int (Stdlib.List.fold_left (fun h x -> (h * 1000003 + int_of_n x + 1) land 0x3fffffffffff) 7 b)
let hkey (k : Rrl.key) : coq_N =
  let c = match k.Rrl.k_category with Rrl.NoError -> 1 | Rrl.NxDomain -> 2 | Rrl.ErrorCat -> 3 in
  let d = match k.Rrl.k_dest with N0 -> 0 | Npos _ -> Hashtbl.hash (k.Rrl.k_dest) in
  n_of_int ((d * 31 + int_of_n k.Rrl.k_qname_hash * 7 + c * 131 + (if k.Rrl.k_ipv6 then 977 else 0)) land 0x3fffffffffff)

let perr (e : Rrl.param_err) = match e with
  | Rrl.NoerrorRateIsZero -> "NoerrorRateIsZero" | Rrl.NxdomainRateIsZero -> "NxdomainRateIsZero"
  | Rrl.ErrorRateIsZero -> "ErrorRateIsZero" | Rrl.WindowIsZero -> "WindowIsZero"
  | Rrl.WindowIsTooLargeForRates -> "WindowIsTooLargeForRates"
  | Rrl.InvalidIpv4PrefixLen -> "InvalidIpv4PrefixLen" | Rrl.InvalidIpv6PrefixLen -> "InvalidIpv6PrefixLen"
  | Rrl.SizeIsZero -> "SizeIsZero"

(* RrlParams::new then the setters in the order of rrl_common::params *)
let params ne nx er win slip size v4 v6 : (Rrl.params, string) Stdlib.result =
  let ( >>= ) r f = match r with
    | Res.Ok p -> f p | Res.Err e -> Stdlib.Error ("err " ^ perr e) | Res.Panic -> Stdlib.Error "panic" in
  Rrl.params_new ne nx er win >>= fun p ->
  let p = Rrl.set_slip p slip in
  Rrl.set_size p size >>= fun p ->
  Rrl.set_ipv4_prefix_len p v4 >>= fun p ->
  Rrl.set_ipv6_prefix_len p v6 >>= fun p -> Stdlib.Ok p

let letter slip (c : Rrl.ctx) : string =
  let edns = c.Rrl.c_response.Rrl.w_edns and tsig = c.Rrl.c_response.Rrl.w_tsig in
  match Rrl.final_response c with
  | None -> if slip >= 2 then "L" else "D"
  | Some w ->
    if not w.Rrl.w_tc then "S"
    else
      let an = int_of_n w.Rrl.w_ancount and ns = int_of_n w.Rrl.w_nscount and ar = int_of_n w.Rrl.w_arcount in
      if an = 0 && ns = 0 && ar = (if edns then 1 else 0) + (if tsig then 1 else 0)
      then (if slip >= 2 then "L" else "T")
      else Printf.sprintf "t(an=%d,ns=%d,ar=%d)" an ns ar

let vletter slip (v : RrlBucketS.verdict) = match v with
  | RrlBucketS.VSend -> "S"
  | RrlBucketS.VSlip -> if slip >= 2 then "L" else "T"
  | RrlBucketS.VDrop -> if slip >= 2 then "L" else "D"

let u32_max = n_of_dec "4294967295"
let le a b = BinNat.N.leb a b

let old_wrapping = Array.exists (fun a -> a = "--old-wrapping") Sys.argv
let t0 = n_of_dec "1000000000"

(* one request of a mixed history: letter of the model's context *)
let mletter slip kind c = if String.sub kind 0 1 = "m" then (match Rrl.final_response c with None -> "-" | Some _ -> "S") else letter slip c

(* stream identity for the specification of mixed traffic from ONE source: category, and for
   NOERROR the lower-cased name the response is about *)
let stream_id kind =
  let (_, rc, q, sos, _) = kind_ctx kind in
  let lower_label l = Stdlib.List.map (fun x -> let v = int_of_n x in if v >= 65 && v <= 90 then v + 32 else v) l in
  if rc = 0 then
    let n = match sos with Some n -> n | None -> (match q with Some n -> n | None -> []) in
    (0, Stdlib.List.map lower_label n)
  else if rc = 3 then (3, []) else (1, [])

let run_mixed ne nx er win slip size edns seq =
  let slip_i = int_of_string slip in
  let edns = edns = "1" in
  let reqs = Stdlib.List.map (fun r -> match String.split_on_char ':' r with
      | [k; t; g] -> (k, (if t = "t" then Rrl.Tcp else Rrl.Udp), n_of_dec g)
      | _ -> failwith "bad request") (String.split_on_char ',' seq) in
  let _, timed = Stdlib.List.fold_left (fun (t, acc) (k, tr, g) -> let t' = n_add t g in (t', (k, tr, t') :: acc)) (t0, []) reqs in
  let timed = Stdlib.List.rev timed in
  let src = Rrl.V4 (Stdlib.List.map n_of_int [192; 0; 2; 77]) in
  let model =
    match params ne nx er win (n_of_int slip_i) (n_of_dec size) (n_of_int 24) (n_of_int 56) with
    | Stdlib.Error e -> e
    | Stdlib.Ok p ->
      let h = Stdlib.List.map (fun (k, tr, t) -> ((mk_ctx k edns src tr, t), N0)) timed in
      (match Rrl.run_requests hname hkey p (Rrl.rrl_new p t0) h with
       | Res.Ok (_, cs) -> "ok " ^ String.concat "" (Stdlib.List.map2 (fun (k, _, _) c -> mletter slip_i k c) timed cs)
       | Res.Err () -> "err"
       | Res.Panic -> "panic") in
  let oracle =
    let z = N0 in
    let bad r = r = z || not (le (n_mul r win) u32_max) in
    if win = z || bad ne || bad nx || bad er || n_of_dec size = z then "reject"
    else if n_of_dec size <> n_of_int 1 &&
            Stdlib.List.length (Stdlib.List.sort_uniq compare
              (Stdlib.List.filter_map (fun (k, tr, _) ->
                   let (op, _, _, _, send) = kind_ctx k in
                   if tr = Rrl.Udp && op = 0 && send then Some (stream_id k) else None) timed)) > 1
    then "-"   (* several streams in a table with more than one slot: placement depends on the hash *)
    else begin
      (* one slot (or one stream): the table remembers only the stream of the last limited response *)
      let holder = ref None and out = Buffer.create 16 in
      Stdlib.List.iter (fun (k, tr, t) ->
          let (op, rc, _, _, send) = kind_ctx k in
          if not send then Buffer.add_string out "-"
          else if tr = Rrl.Tcp || op <> 0 then Buffer.add_string out "S"
          else begin
            let sid = stream_id k in
            let rate = if rc = 0 then ne else if rc = 3 then nx else er in
            let ob = match !holder with Some (s, b) when s = sid -> Some b | _ -> None in
            let (b', sent) = RrlBucketS.bucket_step rate win ob t in
            holder := Some (sid, b');
            Buffer.add_string out (if sent then "S" else vletter slip_i (RrlBucketS.limited_verdict (n_of_int slip_i) N0))
          end) timed;
      "ok " ^ Buffer.contents out
    end in
  model ^ " | " ^ oracle

let () = run_lines (fun f ->
  match f with
  | [ne; nx; er; win; slip; size; kind; edns; gaps] ->
    let ne = n_of_dec ne and nx = n_of_dec nx and er = n_of_dec er and win = n_of_dec win in
    let slip_i = int_of_string slip in
    let edns = edns = "1" in
    let gaps = if gaps = "-" then [] else Stdlib.List.map n_of_dec (String.split_on_char ',' gaps) in
    (* request times: creation time t0, then cumulative gaps; draws all 0 *)
    let _, hist = Stdlib.List.fold_left (fun (t, acc) g -> let t' = n_add t g in (t', (t', N0) :: acc)) (t0, []) gaps in
    let hist = Stdlib.List.rev hist in
    let model =
      match params ne nx er win (n_of_int slip_i) (n_of_dec size) (n_of_int 24) (n_of_int 56) with
      | Stdlib.Error e -> e
      | Stdlib.Ok p ->
        let c = mk_ctx kind edns (Rrl.V4 (Stdlib.List.map n_of_int [192; 0; 2; 77])) Rrl.Udp in
        let a = if old_wrapping then Rrl.OldWrapping else Rrl.Fixed in
        (match Rrl.run_history_gen hname hkey a p (Rrl.rrl_new p t0) c hist with
         | Res.Ok (_, cs) -> "ok " ^ String.concat "" (Stdlib.List.map (letter slip_i) cs)
         | Res.Err () -> "err"
         | Res.Panic -> "panic") in
    (* the specification: documented parameter rules, then the bucket of the stream's category *)
    let oracle =
      let z = N0 in
      let bad r = r = z || not (le (n_mul r win) u32_max) in
      if win = z || bad ne || bad nx || bad er || n_of_dec size = z then "reject"
      else
        let (op, rc, _, _, send) = kind_ctx kind in
        if op <> 0 || not send then "-"
        else
          let rate = if rc = 0 then ne else if rc = 3 then nx else er in
          "ok " ^ String.concat "" (Stdlib.List.map (vletter slip_i)
                                      (RrlBucketS.bucket_run rate win (n_of_int slip_i) None hist)) in
    model ^ " | " ^ oracle
  | [ne; nx; er; win; slip; size; edns; seq] ->
    run_mixed (n_of_dec ne) (n_of_dec nx) (n_of_dec er) (n_of_dec win) slip size edns seq
  | _ -> failwith "bad case line")
