(* C10 model-side runner: same case lines as harness/src/bin/impl_c10.rs.
   The model runs with a fixed clock NOWM and the time signed NOWM + off (only the offset matters);
   HMAC is symbolic: hmac salg sk (digest template patched with that time) = the `fake=` octets of the
   case line, anything else is a different (0xEE..) value.  The request MAC is the truncation/padding of
   `fake`, exactly as the implementation-side runner truncates the real HMAC. *)
open Qvutil
open TsigMsg
open TsigSrv

let nowm = 1099511627776   (* 2^40 *)

let field f pre =
  let n = String.length pre in
  match Stdlib.List.find_opt (fun s -> String.length s >= n && String.sub s 0 n = pre) f with
  | Some s -> String.sub s n (String.length s - n)
  | None -> failwith ("missing field " ^ pre)

let rec take n l = if n <= 0 then [] else match l with [] -> [] | x :: t -> x :: take (n - 1) t
let rec drop n l = if n <= 0 then l else match l with [] -> [] | _ :: t -> drop (n - 1) t
let patch l pos s = take pos l @ s @ drop (pos + Stdlib.List.length s) l
let alg_of = function "1" -> HmacSha1 | "256" -> HmacSha256 | _ -> failwith "alg"
let show_n n = string_of_int (int_of_n n)

let () = run_lines (fun f ->
  let keys = match field f "K=" with
    | "-" -> []
    | s -> Stdlib.List.map (fun e -> match String.split_on_char ':' e with
        | [n; a; k] -> { k_name = unhex n; k_alg = alg_of a; k_secret = unhex k }
        | _ -> failwith "key") (String.split_on_char ',' s) in
  let salg = alg_of (field f "salg=") in
  let sk = unhex (field f "sk=") in
  let off = int_of_string (field f "off=") in
  let req0 = unhex (field f "req=") in
  let tp = int_of_string (field f "tp=") and mp = int_of_string (field f "mp=") and ml = int_of_string (field f "ml=") in
  let dig0 = unhex (field f "dig=") in
  let dtp = int_of_string (field f "dtp=") in
  let fake = unhex (field f "fake=") in
  let rr = int_of_string (field f "rr=") and ol = int_of_string (field f "ol=") in
  let ts = be48 (n_of_int (nowm + off)) in
  let now = be48 (n_of_int nowm) in
  let dig = patch dig0 dtp ts in
  let mac = take ml (fake @ Stdlib.List.init ml (fun _ -> n_of_int 0)) in
  let req = patch (patch req0 tp ts) mp mac in
  let req = match field f "flip=" with
    | "-" -> req
    | s -> Stdlib.List.fold_left (fun r fl -> match String.split_on_char ':' fl with
        | [p; x] -> let p = int_of_string p and x = int_of_string x in
          Stdlib.List.mapi (fun i b -> if i = p then n_of_int ((int_of_n b) lxor x) else b) r
        | _ -> failwith "flip") req (String.split_on_char ',' s) in
  let msg = take rr req in
  let owner = take ol (drop rr req) in
  let rdata = drop (rr + ol + 10) req in
  let hm a k d = if a = salg && k = sk && d = dig then fake
    else Stdlib.List.init (int_of_nat (output_size a)) (fun _ -> n_of_int 0xEE) in
  let rrec = { rr_owner = owner; rr_type = n_of_int 250; rr_class = n_of_int 255; rr_ttl = n_of_int 0; rr_rdata = rdata } in
  let m = match read_tsig_try_from rrec with
    | Res.Ok r ->
      (match handle_tsig hm keys r msg now with
       | Res.Ok d ->
         let p = d.d_rr in
         let signed, algn, outlen = match d.d_mode with
           | TmRequest (a, _) | TmResponse (a, _, _) | TmSubsequent (a, _, _) -> true, alg_name a, int_of_nat (output_size a)
           | TmUnsigned an -> false, an, 0 in
         let tsn = if p.p_time_signed = now then "now" else if p.p_time_signed = ts then "req" else hex p.p_time_signed in
         let other = p_other p in
         let on = if other = [] then "-" else if other = now then "now" else hex other in
         let a = if d.d_authenticated then 1 else 0 in
         Printf.sprintf "rcode=%s tc=0 answer=%d same=%d tsig err=%s maclen=%d ts=%s fudge=%s other=%s oid=%s key=%s alg=%s macok=%s"
           (show_n d.d_rcode) a a (show_n p.p_error) outlen tsn (show_n p.p_fudge) on (show_n p.p_original_id)
           (hex p.p_key_name) (hex algn) (if signed then "1" else "-")
       | Res.Err _ -> "err"
       | Res.Panic -> "panic")
    | Res.Err _ -> "tf-err"
    | Res.Panic -> "panic" in
  m ^ " | -")
