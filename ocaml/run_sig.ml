(* Suite `signed` (C02 / C04 / C01): oracle runner.  No model of TSIG-bearing response octets exists (the Writer model
   has no signing mode, HMAC is a parameter of the server model): the suite is decided by the extracted
   specification functions on the implementation's output.
     run --oracle02            <rawhex>                          -> ok | bad:not-well-formed        (Spec/RespS.v wf_response)
     run --oracle04s           <edns> <their|-> <rawU> <rawT>    -> ok | bad:<clause>               (Spec/RespSigS.v pair_check_signed)
     run --oracle04s-at        <edns> <their|-> <fit> <rawU> <rawT> -> the same relation, complete response counted as fitting up to <fit> octets (finding class C04-2 only)
     run                       <case line of impl_sig>           -> "oracle-only | <what decides>"  (model column) *)
open Qvutil

let show_pair = function
  | RespS.PairOk -> "ok"
  | RespS.PUndecodable -> "bad:undecodable"
  | RespS.PTooLong -> "bad:longer-than-the-limit-in-effect"
  | RespS.PTcOnTcp -> "bad:TC-set-over-TCP"
  | RespS.PTcWithRecords -> "bad:TC-with-records"
  | RespS.PNotIdentical -> "bad:TCP-response-fits-but-UDP-response-differs"
  | RespS.PHeaderDiffers -> "bad:header-differs"
  | RespS.PMandatoryDiffers -> "bad:answer-or-authority-differs"
  | RespS.PNotOmission -> "bad:additional-not-an-omission"
  | RespS.PGlueOmitted -> "bad:in-bailiwick-glue-or-pseudo-record-omitted"

let show_verdict = function
  | RespSigS.SPair v -> show_pair v
  | RespSigS.STsigMismatch -> "bad:TSIG-record-missing-or-different-in-TC-clear-UDP-response"

let mode = if Array.length Sys.argv > 1 then Sys.argv.(1) else ""

let () = run_lines (fun f ->
  match mode, f with
  | "--oracle02", [raw] -> if RespS.wf_response (unhex raw) then "ok" else "bad:not-well-formed"
  | "--oracle04s", [edns; their; u; t] ->
    let th = if their = "-" then 0 else int_of_string their in
    show_verdict (RespSigS.pair_check_signed (n_of_int th) (n_of_int (int_of_string edns)) (unhex u) (unhex t))
  | "--oracle04s-at", [edns; their; fit; u; t] ->
    (* only used to delimit the input class of known finding C04-2 (checks/siggen.py finding_c04_2) *)
    let th = if their = "-" then 0 else int_of_string their in
    show_verdict (RespSigS.pair_check_signed_at (n_of_int th) (n_of_int (int_of_string edns)) (nat_of_int (int_of_string fit)) (unhex u) (unhex t))
  | "", edns :: their :: _ ->
    let lim = if their = "-" then "512" else string_of_int (max 512 (min (int_of_string their) (int_of_string edns))) in
    "oracle-only | wf_response on both responses; pair_check_signed with UDP limit " ^ lim ^ " if the OPT was processed, else 512"
  | _ -> failwith "bad case")
