(* C28 model-side runner: same case lines as harness/src/bin/impl_c28.rs.
   `<rate> <window> <slip> <size> <kind> <edns> <mode> <seed> <b1,..,bT>`
   The model column RUNS the extracted interleaving semantics (Model/RrlConc.v: cstep) under a
   pseudo-random schedule derived from <seed>: at every step a thread id, a clock value inside
   one 0.9 s window and a draw are picked at random; blocked threads stutter; until every
   thread is done.  The oracle column is the property's count: min(n, rate x window) sent,
   the rest limited. *)
open Qvutil
open BinNums

let n_add = BinNat.N.add and n_mul = BinNat.N.mul
let ten = n_of_int 10
(* arbitrary-size decimal *)
let n_of_dec (s : string) : coq_N =
  let r = ref N0 in
  String.iter (fun ch -> r := n_add (n_mul !r ten) (n_of_int (Char.code ch - 48))) s;
  !r

let label (s : string) : coq_N list =
  Stdlib.List.init (String.length s) (fun i -> n_of_int (Char.code s.[i]))

(* --- the glue shared with rrl_common::query: what the tiny zone answers ---------------- *)
(* returns (opcode, rcode, question, source of synthesis, send_response before RRL) *)
let kind_ctx (kind : string) =
  let k = String.sub kind 0 1 and l = String.sub kind 1 (String.length kind - 1) in
  let ex = label "example" in
  (* <label> may hold several labels separated by '.' *)
  let ls = Stdlib.List.map label (String.split_on_char '.' l) in
  match k with
  | "n" | "d" -> (0, 0, Some (ls @ [ex]), None, true)
  | "w" | "y" | "z" -> (0, 0, Some (ls @ [label "w"; ex]), Some [label "*"; label "w"; ex], true)
  | "b" -> (0, 0, Some (ls @ [label "big"; ex]), Some [label "*"; label "big"; ex], true)
  | "c" -> (0, 0, Some (ls @ [label "cw"; ex]), Some [label "*"; label "cw"; ex], true)
  | "g" -> (0, 3, Some (ls @ [label "cn"; ex]), Some [label "*"; label "cn"; ex], true)
  | "h" -> (0, 2, Some (ls @ [label "cl"; ex]), Some [label "*"; label "cl"; ex], true)
  | "x" -> (0, 3, Some (ls @ [label "nx"; ex]), None, true)
  | "r" -> (0, 5, Some (ls @ [label "other"]), None, true)
  | "f" -> (0, 1, None, None, true)
  | "u" -> (0, 16, None, None, true)      (* BADVERS without a question *)
  | "m" -> (0, 0, None, None, false)
  | "o" -> (4, 4, Some (ls @ [ex]), None, true)
  | "v" -> (0, 16, Some (ls @ [ex]), None, true)      (* BADVERS: extended RCODE 16 (low four bits 0) *)
  | _ -> failwith "unknown kind"

let mk_ctx kind edns src transport : Rrl.ctx =
  let edns = edns || String.sub kind 0 1 = "v" || String.sub kind 0 1 = "u" in
  let (op, rc, q, sos, send) = kind_ctx kind in
  let w = { Rrl.w_ancount = n_of_int 1; w_nscount = n_of_int 1; w_arcount = n_of_int (if edns then 2 else 1);
            w_edns = edns; w_tsig = false; w_tc = false; w_rcode = n_of_int rc } in
  { Rrl.c_source = src; c_transport = transport; c_opcode = n_of_int op; c_question = q; c_sos = sos;
    c_response = w; c_rrl_action = None; c_send_response = send }

(* stand-ins for the RandomState (any functions will do: the theorems hold for all) *)
let hname (b : coq_N list) : coq_N =
  n_of_int (Stdlib.List.fold_left (fun h x -> (h * 1000003 + int_of_n x + 1) land 0x3fffffffffff) 7 b)
let hkey (k : Rrl.key) : coq_N =
  let c = match k.Rrl.k_category with Rrl.NoError -> 1 | Rrl.NxDomain -> 2 | Rrl.ErrorCat -> 3 in
  let d = match k.Rrl.k_dest with N0 -> 0 | Npos _ -> Hashtbl.hash (k.Rrl.k_dest) in
  n_of_int ((d * 31 + int_of_n k.Rrl.k_qname_hash * 7 + c * 131 + (if k.Rrl.k_ipv6 then 977 else 0)) land 0x3fffffffffff)

let perr (e : Rrl.param_err) = match e with
  | Rrl.NoerrorRateIsZero -> "NoerrorRateIsZero" | Rrl.NxdomainRateIsZero -> "NxdomainRateIsZero"
  | Rrl.ErrorRateIsZero -> "ErrorRateIsZero" | Rrl.WindowIsZero -> "WindowIsZero"
  | Rrl.WindowIsTooLargeForRates -> "WindowIsTooLargeForRates"
  | Rrl.InvalidIpv4PrefixLen -> "InvalidIpv4PrefixLen" | Rrl.InvalidIpv6PrefixLen -> "InvalidIpv6PrefixLen"
  | Rrl.SizeIsZero -> "SizeIsZero"

(* RrlParams::new then the setters in the order of rrl_common::params *)
let params ne nx er win slip size v4 v6 : (Rrl.params, string) Stdlib.result =
  let ( >>= ) r f = match r with
    | Res.Ok p -> f p | Res.Err e -> Stdlib.Error ("err " ^ perr e) | Res.Panic -> Stdlib.Error "panic" in
  Rrl.params_new ne nx er win >>= fun p ->
  let p = Rrl.set_slip p slip in
  Rrl.set_size p size >>= fun p ->
  Rrl.set_ipv4_prefix_len p v4 >>= fun p ->
  Rrl.set_ipv6_prefix_len p v6 >>= fun p -> Stdlib.Ok p


let u32_max = n_of_dec "4294967295"
let t0 = n_of_dec "1000000000"

let () = run_lines (fun f ->
  match f with
  | [rate; win; slip; size; kind; edns; _mode; seed; bursts] ->
    let rate_n = n_of_dec rate and win_n = n_of_dec win in
    let slip_i = int_of_string slip in
    let bursts = Stdlib.List.map int_of_string (String.split_on_char ',' bursts) in
    let nthreads = Stdlib.List.length bursts in
    let n = Stdlib.List.fold_left (+) 0 bursts in
    let model =
      match params rate_n rate_n rate_n win_n (n_of_int slip_i) (n_of_dec size) (n_of_int 24) (n_of_int 56) with
      | Stdlib.Error e -> e
      | Stdlib.Ok p ->
        let c = mk_ctx kind (edns = "1") (Rrl.V4 (Stdlib.List.map n_of_int [192; 0; 2; 1])) Rrl.Udp in
        (match Rrl.key_of hname p c with
         | None -> "panic"
         | Some k ->
           let st = ref (RrlConc.cinit { Rrl.e_key = Rrl.init_key; e_count = N0; e_last = t0 }
                           (Stdlib.List.map nat_of_int bursts)) in
           let x = ref (int_of_string seed * 2654435761 + 12345) in
           let next m = x := (!x * 25214903917 + 11) land 0xffffffffffff; (!x lsr 16) mod m in
           let steps = ref 0 and budget = 400 * (n + 1) * (nthreads + 1) in
           while not (RrlConc.all_done !st) && !steps < budget do
             incr steps;
             let tid = next nthreads in
             let now = n_add t0 (n_of_int (next 900000000)) in
             let rnd = n_of_int (next (max 1 slip_i)) in
             (match RrlConc.cstep p k !st ((nat_of_int tid, now), rnd) with
              | Some s' -> st := s'
              | None -> ())
           done;
           if not (RrlConc.all_done !st) then "stuck"
           else Printf.sprintf "ok sent=%d limited=%d" (int_of_nat !st.RrlConc.c_sent) (int_of_nat !st.RrlConc.c_limited)) in
    let oracle =
      let z = N0 in
      if rate_n = z || win_n = z || not (BinNat.N.leb (n_mul rate_n win_n) u32_max) || n_of_dec size = z then "reject"
      else
        let cap = int_of_n (n_mul rate_n win_n) in
        let s = min n cap in
        Printf.sprintf "ok sent=%d limited=%d" s (n - s) in
    model ^ " | " ^ oracle
  | _ -> failwith "bad case line")
