(* C29 model-side runner: validates a recorded trace of the hooked thread.rs against
   the extracted LTS of Model/Pool.v (Model/PoolTrace.v: validate).
   Input line: the 14 scenario fields of harness/src/bin/impl_c29.rs, then `T`, then the
   trace `tid:kind:note:a:b:c;...` (or `-`).  Output:
     ok next=<accepted> done=<finished> started=<started> qlen=<queued> live=<thread_count>
        quiescent=<0|1> awret=<awaiters returned> events=<n>
   or reject idx=<i> ev=<event> | <model state before the event>                         *)
open Qvutil

let nat = nat_of_int
let int = int_of_nat

let parse_prog (s : string) : Pool.op list =
  let ops = ref [] in
  String.iter (fun ch -> match ch with
    | 'b' -> ops := Pool.OSubmit :: !ops
    | 's' -> ops := Pool.OSpawn :: !ops
    | _ -> ()) s;
  Stdlib.List.rev !ops

let kind_of_string = function
  | "sub_reject" -> PoolTrace.ESubReject | "sub_push" -> PoolTrace.ESubPush | "sub_wait" -> PoolTrace.ESubWait
  | "sos_reject" -> PoolTrace.ESosReject | "sos_push" -> PoolTrace.ESosPush | "sos_need" -> PoolTrace.ESosNeed
  | "spawn" -> PoolTrace.ESpawn | "spawn_reject" -> PoolTrace.ESpawnReject | "spawn_fail" -> PoolTrace.ESpawnFail
  | "w_take" -> PoolTrace.EWTake | "w_exit_sd" -> PoolTrace.EWExitSd | "w_exit_dl" -> PoolTrace.EWExitDl
  | "w_exit_to" -> PoolTrace.EWExitTo | "w_wait" -> PoolTrace.EWWait
  | "end" -> PoolTrace.EEnd | "r_wait" -> PoolTrace.ERWait | "respawn_end" -> PoolTrace.ERespawnEnd
  | "respawn_fail_end" -> PoolTrace.ERespawnFailEnd
  | "sd_g" -> PoolTrace.ESdG | "p_sd" -> PoolTrace.EPoolSd | "psd1" -> PoolTrace.EPsd1
  | "aw_wait" -> PoolTrace.EAwWait | "aw_ret" -> PoolTrace.EAwRet
  | k -> failwith ("unknown event kind " ^ k)

let parse_event (s : string) : PoolTrace.event =
  match String.split_on_char ':' s with
  | [tid; k; note; a; b; c] ->
    { PoolTrace.etid = nat (int_of_string tid); ek = kind_of_string k; enote = nat (int_of_string note);
      ea = nat (int_of_string a); eb = nat (int_of_string b); ec = nat (int_of_string c) }
  | _ -> failwith ("bad event " ^ s)

let show_kind = function Pool.Perm -> "perm" | Pool.Aux -> "aux"
let show_pc (p : Pool.pc) = match p with
  | Pool.SIdle ops -> Printf.sprintf "SIdle/%d" (Stdlib.List.length ops)
  | Pool.SWait _ -> "SWait" | Pool.SWoken _ -> "SWoken" | Pool.SSpawn _ -> "SSpawn"
  | Pool.WIdle k -> "WIdle-" ^ show_kind k | Pool.WWait k -> "WWait-" ^ show_kind k
  | Pool.WWoken (k, t) -> Printf.sprintf "WWoken-%s-%b" (show_kind k) t
  | Pool.WRun (k, t) -> Printf.sprintf "WRun-%s-%d" (show_kind k) (int t)
  | Pool.WDrop k -> "WDrop-" ^ show_kind k
  | Pool.RWait -> "RWait" | Pool.RWoken -> "RWoken" | Pool.WExited -> "WExited"
  | Pool.GIdle -> "GIdle" | Pool.GHold -> "GHold" | Pool.GDone -> "GDone"
  | Pool.QIdle -> "QIdle" | Pool.QMid -> "QMid" | Pool.QDone -> "QDone"
  | Pool.AwIdle -> "AwIdle" | Pool.AwWait -> "AwWait" | Pool.AwWoken -> "AwWoken" | Pool.AwRet -> "AwRet"

let rec repeat x n = if n <= 0 then [] else x :: repeat x (n - 1)

let () =
  let fx = not (Array.exists (fun a -> a = "--old-loop") Sys.argv) in
  run_lines (fun f ->
    let a = Array.of_list f in
    let nperm = int_of_string a.(0) and linger = int_of_string a.(1) <> 0 in
    let progs = Stdlib.List.map parse_prog (String.split_on_char ',' a.(2)) in
    let nq = if int_of_string a.(8) < 0 then 0 else if int_of_string a.(13) = 2 then 2 else 1 in
    let n_aw = int_of_string a.(10) and n_gsd = int_of_string a.(11) in
    let trace = if Array.length a > 15 && a.(15) <> "-" then
        Stdlib.List.map parse_event (String.split_on_char ';' a.(15)) else [] in
    let ths = repeat (Pool.WIdle Pool.Perm) nperm
              @ Stdlib.List.map (fun p -> Pool.SIdle p) progs
              @ repeat Pool.QIdle nq
              @ repeat Pool.GIdle n_gsd @ repeat Pool.AwIdle n_aw in
    let s0 = Pool.init_state linger ths in
    let (s, bad) = PoolTrace.validate fx s0 trace (nat 0) in
    match bad with
    | None ->
      let awret = Stdlib.List.length (Stdlib.List.filter (fun p -> p = Pool.AwRet) s.Pool.thr) in
      Printf.sprintf "ok next=%d done=%d started=%d qlen=%d live=%d quiescent=%d awret=%d events=%d"
        (int s.Pool.next) (Stdlib.List.length s.Pool.coq_done) (Stdlib.List.length s.Pool.started)
        (Stdlib.List.length s.Pool.queue) (int s.Pool.tcount)
        (if PoolTrace.all_quiescent s then 1 else 0) awret (Stdlib.List.length trace)
    | Some idx ->
      let i = int idx in
      let ev = Stdlib.List.nth (String.split_on_char ';' a.(15)) i in
      let tid = int (Stdlib.List.nth trace i).PoolTrace.etid in
      let pc = (try show_pc (Stdlib.List.nth s.Pool.thr tid) with _ -> "no-such-thread") in
      Printf.sprintf "reject idx=%d ev=%s | model: pc=%s avail=%d qlen=%d psd=%b tcount=%d gsd=%b glock=%b"
        i ev pc (int s.Pool.avail) (Stdlib.List.length s.Pool.queue) s.Pool.psd
        (int s.Pool.tcount) s.Pool.gsd s.Pool.glock)
