(* C19 model-side runner: same case lines as harness/src/bin/impl_c19.rs.
   Prints "<model result> | <spec-oracle result>"; the oracle is the independent
   characterisation spec_equals / nodup_by of Spec/RdataEqS.v.
   With the argument --prefix the model uses the pre-fix names_equal. *)
open Qvutil

let prefix = Array.length Sys.argv > 1 && Sys.argv.(1) = "--prefix"

let show_b (r : (RdataM.rd_err, bool) Res.res) = match r with
  | Res.Ok true -> "true" | Res.Ok false -> "false"
  | Res.Err _ -> "err" | Res.Panic -> "panic"

let split_items s = if s = "none" then [] else Stdlib.List.map unhex (String.split_on_char ',' s)

let () = run_lines (fun f ->
  match f with
  | op :: cl :: ty :: rest ->
    let c = n_of_int (int_of_string cl) and t = n_of_int (int_of_string ty) in
    let meq a b = if prefix then RdataM.equals_prefix c t a b else RdataM.equals c t a b in
    let seq a b = RdataEqS.spec_equals c t a b in
    (match op, rest with
     | "e", [a; b] ->
       let a = unhex a and b = unhex b in
       show_b (meq a b) ^ " | " ^ string_of_bool (seq a b)
     | "l", [a; b; c3] ->
       let a = unhex a and b = unhex b and c3 = unhex c3 in
       let line eq =
         let refl = eq a a && eq b b && eq c3 c3 in
         let sym = eq a b = eq b a && eq b c3 = eq c3 b && eq a c3 = eq c3 a in
         let tr x y z = not (eq x y && eq y z) || eq x z in
         let trans = tr a b c3 && tr a c3 b && tr b a c3 && tr b c3 a && tr c3 a b && tr c3 b a in
         Printf.sprintf "refl=%b sym=%b trans=%b ab=%b bc=%b ac=%b" refl sym trans (eq a b) (eq b c3) (eq a c3) in
       let m x y = match meq x y with Res.Ok v -> v | _ -> failwith "model equals failed" in
       (try line m with Failure _ -> "panic") ^ " | " ^
       Printf.sprintf "refl=true sym=true trans=true ab=%b bc=%b ac=%b" (seq a b) (seq b c3) (seq a c3)
     | "s", items ->
       let rs = match items with [] -> [] | s :: _ -> split_items s in
       let show l = if l = [] then "none" else "ok " ^ String.concat "," (Stdlib.List.map hex l) in
       (match RdataSetM.from_iter false c t rs with
        | Res.Ok None -> "none"
        | Res.Ok (Some inner) -> show (RdataSetM.set_iter false inner)
        | Res.Err _ -> "err" | Res.Panic -> "panic") ^ " | " ^
       show (RdataEqS.nodup_by (RdataEqS.spec_equals c t) [] rs)
     | _ -> failwith "bad case line")
  | _ -> failwith "bad case line")
