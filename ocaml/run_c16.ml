(* C16 model-side runner: same case lines as harness/src/bin/impl_c16.rs.
   Prints "<model result> | <spec-oracle result>".  Names are passed as uncompressed wire forms;
   the model value is obtained with the C14 model of try_from_uncompressed_all, the abstract
   name (list of labels) for the oracle with the C14 spec decoder. *)
open Qvutil

let err_name (e : NameWire.name_err) = match e with
  | NameWire.ExtraData -> "ExtraData" | NameWire.InvalidEscape -> "InvalidEscape"
  | NameWire.InvalidPointer -> "InvalidPointer" | NameWire.LabelTooLong -> "LabelTooLong"
  | NameWire.NameTooLong -> "NameTooLong" | NameWire.NonNullTerminal -> "NonNullTerminal"
  | NameWire.NullNonTerminal -> "NullNonTerminal" | NameWire.StrEmpty -> "StrEmpty"
  | NameWire.StrNotAscii -> "StrNotAscii" | NameWire.UnexpectedEom -> "UnexpectedEom"
  | NameWire.OutOfFuel -> "OutOfFuel"

let show_name (nm : NameWire.name) =
  let n = Stdlib.List.length nm.NameWire.n_offsets in
  let labels = Stdlib.List.init n (fun i ->
    match NameWire.label_at nm (nat_of_int i) with
    | Res.Ok l -> hex l
    | _ -> "BADLABEL") in
  Printf.sprintf "wire=%s labels=%s" (hex nm.NameWire.n_wire) (String.concat "," labels)

let show_res okf r = match r with
  | Res.Ok a -> "ok" ^ okf a
  | Res.Err e -> "err " ^ err_name e
  | Res.Panic -> "panic"

let name_of_wire h : NameWire.name =
  match NameWire.parse_uncompressed_name (unhex h) true with
  | Res.Ok (nm, _) -> nm
  | _ -> failwith "case must carry a valid uncompressed name"

let labels_of_wire h : BinNums.coq_N list list =
  match NameWireS.spec_decode_name (unhex h) (nat_of_int 0) with
  | Some (ls, _) -> ls
  | None -> failwith "case must carry a valid uncompressed name"

let abstract (ls : BinNums.coq_N list list) = show_name (NameRepr.name_of ls)

let b01 b = if b then "1" else "0"
let ord = function Datatypes.Lt -> "lt" | Datatypes.Eq -> "eq" | Datatypes.Gt -> "gt"
let get = function Res.Ok x -> x | _ -> failwith "model panic/err"

let () = run_lines (fun f ->
  match f with
  | ["txt"; h] ->
    let s = unhex h in
    show_res (fun nm -> " " ^ show_name nm) (NameText.name_from_str s) ^ " | " ^
    (match NameTextS.spec_of_text s with Some ls -> "ok " ^ abstract ls | None -> "reject")
  | ["ltxt"; h] ->
    let s = unhex h in
    show_res (fun nm -> " " ^ show_name nm) (NameText.lowercase_name_from_str s) ^ " | " ^
    (match NameTextS.spec_of_text s with Some ls -> "ok " ^ abstract (NameTextS.spec_lowercase ls) | None -> "reject")
  | ["disp"; h] ->
    let nm = name_of_wire h in
    (match NameText.name_to_text nm with
     | Res.Ok t ->
       Printf.sprintf "ok %s back=%s" (hex t)
         (show_res (fun m -> " wire=" ^ hex m.NameWire.n_wire) (NameText.name_from_str t))
     | Res.Err e -> "err " ^ err_name e
     | Res.Panic -> "panic")
    ^ " | back=ok wire=" ^ h
  | ["ldisp"; h] ->
    let o = unhex h in
    show_res (fun l -> " " ^ hex (NameText.label_to_text l)) (NameText.label_try_from o) ^ " | " ^
    (if Stdlib.List.length o <= 63 then "-" else "reject")
  | ["cmp"; ha; hb] ->
    let a = name_of_wire ha and b = name_of_wire hb in
    let la = labels_of_wire ha and lb = labels_of_wire hb in
    let line eq cmp sub bus heq = Printf.sprintf "ok eq=%s cmp=%s sub=%s bus=%s hash_eq=%s" (b01 eq) (ord cmp) (b01 sub) (b01 bus) (b01 heq) in
    (match NameText.name_eq a b, NameText.name_cmp a b, NameText.eq_or_subdomain_of a b, NameText.eq_or_subdomain_of b a,
           NameText.name_hash_stream a, NameText.name_hash_stream b with
     | Res.Ok eq, Res.Ok c, Res.Ok sub, Res.Ok bus, Res.Ok sa, Res.Ok sb -> line eq c sub bus (sa = sb)
     | _ -> "panic")
    ^ " | " ^
    (let eq = NameTextS.spec_eqb la lb in
     line eq (NameTextS.spec_cmp la lb) (NameTextS.spec_subdomainb la lb) (NameTextS.spec_subdomainb lb la) eq)
  | ["lcmp"; ha; hb] ->
    let a = unhex ha and b = unhex hb in
    (match NameText.label_try_from a, NameText.label_try_from b with
     | Res.Ok a, Res.Ok b ->
       Printf.sprintf "ok eq=%s cmp=%s hash_eq=%s" (b01 (NameText.label_eq a b)) (ord (NameText.label_cmp a b))
         (b01 (NameText.label_hash_stream a = NameText.label_hash_stream b))
     | Res.Err e, _ | _, Res.Err e -> "err " ^ err_name e
     | _ -> "panic")
    ^ " | " ^
    (if Stdlib.List.length a > 63 || Stdlib.List.length b > 63 then "reject"
     else
       let eq = NameTextS.spec_eqb [a] [b] in
       Printf.sprintf "ok eq=%s cmp=%s hash_eq=%s" (b01 eq) (ord (NameTextS.spec_cmp [a] [b])) (b01 eq))
  | ["sup"; h; k] ->
    let k = nat_of_int (int_of_string k) in
    (match NameText.superdomain (name_of_wire h) k with
     | Res.Ok (Some nm) -> "ok " ^ show_name nm
     | Res.Ok None -> "ok none"
     | Res.Err e -> "err " ^ err_name e
     | Res.Panic -> "panic")
    ^ " | " ^
    (match NameTextS.spec_superdomain (labels_of_wire h) k with
     | Some ls -> "ok " ^ abstract ls
     | None -> "ok none")
  | ["lab"; h; i] ->
    let i = nat_of_int (int_of_string i) in
    let show l = Printf.sprintf "ok %s len=%d null=%s" (hex l) (Stdlib.List.length l) (b01 (l = [])) in
    (match NameWire.label_at (name_of_wire h) i with
     | Res.Ok l -> show l
     | Res.Err e -> "err " ^ err_name e
     | Res.Panic -> "panic")
    ^ " | " ^
    (match NameTextS.spec_label (labels_of_wire h) i with Some l -> show l | None -> "-")
  | ["low"; h] ->
    let nm = name_of_wire h in
    (match NameText.make_ascii_lowercase nm, NameText.lowercase_name_from nm with
     | Res.Ok a, Res.Ok b -> Printf.sprintf "ok %s lcn_same=%s" (show_name a) (b01 (a = b))
     | _ -> "panic")
    ^ " | ok " ^ abstract (NameTextS.spec_lowercase (labels_of_wire h)) ^ " lcn_same=1"
  | ["misc"; h; k] ->
    let nm = name_of_wire h in
    let ki = int_of_string k in
    let k = nat_of_int ki in
    let ls = labels_of_wire h in
    let n = Stdlib.List.length ls + 1 in
    let line len root wild t fr = Printf.sprintf "ok len=%d root=%s wild=%s to=%s from=%s" len (b01 root) (b01 wild) (hex t) (hex fr) in
    (match NameText.is_wildcard nm, NameText.wire_repr_to nm k, NameText.wire_repr_from nm k with
     | Res.Ok w, Res.Ok t, Res.Ok fr -> line (int_of_nat (NameText.name_len nm)) (NameText.is_root nm) w t fr
     | _ -> "panic")
    ^ " | " ^
    (if ki > n then "-" else
       let rec take i l = if i <= 0 then [] else match l with [] -> [] | x :: r -> x :: take (i - 1) r in
       let rec drop i l = if i <= 0 then l else match l with [] -> [] | _ :: r -> drop (i - 1) r in
       (* wire form of the first k labels / of the labels from k on (root label included when k < n) *)
       let pre = take ki ls and post = drop ki ls in
       let wpre = if ki = n then NameWireS.wire_of ls else NameWireS.lwire pre in
       let wpost = if ki = n then [] else NameWireS.wire_of post in
       line n (ls = []) (NameTextS.spec_is_wildcard ls) wpre wpost)
  | ["bld"; script] ->
    let ops = String.split_on_char ',' script in
    let rec go b ops acc =
      match ops with
      | [] -> Stdlib.List.rev acc
      | op :: rest ->
        let c = String.sub op 0 1 and arg = String.sub op 1 (String.length op - 1) in
        let step r = (match r with
            | Res.Ok b' -> go b' rest ("ok" :: acc)
            | Res.Err e -> go b rest (("E:" ^ err_name e) :: acc)
            | Res.Panic -> Stdlib.List.rev ("PANIC" :: acc)) in
        let fin r = Stdlib.List.rev ((match r with
            | Res.Ok nm -> "fin:" ^ show_name nm
            | Res.Err e -> "E:" ^ err_name e
            | Res.Panic -> "PANIC") :: acc) in
        (match c with
         | "p" -> step (NameText.try_push b (Stdlib.List.hd (unhex arg)))
         | "s" -> step (NameText.try_push_slice b (unhex arg))
         | "n" -> step (NameText.next_label b)
         | "q" -> go b rest (("fq" ^ b01 (NameText.is_fully_qualified b)) :: acc)
         | "f" -> fin (NameText.finish b)
         | "x" -> fin (NameText.finish_with_suffix b (name_of_wire arg))
         | _ -> failwith "bad builder op") in
    let out = go NameText.builder_new ops [] in
    if Stdlib.List.mem "PANIC" out then "panic | -" else "ok " ^ String.concat ";" out ^ " | -"
  | _ -> failwith "bad case line")
