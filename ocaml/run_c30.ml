(* C30 model-side runner: same case lines as harness/src/bin/impl_c30.rs.
   The handler (Server::handle_message on a message alone) is the table carried by the case.
   Prints "<model result> | <spec-oracle result>". *)
open Qvutil

exception Table_miss

let split c s = if s = "" then [] else String.split_on_char c s

let parse_table (s : string) : (string, string option) Hashtbl.t =
  let t = Hashtbl.create 16 in
  if s <> "-" then
    Stdlib.List.iter (fun e ->
      match String.index_opt e '=' with
      | Some i ->
        let k = String.sub e 0 i and v = String.sub e (i + 1) (String.length e - i - 1) in
        let k = if k = "_" then "-" else k in
        Hashtbl.replace t k (if v = "none" then None else Some v)
      | None -> failwith "table entry") (split ';' s);
  t

let handler_of t (m : BinNums.coq_N list) : BinNums.coq_N list option =
  match Hashtbl.find_opt t (hex m) with
  | Some (Some r) -> Some (unhex r)
  | Some None -> None
  | None -> raise Table_miss

let seg_bytes (seg : string) : BinNums.coq_N list =
  let h = match String.index_opt seg '@' with Some i -> String.sub seg 0 i | None -> seg in
  unhex h

let no_shutdown _ = false

(* hex of the concatenation of many (possibly 50-KB) octet strings, without deep recursion *)
let hex_concat (ws : BinNums.coq_N list list) : string =
  let b = Buffer.create 4096 in
  Stdlib.List.iter (fun w ->
      Stdlib.List.iter (fun x -> Buffer.add_string b (Printf.sprintf "%02x" (int_of_n x))) w) ws;
  if Buffer.length b = 0 then "-" else Buffer.contents b

let status_of_close end_ (c : Framing.close_reason) = match c with
  | Framing.ClTimeout -> if end_ = "idle" then "closed-timeout" else "closed"
  | Framing.ClBlocked -> "open"
  | _ -> "closed"

let status_of_end (e : FramingS.end_reason) = match e with
  | FramingS.EndTimeout -> "closed-timeout"
  | FramingS.EndBlocked -> "open"
  | _ -> "closed"

let tcp_conn prov end_ handler (conn : string) : string * string =
  let segs = Stdlib.List.map seg_bytes (split ',' conn) in
  let tl = if end_ = "idle" then [Framing.RdTimeout] else [Framing.RdEof] in
  let evs = Stdlib.List.map (fun s -> Framing.RdData (s, false)) segs @ tl in
  let run = if prov = "tk" || prov = "tk1" || prov = "tkw" then Framing.run_tcp_tokio else Framing.run_tcp_blocking in
  let m = match run handler no_shutdown evs with
    | Res.Ok (ws, c) -> hex_concat ws ^ "/" ^ status_of_close end_ c
    | Res.Err _ -> "out-of-fuel"
    | Res.Panic -> "panic" in
  (* oracle: RFC 1035 framing of the stream, service of the framed requests *)
  let stream = Stdlib.List.rev (Stdlib.List.fold_left (fun acc s -> Stdlib.List.rev_append s acc) [] segs) in
  let e = if end_ = "idle" then FramingS.EndTimeout else FramingS.EndEof in
  let (ws, e') = FramingS.service handler (FramingS.deframe stream) e in
  (m, hex_concat ws ^ "/" ^ status_of_end e')

let psize = nat_of_int (int_of_n IoConsts.coq_DEFAULT_EDNS_UDP_PAYLOAD_SIZE)

let dgram_bytes d = if d = "_" then [] else unhex d

let show_sock (payloads : BinNums.coq_N list list) =
  let l = Stdlib.List.sort compare (Stdlib.List.map hex payloads) in
  if l = [] then "-" else String.concat "," l

let udp_case prov handler (socks : string list) : string * string =
  let dgs = Stdlib.List.mapi (fun i s ->
      Stdlib.List.map (fun d ->
          { Framing.dg_payload = dgram_bytes d; Framing.dg_src = n_of_int (i + 1); Framing.dg_dst = n_of_int 0 })
        (split ',' s)) socks in
  let evs = Stdlib.List.map (fun d -> Framing.UdRecv d) (Stdlib.List.concat dgs) in
  let sends =
    if prov = "tk" || prov = "tk1" || prov = "tkw" then
      Stdlib.List.fold_left (fun acc r -> match acc, r with
          | Some l, Res.Ok o -> Some (l @ o)
          | _ -> None) (Some []) (Framing.udp_tokio handler psize evs)
    else match Framing.udp_blocking handler psize no_shutdown (nat_of_int 0) evs with
      | Res.Ok o -> Some o
      | _ -> None in
  let m = match sends with
    | None -> "panic"
    | Some sends ->
      String.concat " " (Stdlib.List.mapi (fun i _ ->
          let mine = Stdlib.List.filter (fun s -> int_of_n s.Framing.us_to = i + 1) sends in
          let bad = Stdlib.List.exists (fun s -> int_of_n s.Framing.us_from <> 0) mine in
          show_sock (Stdlib.List.map (fun s -> s.Framing.us_payload) mine) ^ (if bad then "/badsrc" else ""))
          socks) in
  (* oracle: each datagram alone, answered at most once to its own socket *)
  let o = String.concat " " (Stdlib.List.map (fun ds ->
      show_sock (Stdlib.List.filter_map (fun d ->
          FramingS.udp_answer handler psize d.Framing.dg_payload) ds)) dgs) in
  (m, o)

let () = run_lines (fun f ->
  try
    match f with
    | "tcp" :: prov :: end_ :: table :: conns ->
      let handler = handler_of (parse_table table) in
      let rs = Stdlib.List.map (tcp_conn prov end_ handler) conns in
      String.concat " " (Stdlib.List.map fst rs) ^ " | " ^ String.concat " " (Stdlib.List.map snd rs)
    | "udp" :: prov :: table :: socks ->
      let handler = handler_of (parse_table table) in
      let (m, o) = udp_case prov handler socks in
      m ^ " | " ^ o
    | _ -> failwith "bad case line"
  with Table_miss -> "table-miss | -")
