(* C15 model-side runner: same case lines / result lines as harness/src/bin/impl_c15.rs *)
open Qvutil

let name_err (e : NameWire.name_err) = match e with
  | NameWire.ExtraData -> "ExtraData" | NameWire.InvalidEscape -> "InvalidEscape"
  | NameWire.InvalidPointer -> "InvalidPointer" | NameWire.LabelTooLong -> "LabelTooLong"
  | NameWire.NameTooLong -> "NameTooLong" | NameWire.NonNullTerminal -> "NonNullTerminal"
  | NameWire.NullNonTerminal -> "NullNonTerminal" | NameWire.StrEmpty -> "StrEmpty"
  | NameWire.StrNotAscii -> "StrNotAscii" | NameWire.UnexpectedEom -> "UnexpectedEom"
  | NameWire.OutOfFuel -> "OutOfFuel"

let rdata_err = function
  | Reader.RdInvalidName e -> "InvalidName(" ^ name_err e ^ ")"
  | Reader.RdUnexpectedEom -> "UnexpectedEom"
  | Reader.RdOther -> "Other"

let reader_err = function
  | Reader.HeaderTooShort -> "HeaderTooShort"
  | Reader.UnexpectedEomInField -> "UnexpectedEomInField"
  | Reader.InvalidQname e -> "InvalidQname(" ^ name_err e ^ ")"
  | Reader.InvalidOwner e -> "InvalidOwner(" ^ name_err e ^ ")"
  | Reader.InvalidRdata e -> "InvalidRdata(" ^ rdata_err e ^ ")"

let wire (nm : NameWire.name) = hex nm.NameWire.n_wire
let b x = if x then 1 else 0
let n = int_of_n

let show_rr (rr : Reader.read_rr_t) =
  Printf.sprintf "rr wire=%s type=%d class=%d ttl=%d rdata=%s" (wire rr.Reader.rr_owner)
    (n rr.Reader.rr_type) (n rr.Reader.rr_class) (n rr.Reader.rr_ttl) (hex rr.Reader.rr_rdata)

let show_out = function
  | Reader.OHeader (id, qr, aa, tc, rd, ra, op, rc, qd, an, ns, ar) ->
    Printf.sprintf "hdr id=%d qr=%d aa=%d tc=%d rd=%d ra=%d op=%d rc=%d qd=%d an=%d ns=%d ar=%d"
      (n id) (b qr) (b aa) (b tc) (b rd) (b ra) (n op) (n rc) (n qd) (n an) (n ns) (n ar)
  | Reader.OUnit -> "ok"
  | Reader.OQuestion q ->
    Printf.sprintf "q wire=%s type=%d class=%d" (wire q.Reader.q_name) (n q.Reader.q_type) (n q.Reader.q_class)
  | Reader.ORr rr -> show_rr rr
  | Reader.OPeek (ty, cl, ttl, rl, owner, ml) ->
    let o = match owner with
      | Res.Ok nm -> wire nm | Res.Err e -> "err " ^ reader_err e | Res.Panic -> "panic" in
    Printf.sprintf "peek type=%d class=%d ttl=%d rdlen=%d owner=%s msglen=%d" (n ty) (n cl) (n ttl) (n rl) o (int_of_nat ml)
  | Reader.OBool x -> Printf.sprintf "b%d" (b x)
  | Reader.OLen l -> Printf.sprintf "len=%d" (int_of_nat l)

let op_of = function
  | "h" -> Reader.OpHeader | "m" -> Reader.OpMark | "w" -> Reader.OpRewind
  | "rq" -> Reader.OpReadQuestion | "sq" -> Reader.OpSkipQuestion
  | "rr" -> Reader.OpReadRr | "sr" -> Reader.OpSkipRr
  | "pf" -> Reader.OpPeekFields | "ps" -> Reader.OpPeekSkip | "pp" -> Reader.OpPeekParse
  | "e" -> Reader.OpAtEom | "mc" -> Reader.OpMessageToCursor
  | s -> failwith ("unknown op " ^ s)

(* spec oracle for a single read_question on a fresh reader *)
let oracle buf ops =
  match ops with
  | ["rq"] when Stdlib.List.length buf >= 12 ->
    (match NameWireS.spec_decode_name buf (nat_of_int 12) with
     | Some (ls, l) ->
       let l = int_of_nat l in
       (match ReaderS.sbe16 buf (nat_of_int (12 + l)), ReaderS.sbe16 buf (nat_of_int (12 + l + 2)) with
        | Some qt, Some qc ->
          Printf.sprintf "q wire=%s type=%d class=%d @%d" (wire (NameRepr.name_of ls)) (n qt) (n qc) (12 + l + 4)
        | _ -> "reject")
     | None -> "reject")
  | _ -> "-"

let () = run_lines (fun f ->
  let buf = unhex (Stdlib.List.hd f) in
  let ops = match f with [_; o] -> String.split_on_char ',' o | _ -> [] in
  let res =
    match Reader.reader_new buf with
    | Res.Err e -> "err " ^ reader_err e
    | Res.Panic -> "panic"
    | Res.Ok r0 ->
      let rec go r ops acc =
        match ops with
        | [] -> Stdlib.List.rev acc
        | o :: rest ->
          let (r', x) = Reader.step RdataFull.rd_full r (op_of o) in
          (match x with
           | Res.Panic -> Stdlib.List.rev ("panic" :: acc)
           | x' ->
             let s = (match x' with Res.Ok v -> show_out v | Res.Err e -> "err " ^ reader_err e | Res.Panic -> "panic") in
             (match Reader.message_to_cursor r' with
              | Res.Ok m -> go r' rest ((s ^ Printf.sprintf " @%d" (Stdlib.List.length m)) :: acc)
              | _ -> Stdlib.List.rev ((s ^ " @panic") :: acc))) in
      let outs = go r0 ops [] in
      if outs = [] then "new" else String.concat " ; " outs in
  res ^ " | " ^ oracle buf ops)
