(* C25 (suite zonefull) model-side runner: same case lines as harness/src/bin/impl_c25f.rs.
   The generated tree becomes the model's file system (path -> content octets; paths looked up by a component-wise
   resolution of `.`/`..` in which every intermediate component must be an existing directory).  The model is the include stack
   machine of Model/ZfInc.v instantiated with the full zone-file parser model; the oracle column is
   the structural expansion (Spec/ZfIncS.v) of the same tree.
   Prints "<stack machine result> | <structural expand result>". *)
open Qvutil

let string_of_bytes (b : BinNums.coq_N list) = String.concat "" (Stdlib.List.map (fun x -> String.make 1 (Char.chr (int_of_n x))) b)
let bytes_of_string (s : string) = Stdlib.List.init (String.length s) (fun i -> n_of_int (Char.code s.[i]))

let normalise (p : string) : string =
  let parts = String.split_on_char '/' p in
  let rec go acc = function
    | [] -> Stdlib.List.rev acc
    | ("" | ".") :: r -> go acc r
    | ".." :: r -> (match acc with _ :: a -> go a r | [] -> go [".."] r)
    | x :: r -> go (x :: acc) r in
  String.concat "/" (go [] parts)

let int_err = function
  | ZfStd.IeEmpty -> "Empty" | ZfStd.IeInvalidDigit -> "InvalidDigit" | ZfStd.IePosOverflow -> "PosOverflow"
let sym_err = function ZfStd.SeUnknown -> "unknown" | ZfStd.SeBadValue -> "badvalue"
let name_err (e : NameWire.name_err) = match e with
  | NameWire.ExtraData -> "ExtraData" | NameWire.InvalidEscape -> "InvalidEscape"
  | NameWire.InvalidPointer -> "InvalidPointer" | NameWire.LabelTooLong -> "LabelTooLong"
  | NameWire.NameTooLong -> "NameTooLong" | NameWire.NonNullTerminal -> "NonNullTerminal"
  | NameWire.NullNonTerminal -> "NullNonTerminal" | NameWire.StrEmpty -> "StrEmpty"
  | NameWire.StrNotAscii -> "StrNotAscii" | NameWire.UnexpectedEom -> "UnexpectedEom"
  | NameWire.OutOfFuel -> "OutOfFuel"

let kind (k : ZfReader.zkind) = let open ZfReader in match k with
  | AtWhenOriginNotSet -> "AtWhenOriginNotSet" | BadUtf8 -> "BadUtf8"
  | CharacterStringTooLong -> "CharacterStringTooLong" | EmptyOwnerWithNoPrevious -> "EmptyOwnerWithNoPrevious"
  | EofBeforeCloseParen -> "EofBeforeCloseParen" | EofInEscape -> "EofInEscape"
  | EofInQuotedCharacterString -> "EofInQuotedCharacterString" | EofInQuotedIncludePath -> "EofInQuotedIncludePath"
  | EscapeNeedsThreeDigits -> "EscapeNeedsThreeDigits" | EscapeValueOutOfRange -> "EscapeValueOutOfRange"
  | ExpectedBackslashHash -> "ExpectedBackslashHash" | ExpectedChaosnetAddr -> "ExpectedChaosnetAddr"
  | ExpectedCharacterString -> "ExpectedCharacterString" | ExpectedCharacterStringOrBh -> "ExpectedCharacterStringOrBh"
  | ExpectedClassOrType -> "ExpectedClassOrType" | ExpectedEol -> "ExpectedEol"
  | ExpectedHexRdata -> "ExpectedHexRdata" | ExpectedIncludePath -> "ExpectedIncludePath"
  | ExpectedIpProto -> "ExpectedIpProto" | ExpectedIpv4OrBh -> "ExpectedIpv4OrBh"
  | ExpectedIpv6OrBh -> "ExpectedIpv6OrBh" | ExpectedName -> "ExpectedName"
  | ExpectedNameOrBh -> "ExpectedNameOrBh" | ExpectedRdataLen -> "ExpectedRdataLen"
  | ExpectedTtl -> "ExpectedTtl" | ExpectedTtlClassOrType -> "ExpectedTtlClassOrType"
  | ExpectedTtlOrType -> "ExpectedTtlOrType" | ExpectedType -> "ExpectedType"
  | ExpectedU16 -> "ExpectedU16" | ExpectedU16OrBh -> "ExpectedU16OrBh" | ExpectedU32 -> "ExpectedU32"
  | FieldTooLong -> "FieldTooLong" | IncludeNotSupported -> "IncludeNotSupported"
  | IncludePathTooLong -> "IncludePathTooLong" | InvalidChaosnetAddr -> "InvalidChaosnetAddr"
  | InvalidClass e -> "InvalidClass:" ^ sym_err e | InvalidHexDigit -> "InvalidHexDigit"
  | InvalidInt e -> "InvalidInt:" ^ int_err e | InvalidIpv4 -> "InvalidIpv4" | InvalidIpv6 -> "InvalidIpv6"
  | InvalidLabel e -> "InvalidLabel:" ^ name_err e | InvalidName e -> "InvalidName:" ^ name_err e
  | InvalidRdataForType -> "InvalidRdataForType" | InvalidRdataLen e -> "InvalidRdataLen:" ^ int_err e
  | InvalidTtl e -> "InvalidTtl:" ^ int_err e | InvalidType e -> "InvalidType:" ^ sym_err e
  | NestedParens -> "NestedParens" | NullNotAllowed -> "NullNotAllowed"
  | OmittedClassWithNoPrevious -> "OmittedClassWithNoPrevious"
  | OmittedTtlWithNoDefaultOrPrevious -> "OmittedTtlWithNoDefaultOrPrevious"
  | OptNotAllowed -> "OptNotAllowed" | PqdnWhenOriginNotSet -> "PqdnWhenOriginNotSet"
  | TsigNotAllowed -> "TsigNotAllowed" | TxtTooLong -> "TxtTooLong"
  | UnexpectedEndOfHexRdata -> "UnexpectedEndOfHexRdata" | UnknownDirective -> "UnknownDirective"
  | UnmatchedCloseParen -> "UnmatchedCloseParen" | WksTooLong -> "WksTooLong"

let show_name (nm : NameWire.name) =
  Printf.sprintf "%s/%d" (hex nm.NameWire.n_wire) (Stdlib.List.length nm.NameWire.n_offsets)

let show_rr (r : ZfParser.rr) =
  let v = match ZfParser.rdata_validate r.ZfParser.rr_class r.ZfParser.rr_type r.ZfParser.rr_rdata with
    | Res.Ok true -> "ok" | Res.Ok false -> "bad" | Res.Err _ -> "unmodelled" | Res.Panic -> "panic" in
  Printf.sprintf "o=%s t=%d c=%d y=%d d=%s v=%s" (show_name r.ZfParser.rr_owner)
    (int_of_n r.ZfParser.rr_ttl) (int_of_n r.ZfParser.rr_class) (int_of_n r.ZfParser.rr_type)
    (hex r.ZfParser.rr_rdata) v

let show_item ((p, n), r) = Printf.sprintf "%s:%d %s" (hex p) (int_of_n n) (show_rr r)

let show_err p e = match e with
  | ZfInc.ISyntax (ZfInc.ESyn (ps, k)) ->
    Printf.sprintf "err=syntax:%s:%d:%d:%s" (hex p) (int_of_n ps.ZfReader.p_line) (int_of_n ps.ZfReader.p_col) (kind k)
  | ZfInc.ISyntax ZfInc.EIo -> Printf.sprintf "err=io:%s" (hex p)
  | ZfInc.IOpen (n, np) -> Printf.sprintf "err=open:%s:%d:%s" (hex p) (int_of_n n) (hex np)
  | ZfInc.ITooDeep (n, chain) ->
    Printf.sprintf "err=toodeep:%s:%d:%s" (hex p) (int_of_n n)
      (String.concat ">" (Stdlib.List.map (fun (cp, k) -> Printf.sprintf "%s@%d" (hex cp) (int_of_n k)) chain))

let abort = function ZfInc.APanic -> "panic" | ZfInc.AParserFuel -> "parser-out-of-fuel"

(* the flattened text parsed by the plain parser model: same record sequence? *)
let flat_verdict flat recs ended =
  if flat = "-" then "-"
  else match ZfParser.parse_all (unhex flat) with
    | Res.Ok (items, _) ->
      let bad = ref false in
      let frecs = Stdlib.List.filter_map (fun it -> match it with
          | Datatypes.Coq_inl l ->
            (match l.ZfParser.l_content with
             | ZfParser.CRecord r -> Some (show_rr r)
             | ZfParser.CInclude _ -> bad := true; None)
          | Datatypes.Coq_inr _ -> bad := true; None) items in
      if !bad then "err" else if frecs = recs && ended then "same" else "diff"
    | Res.Err _ -> "outoffuel"
    | Res.Panic -> "panic"

let fuel = nat_of_int 200000

let () = run_lines (fun f ->
  match f with
  | "incf" :: depth :: root :: enc :: flat :: _ ->
    let tbl = Hashtbl.create 8 and dirs = Hashtbl.create 8 in
    Hashtbl.replace dirs "" ();                                  (* the scratch directory itself *)
    Stdlib.List.iter (fun file ->
        let i = String.index file '=' in
        let p = String.sub file 0 i and body = String.sub file (i + 1) (String.length file - i - 1) in
        let np = normalise (string_of_bytes (unhex p)) in
        Hashtbl.replace tbl np (unhex body);
        (* every directory on the way to the file exists *)
        let parts = String.split_on_char '/' np in
        let rec go acc = function
          | [] | [_] -> ()
          | d :: r -> let a = if acc = "" then d else acc ^ "/" ^ d in Hashtbl.replace dirs a (); go a r in
        go "" parts) (String.split_on_char ';' enc);
    (* File::open on the generated tree: absolute paths lie outside it; a path that climbs above the
       scratch directory with nothing but `..` names one of its (existing) ancestors; a path written
       with a trailing `/` or `/.` can only name a directory *)
    let fs (p : BinNums.coq_N list) : ZfInc.fobj option =
      let s = string_of_bytes p in
      if s <> "" && s.[0] = '/' then None
      else begin
        (* OS path resolution, component by component: every component that is followed by another one must be an
           EXISTING DIRECTORY of the tree (`nosuchdir/../f` does not name `f`); above the scratch directory nothing is
           known and the resolution stays lexical *)
        let resolve (s : string) : string option =
          let parts = Stdlib.List.filter (fun x -> x <> "" && x <> ".") (String.split_on_char '/' s) in
          let rec go acc = function
            | [] -> Some (String.concat "/" (Stdlib.List.rev acc))
            | ".." :: r -> (match acc with
                | ".." :: _ | [] -> go (".." :: acc) r
                | _ :: a -> go a r)
            | x :: r ->
              let acc' = x :: acc in
              if r = [] then go acc' r
              else if (match acc with ".." :: _ -> true | _ -> false) then go acc' r
              else if Hashtbl.mem dirs (String.concat "/" (Stdlib.List.rev acc')) then go acc' r
              else None in
          go [] parts in
        match resolve s with None -> None | Some n ->
        let must_be_dir =
          let l = String.length s in
          (l >= 1 && s.[l - 1] = '/') || (l >= 2 && String.sub s (l - 2) 2 = "/.") || s = "." in
        match Hashtbl.find_opt tbl n with
        | Some c -> if must_be_dir then None else Some (ZfInc.FFile c)
        | None ->
          if Hashtbl.mem dirs n then Some ZfInc.FDir
          else if n <> "" && Stdlib.List.for_all (fun x -> x = "..") (String.split_on_char '/' n) then Some ZfInc.FDir
          else None
      end in
    let d = nat_of_int (int_of_string depth) in
    let rootb = unhex root in
    let render items tail =
      let recs = Stdlib.List.map (fun (_, r) -> show_rr r) items in
      String.concat " ; " (Stdlib.List.map show_item items @ [tail]) ^ " # flat=" ^ flat_verdict flat recs (tail = "end") in
    let m = match ZfInc.full_open_and_run fs d fuel rootb with
      | None -> "err=openroot # flat=" ^ flat_verdict flat [] false
      | Some (items, ZfInc.FDone) -> render items "end"
      | Some (items, ZfInc.FBad (p, e)) -> render items (show_err p e)
      | Some (_, ZfInc.FAbort a) -> abort a
      | Some (_, ZfInc.FOutOfFuel) -> "out-of-fuel" in
    let o = match fs rootb with
      | None -> "err=openroot # flat=" ^ flat_verdict flat [] false
      | Some content ->
        (match ZfIncS.full_expand_root fs d rootb content with
         | (items, ZfIncS.GCtx _) -> render items "end"
         | (items, ZfIncS.GBad (p, e)) -> render items (show_err p e)
         | (_, ZfIncS.GAbort a) -> abort a
         | (_, ZfIncS.GFuel) -> "spec-out-of-fuel") in
    m ^ " | " ^ o
  | _ -> failwith "bad case line")
