(* Model-side runner of C05.  Case line (same as harness/src/bin/impl_c05.rs):
     <catalog> <qnamewire> <qtype> <qclass>
   catalog = `-` or `class,namewire,L|N|F[,owner/type/ttl/rdata+...];...` (harness/src/srvcase.rs).
   Prints "<model response> | <specification response>" in the field syntax of srvcase::render
   (rc aa tc AN NS AR).  The model response is the dispatch of handle_query (catalog = the flat
   reference map of the server model, Server.cat_lookup) followed by Query.answer_rec on the tree zone
   built by zone_build; the specification column is ResolveS.resolve on the accepted flat records. *)
open Qvutil
module Z = ZoneTree
module Q = Query
module S = ResolveS

let split c s = if s = "" then [] else String.split_on_char c s
let labels_of_wire h : Z.name = Server.wire_labels (unhex h)
let wire_of_labels (n : Z.name) =
  Stdlib.List.concat (Stdlib.List.map (fun l -> n_of_int (Stdlib.List.length l) :: l) n) @ [n_of_int 0]
let clamp_ttl t = if t > 0x7fffffff then 0 else t          (* Ttl::from in build_catalog *)

type zinfo = { apex : Z.name; cls : BinNums.coq_N; zone : Z.zone option; acc : Z.record list }

let parse_entry i e =
  match split ',' e with
  | cl :: nm :: st :: rest ->
    let cls = n_of_int (int_of_string cl) in
    let apex = labels_of_wire nm in
    let kind = (match st with "N" -> Server.ENotYetLoaded | "F" -> Server.EFailedToLoad
                            | _ -> Server.ELoaded (nat_of_int i)) in
    let entry = { Server.e_class = cls; Server.e_name = Server.lower_labels apex; Server.e_kind = kind } in
    let recs = (match rest with
      | r :: _ when r <> "" ->
        Stdlib.List.map (fun s ->
          match split '/' s with
          | [o; ty; ttl; rd] ->
            { Z.r_owner = labels_of_wire o; r_type = n_of_int (int_of_string ty); r_class = cls;
              r_ttl = n_of_int (clamp_ttl (int_of_string ttl)); r_rdata = unhex rd }
          | _ -> failwith ("bad record " ^ s)) (split '+' r)
      | _ -> []) in
    let info = (match st with
      | "N" | "F" -> None
      | _ -> Some { apex; cls; zone = Z.zone_build Z.req_simple (Z.zone_new apex cls false) recs;
                    acc = ZoneLookupS.accepted apex cls recs }) in
    (entry, info)
  | _ -> failwith "bad catalog entry"

(* HashMap insert: a later entry with an equal (class, name) replaces the earlier one *)
let dedup es =
  let rec go acc = function
    | [] -> Stdlib.List.rev acc
    | ((e, _) as x) :: rest ->
      let same (y, _) = y.Server.e_class = e.Server.e_class && y.Server.e_name = e.Server.e_name in
      go (x :: Stdlib.List.filter (fun y -> not (same y)) acc) rest in
  go [] es

let memo : (string * ((Server.cat_entry * zinfo option) list)) option ref = ref None
let catalog spec =
  match !memo with
  | Some (k, v) when k = spec -> v
  | _ ->
    let v = if spec = "-" then [] else dedup (Stdlib.List.mapi parse_entry (split ';' spec)) in
    memo := Some (spec, v); v

let show_rrs owner_of ty_of cl_of ttl_of rd_of l =
  String.concat "," (Stdlib.List.map (fun r ->
    Printf.sprintf "%s/%d/%d/%d/%s" (hex (wire_of_labels (owner_of r))) (int_of_n (ty_of r)) (int_of_n (cl_of r))
      (int_of_n (ttl_of r)) (hex (rd_of r))) l)

let show_resp rc aa tc an ns ar =
  Printf.sprintf "resp rc=%d aa=%d tc=%d AN=[%s] NS=[%s] AR=[%s]" rc aa tc an ns ar

let show_spec (r : S.sresp) =
  let f = show_rrs (fun x -> x.S.s_owner) (fun x -> x.S.s_type) (fun x -> x.S.s_class) (fun x -> x.S.s_ttl) (fun x -> x.S.s_rdata) in
  show_resp (int_of_n r.S.s_rcode) (if r.S.s_aa then 1 else 0) 0 (f r.S.s_an) (f r.S.s_ns) (f r.S.s_ar)

let show_rec (r : Q.recorder) =
  let f = show_rrs (fun x -> x.Q.q_owner) (fun x -> x.Q.q_type) (fun x -> x.Q.q_class) (fun x -> x.Q.q_ttl) (fun x -> x.Q.q_rdata) in
  show_resp (match r.Q.rc_rcode with Some c -> int_of_n c | None -> 0) (if r.Q.rc_aa then 1 else 0)
    (if r.Q.rc_tc then 1 else 0) (f r.Q.rc_an) (f r.Q.rc_ns) (f r.Q.rc_ar)

let plain rc = show_resp rc 0 0 "" "" ""

let () = run_lines (function
  | [cat; qn; qt; qc] ->
    let entries = catalog cat in
    let qname = labels_of_wire qn in
    let qtype = int_of_string qt and qclass = int_of_string qc in
    if (qtype >= 251 && qtype <= 254) || qclass = 255 then plain 4 ^ " | " ^ plain 4
    else begin
      let flat = Stdlib.List.map fst entries in
      match Server.cat_lookup flat (Server.lower_labels qname) (n_of_int qclass) None with
      | None -> plain 5 ^ " | " ^ plain 5
      | Some e ->
        (match e.Server.e_kind with
         | Server.ELoaded _ ->
           let info = (match Stdlib.List.assq e entries with Some i -> i | None -> failwith "no zone") in
           let m = (match info.zone with
             | None -> "panic"
             | Some z -> (match Q.answer_rec z qname (n_of_int qtype) true with Some r -> show_rec r | None -> "panic")) in
           let s = show_spec (S.resolve Z.req_simple info.apex info.cls info.acc qname (n_of_int qtype)) in
           m ^ " | " ^ s
         | _ -> plain 2 ^ " | " ^ plain 2)
    end
  | _ -> failwith "bad case")
