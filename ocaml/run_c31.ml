(* C31 model-side runner: same case lines as harness/src/bin/impl_c31.rs (which drives the real
   quandaryd).  Prints "<model result> | <oracle result>": the model is Model/Reload.v on the
   catalog of Model/CatTree.v (probe = cat_lookup), the oracle is Spec/ReloadS.v's spec_reload
   applied key by key, probed by a naive longest-suffix search. *)
open Qvutil

let labels_of_text (s : string) : CatTree.cname =
  Stdlib.List.filter_map (fun l ->
      if l = "" then None
      else Some (Stdlib.List.init (String.length l) (fun i -> n_of_int (Char.code l.[i]))))
    (String.split_on_char '.' s)

let text_of_labels (n : CatTree.cname) : string =
  if n = [] then "."
  else String.concat "" (Stdlib.List.map (fun l ->
      String.lowercase_ascii (String.init (Stdlib.List.length l) (fun i -> Char.chr (int_of_n (Stdlib.List.nth l i)))) ^ ".") n)

type zspec = { name : CatTree.cname; cls : BinNums.coq_N; path : BinNums.coq_N; state : string list }

let parse_zone (s : string) : zspec =
  match String.split_on_char '/' s with
  | [n; c; p; st] -> { name = labels_of_text n; cls = n_of_int (int_of_string c); path = n_of_int (int_of_string p);
                       state = String.split_on_char '.' st }
  | _ -> failwith "bad zone"

let mtime_of (z : zspec) : Reload.mt_res = match z.state with
  | ["ok"; _; t] -> Reload.MtOk (n_of_int (int_of_string t))
  | ["bad"; t] -> Reload.MtOk (n_of_int (int_of_string t))
  | _ -> Reload.MtErr
let load_of (z : zspec) : Reload.ld_res = match z.state with
  | ["ok"; s; _] -> Reload.LdOk (n_of_int (int_of_string s))
  | _ -> Reload.LdErr

let input_of (kind : string) (zs : zspec list) : Reload.reload_input =
  let by_path p = Stdlib.List.find_opt (fun z -> z.path = p) zs in
  { Reload.ri_zones = (if kind = "X" then None
                       else Some (Stdlib.List.map (fun z -> { Reload.zc_name = z.name; zc_class = z.cls; zc_path = z.path }) zs));
    ri_mtime = (fun p -> match by_path p with Some z -> mtime_of z | None -> Reload.MtErr);
    ri_load = (fun cfg -> match by_path cfg.Reload.zc_path with Some z -> load_of z | None -> Reload.LdErr) }

let show_model_probe cat (n, c) =
  match CatTree.cat_lookup cat n c with
  | Res.Ok (Some e) ->
    (match e.CatTree.e_val with
     | (Reload.VLoaded z, _) -> Printf.sprintf "%s:%d" (text_of_labels e.CatTree.e_name) (int_of_n z)
     | _ -> "servfail")
  | Res.Ok None -> "refused"
  | _ -> "panic"

(* the specification side: what is held per key, as a function *)
let szone_of (z : zspec) : ReloadS.s_zone =
  { ReloadS.sz_key = (z.cls, CatTreeS.canon z.name); sz_path = z.path;
    sz_mtime = (match mtime_of z with Reload.MtOk t -> ReloadS.SmOk t | Reload.MtUnsupported -> ReloadS.SmUnsupported
                                    | Reload.MtErr -> ReloadS.SmErr);
    sz_load = (match load_of z with Reload.LdOk s -> Some s | Reload.LdErr -> None) }

let rec suffixes l = match l with [] -> [[]] | _ :: t -> l :: suffixes t

let show_spec_probe (held : CatTreeS.skey -> ReloadS.served) (n, c) =
  let q = CatTreeS.canon n in
  let rec go = function
    | [] -> "refused"
    | s :: rest ->
      (match held (c, s) with
       | ReloadS.SGone -> go rest
       | ReloadS.SUnserved -> "servfail"
       | ReloadS.SLoaded (z, _, _) -> Printf.sprintf "%s:%d" (text_of_labels s) (int_of_n z)) in
  go (suffixes q)

(* ---- the key-reload scenario (case line K:<step>;<step>;...).  There is no Coq model of the key map: the line
   is decided against this STATED expectation, the obvious function of the history: the key set in force after a
   step is exactly the step's list (a rejected step, prefix '!', leaves it as it was); a request signed with
   (name, algorithm, secret) is answered iff that name is configured with that algorithm and that secret; a name
   that is not configured, or configured with another algorithm, is BADKEY; the right algorithm with another
   secret is BADSIG; an unsigned request is always answered.  Variants: a = (sha256, secret A), b = (sha1, secret A),
   c = (sha256, secret B). *)
let key_names = ["k1"; "k2"; "k3"]
let variants = ['a'; 'b'; 'c']
let alg_of v = if v = 'b' then 1 else 256
let secret_of v = if v = 'c' then 'B' else 'A'

let keys_expected (case : string) : string =
  let steps = String.split_on_char ';' (String.sub case 2 (String.length case - 2)) in
  let parse step =
    if step = "-" then []
    else Stdlib.List.map (fun k -> match String.split_on_char '.' k with
        | [n; v] when String.length v = 1 -> (String.lowercase_ascii n, v.[0])
        | _ -> failwith "bad key") (String.split_on_char ',' step) in
  let (_, outs) = Stdlib.List.fold_left (fun (cur, acc) step ->
      let rejected = String.length step > 0 && step.[0] = '!' in
      let cur' = if rejected then cur else parse step in
      let probe n v = match Stdlib.List.assoc_opt n cur' with
        | None -> "badkey"
        | Some w when w = v -> "ok"
        | Some w when alg_of w <> alg_of v -> "badkey"
        | Some w when secret_of w <> secret_of v -> "badsig"
        | Some _ -> "ok" in
      let rs = Stdlib.List.concat_map (fun n ->
          Stdlib.List.map (fun v -> Printf.sprintf "%s%c=%s" n v (probe n v)) variants) key_names in
      (cur', ("[" ^ String.concat "," (rs @ ["plain=ok"]) ^ "]") :: acc)) ([], []) steps in
  String.concat " " ("ok" :: Stdlib.List.rev outs)

let () = run_lines (fun f ->
  match f with
  | [k] when String.length k > 2 && String.sub k 0 2 = "K:" ->
    let e = keys_expected k in e ^ " | " ^ e
  | pf :: steps ->
    let probes = Stdlib.List.map (fun p -> match String.split_on_char '/' p with
        | [n; c] -> (labels_of_text n, n_of_int (int_of_string c)) | _ -> failwith "probe")
        (String.split_on_char ',' (String.sub pf 2 (String.length pf - 2))) in
    let parsed = Stdlib.List.map (fun s ->
        ((* R: a configuration like S; only the runner treats it differently (no new sentinel, barrier) *)
         (if String.sub s 0 1 = "R" then "S" else String.sub s 0 1), Stdlib.List.map parse_zone (String.split_on_char ';' (String.sub s 2 (String.length s - 2))))) steps in
    (* model *)
    let model =
      try
        let (_, outs) = Stdlib.List.fold_left (fun (cur, acc) (kind, zs) ->
            let inp = input_of kind zs in
            let r = match cur with
              | None -> (match inp.Reload.ri_zones with
                  | Some zones -> Reload.daemon_start_gen true inp zones
                  | None -> failwith "first step must be a configuration")
              | Some c -> Reload.reload_step_gen true c inp in
            match r with
            | Res.Ok c -> (Some c, ("[" ^ String.concat "," (Stdlib.List.map (show_model_probe c) probes) ^ "]") :: acc)
            | _ -> raise Exit) (None, []) parsed in
        String.concat " " ("ok" :: Stdlib.List.rev outs)
      with Exit -> "panic" in
    (* oracle: D and X steps are configurations the daemon must reject: nothing changes *)
    let (_, outs) = Stdlib.List.fold_left (fun (held, acc) (kind, zs) ->
        let held' = if kind = "S" then ReloadS.spec_reload (Stdlib.List.map szone_of zs) held else held in
        (* memoise per key lazily is unnecessary: histories are short *)
        (held', ("[" ^ String.concat "," (Stdlib.List.map (show_spec_probe held') probes) ^ "]") :: acc))
        ((fun _ -> ReloadS.SGone), []) parsed in
    model ^ " | " ^ String.concat " " ("ok" :: Stdlib.List.rev outs)
  | _ -> failwith "bad case line")
