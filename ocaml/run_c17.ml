(* C17 model-side runner: same case lines as harness/src/bin/impl_c17.rs.
   Prints "<model result> | <spec-oracle result>".
     d <kind> <v>      display + parse back           kind = t | c | qt | qc
     p <kind> <hex>    parse a text (UTF-8 octets)
     n <hex>           u16::from_str
     o <v> / r <v>     Opcode / Rcode ::try_from(v as u8)
     x <v>             ExtendedRcode::from(v as u16) and Rcode::try_from of it *)
open Qvutil

let show_parse (r : (CodeText.code_err, BinNums.coq_N) Res.res) sep = match r with
  | Res.Ok v -> Printf.sprintf "ok%s%d" sep (int_of_n v)
  | Res.Err CodeText.UnknownCode -> Printf.sprintf "err%sunknown" sep
  | Res.Err CodeText.BadNumber -> Printf.sprintf "err%sbadnum" sep
  | Res.Panic -> "panic"

let from_str = function
  | "t" -> CodeText.type_from_str | "c" -> CodeText.class_from_str
  | "qt" -> CodeText.qtype_from_str | "qc" -> CodeText.qclass_from_str
  | _ -> failwith "kind"
let to_string = function
  | "t" -> CodeText.type_to_string | "c" -> CodeText.class_to_string
  | "qt" -> CodeText.qtype_to_string | "qc" -> CodeText.qclass_to_string
  | _ -> failwith "kind"
let spec = function
  | "t" -> CodeTextS.spec_type | "c" -> CodeTextS.spec_class
  | "qt" -> CodeTextS.spec_qtype | "qc" -> CodeTextS.spec_qclass
  | _ -> failwith "kind"
let spec_texts = function
  | "t" -> CodeTextS.spec_type_texts | "c" -> CodeTextS.spec_class_texts
  | "qt" -> CodeTextS.spec_qtype_texts | "qc" -> CodeTextS.spec_qclass_texts
  | _ -> failwith "kind"

let () = run_lines (fun f ->
  match f with
  | ["d"; k; v] ->
    let v = n_of_int (int_of_string v) in
    let s = to_string k v in
    Printf.sprintf "ok %s back=%s | %d %s" (hex s) (show_parse (from_str k s) ":")
      (int_of_n v) (String.concat "," (Stdlib.List.map hex (spec_texts k v)))
  | ["p"; k; hx] ->
    let s = unhex hx in
    let o = match spec k false s, spec k true s with
      | Some v, _ -> Printf.sprintf "ok %d" (int_of_n v)
      | None, None -> "reject"
      | None, Some _ -> "-" in
    show_parse (from_str k s) " " ^ " | " ^ o
  | ["n"; hx] ->
    let s = unhex hx in
    (match DecU16.u16_from_str s with
     | Res.Ok v -> Printf.sprintf "ok %d" (int_of_n v)
     | Res.Err DecU16.IntEmpty -> "err Empty"
     | Res.Err DecU16.IntInvalidDigit -> "err InvalidDigit"
     | Res.Err DecU16.IntPosOverflow -> "err PosOverflow"
     | Res.Panic -> "panic")
    ^ " | " ^ (match CodeTextS.spec_number false s, CodeTextS.spec_number true s with
        | Some v, _ -> Printf.sprintf "ok %d" (int_of_n v)
        | None, None -> "reject"
        | None, Some _ -> "-")
  | [("o" | "r") as op; v] ->
    let vi = int_of_string v in
    let v = n_of_int vi in
    let (tf, ts) = if op = "o" then (CodeText.opcode_try_from, CodeText.opcode_to_string)
      else (CodeText.rcode_try_from, CodeText.rcode_to_string) in
    (match tf v with
     | Res.Ok c ->
       Printf.sprintf "ok %d %s%s" (int_of_n c) (hex (ts c))
         (if op = "r" then Printf.sprintf " ext=%d" (int_of_n (CodeText.ercode_from_rcode c)) else "")
     | Res.Err () -> "err"
     | Res.Panic -> "panic")
    ^ " | " ^ (if CodeTextS.spec_is_4bit v then Printf.sprintf "ok %d" vi else "reject")
  | ["x"; v] ->
    let vi = int_of_string v in
    let e = n_of_int vi in
    Printf.sprintf "ok %s u16=%d rcode=%s" (hex (CodeText.ercode_to_string e)) vi
      (match CodeText.rcode_try_from_ext e with
       | Res.Ok r -> Printf.sprintf "ok:%d:%s" (int_of_n r) (hex (CodeText.rcode_to_string r))
       | Res.Err () -> "err"
       | Res.Panic -> "panic")
    ^ " | " ^ (if CodeTextS.spec_is_4bit e then Printf.sprintf "rcode=ok:%d" vi else "rcode=err")
  | _ -> failwith "bad case line")
