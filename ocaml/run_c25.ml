(* C25 model-side runner: same case lines as harness/src/bin/impl_c25.rs.
   The generated tree becomes the model's file system (paths looked up after lexical
   resolution of `.`/`..`: OS path semantics are trusted); lines are tokenised at blanks into
   ZfMini.mline.  Prints "<stack machine result> | <structural expand result>". *)
open Qvutil

let bytes_of_string (s : string) = Stdlib.List.init (String.length s) (fun i -> n_of_int (Char.code s.[i]))
let string_of_bytes (b : BinNums.coq_N list) = String.concat "" (Stdlib.List.map (fun x -> String.make 1 (Char.chr (int_of_n x))) b)

let normalise (p : string) : string =
  let parts = String.split_on_char '/' p in
  let rec go acc = function
    | [] -> Stdlib.List.rev acc
    | ("" | ".") :: r -> go acc r
    | ".." :: r -> (match acc with _ :: a -> go a r | [] -> go [".."] r)
    | x :: r -> go (x :: acc) r in
  String.concat "/" (go [] parts)

let tokenise (line : string) : ZfMini.mline =
  let toks = Stdlib.List.filter (fun s -> s <> "") (String.split_on_char ' ' line) in
  if toks = [] then ZfMini.MBlank
  else if line.[0] = '$' then
    (match toks with
     | ["$ORIGIN"; o] -> ZfMini.MOrigin (bytes_of_string o)
     | ["$INCLUDE"; p] -> ZfMini.MInclude (bytes_of_string p, None)
     | ["$INCLUDE"; p; o] -> ZfMini.MInclude (bytes_of_string p, Some (bytes_of_string o))
     | _ -> ZfMini.MBad)
  else begin
    let addr a = Stdlib.List.map (fun x -> n_of_int (int_of_string x)) (String.split_on_char '.' a) in
    match (line.[0] = ' '), toks with
    | true, [ttl; "IN"; "A"; a] -> ZfMini.MRec (None, n_of_int (int_of_string ttl), addr a)
    | false, [o; ttl; "IN"; "A"; a] -> ZfMini.MRec (Some (bytes_of_string o), n_of_int (int_of_string ttl), addr a)
    | _ -> ZfMini.MBad
  end

let show_item (((p, n), ((owner, ttl), a)) : ((BinNums.coq_N list * Datatypes.nat) * ((BinNums.coq_N list * BinNums.coq_N) * BinNums.coq_N list))) =
  Printf.sprintf "%s:%d:%s:%d:%s" (string_of_bytes p) (int_of_nat n) (string_of_bytes owner) (int_of_n ttl)
    (String.concat "." (Stdlib.List.map (fun x -> string_of_int (int_of_n x)) a))

let show_err (p, e) = match e with
  | ZfFs.ESyntax _ -> Printf.sprintf " err=syntax:%s" (string_of_bytes p)
  | ZfFs.EOpen (n, np) -> Printf.sprintf " err=open:%s:%d:%s" (string_of_bytes p) (int_of_nat n) (string_of_bytes np)
  | ZfFs.ETooDeep (n, chain) ->
    Printf.sprintf " err=toodeep:%s:%d:%s" (string_of_bytes p) (int_of_nat n)
      (String.concat ">" (Stdlib.List.map (fun (cp, k) -> Printf.sprintf "%s@%d" (string_of_bytes cp) (int_of_nat k)) chain))

let show items tail =
  "rec=" ^ (if items = [] then "-" else String.concat ";" (Stdlib.List.map show_item items)) ^ tail

let () = run_lines (fun f ->
  match f with
  | ["inc"; depth; root; enc] ->
    let tbl = Hashtbl.create 8 in
    Stdlib.List.iter (fun file ->
        let i = String.index file '=' in
        let p = String.sub file 0 i and body = String.sub file (i + 1) (String.length file - i - 1) in
        let lines = String.split_on_char '|' body in
        let lines = Stdlib.List.mapi (fun k l ->
            (nat_of_int (k + 1), tokenise (String.map (fun c -> if c = '~' then ' ' else c) l))) lines in
        Hashtbl.replace tbl (normalise p) lines) (String.split_on_char ';' enc);
    let fs (p : BinNums.coq_N list) = Hashtbl.find_opt tbl (normalise (string_of_bytes p)) in
    let d = nat_of_int (int_of_string depth) in
    let rootb = bytes_of_string root in
    let m = match ZfMini.mini_run fs d (nat_of_int 200000) rootb with
      | Res.Ok (items, None) -> show items " end"
      | Res.Ok (items, Some e) -> show items (show_err e)
      | Res.Err _ -> "out-of-fuel"
      | Res.Panic -> "panic" in
    let o = match fs rootb with
      | None -> "rec=- err=open"
      | Some t ->
        (match ZfFsS.expand ZfMini.mini_pline fs d [] rootb ZfMini.mini_ctx0 t with
         | (items, ZfFsS.OCtx _) -> show items " end"
         | (items, ZfFsS.OBad (p, e)) -> show items (show_err (p, e))
         | (_, ZfFsS.OPanic) -> "panic") in
    m ^ " | " ^ o
  | _ -> failwith "bad case line")
