// Detects optional verification hooks in the quandary tree this harness is built
// against, so that a runner needing a hook still compiles (and reports `nohooks`)
// when the tree does not have it yet.
use std::{env, fs, path::Path};

fn main() {
    let dir = env::var("CARGO_MANIFEST_DIR").unwrap();
    let manifest = fs::read_to_string(Path::new(&dir).join("Cargo.toml")).unwrap_or_default();
    let mut repo = String::from("/repo");
    for line in manifest.lines() {
        if line.trim_start().starts_with("quandary") {
            if let Some(i) = line.find("path = \"") {
                let rest = &line[i + 8..];
                if let Some(j) = rest.find('"') {
                    repo = rest[..j].to_string();
                }
            }
        }
    }
    let thread_rs = Path::new(&repo).join("src/thread.rs");
    println!("cargo:rerun-if-changed={}", thread_rs.display());
    println!("cargo:rerun-if-changed=Cargo.toml");
    // tools/qv.py builds a patched copy of this package (same name, other dependency
    // path) into the same target directory when QV_REPO is set
    println!("cargo:rerun-if-env-changed=QV_REPO");
    println!("cargo:rustc-check-cfg=cfg(has_pool_hooks)");
    let src = fs::read_to_string(&thread_rs).unwrap_or_default();
    if src.contains("pub mod verif") && src.contains("pub fn arm(") {
        println!("cargo:rustc-cfg=has_pool_hooks");
    }
}
