//! C26: the RRL token bucket over time, through `Server::handle_message`.
//! Case: `<noerror_rate> <nxdomain_rate> <error_rate> <window> <slip> <size> <kind> <edns> <gaps>`
//!   kind  one response stream (see rrl_common::query); all requests of a case are identical
//!   gaps  comma-separated idle times in nanoseconds; gap i is applied (through the
//!         `Server::verif_rrl_age` hook) immediately before request i
//! Mixed-traffic cases (8 fields): `<ne> <nx> <er> <window> <slip> <size> <edns> <kind:tr:gap,...>`
//!   every request has its own kind and transport (u|t); gaps are whole seconds here.
//! Output: `ok <one letter per request>`: S sent, T slipped (TC set, no records but OPT),
//! D dropped; with slip >= 2 a limited response is printed as L whether it was slipped or
//! dropped (the choice is random). `err <RrlParamError>` when the parameters are rejected,
//! `nohook` when the tree has no verif_rrl_age, `timing` when the host was too slow for the
//! request times to be the intended ones (see REAL_TIME_MARGIN).
#[path = "rrl_common/mod.rs"]
mod rrl_common;
use qv_harness::*;
use rrl_common::*;
use std::net::{IpAddr, Ipv4Addr};
use std::sync::atomic::Ordering;
use std::time::{Duration, Instant};

use quandary::server::{Server, Transport};

/// The generator keeps the fractional part of every cumulative gap below 0.1 s, so
/// the whole-second counts the limiter sees are the intended ones as long as a case
/// takes less real time than this.
const REAL_TIME_MARGIN: Duration = Duration::from_millis(800);

fn main() {
    let cat = catalog();
    let mut buf = vec![0u8; 65535];
    run_lines(|f| {
        let n = |i: usize| -> u64 { f[i].parse().unwrap() };
        let slip = n(4) as usize;
        let mixed = f.len() == 8;
        let edns = f[if mixed { 6 } else { 7 }] == "1";
        // (kind, transport, gap) per request
        let reqs: Vec<(&str, Transport, u128)> = if mixed {
            f[7].split(',')
                .map(|r| {
                    let x: Vec<&str> = r.split(':').collect();
                    (x[0], if x[1] == "t" { Transport::Tcp } else { Transport::Udp }, x[2].parse().unwrap())
                })
                .collect()
        } else if f[8] == "-" {
            vec![]
        } else {
            f[8].split(',').map(|g| (f[6], Transport::Udp, g.parse().unwrap())).collect()
        };
        for _attempt in 0..20 {
            let p = match params(n(0) as u32, n(1) as u32, n(2) as u32, n(3) as u32, slip, n(5) as usize, 24, 56) {
                Ok(p) => p,
                Err(e) => return format!("err {e}"),
            };
            let mut server = Server::new(cat.clone());
            server.set_rrl_params(Some(p));
            let src = IpAddr::V4(Ipv4Addr::new(192, 0, 2, 77));
            let mut out = String::from("ok ");
            let mut start = None;
            for (kind, tr, g) in &reqs {
                let q = query(kind, edns, 0x1234);
                if *g > 0 {
                    let d = Duration::new((*g / 1_000_000_000) as u64, (*g % 1_000_000_000) as u32);
                    server.verif_rrl_age(d);
                    if HOOK_MISSING.load(Ordering::SeqCst) {
                        return "nohook".to_string();
                    }
                }
                if start.is_none() {
                    start = Some(Instant::now());
                }
                let r = send(&server, &q, src, *tr, &mut buf);
                let c = classify(&r, &buf, edns || forces_edns(kind));
                let c = match c.as_str() {
                    "-" if kind.starts_with('m') => "-".to_string(), // no response before RRL
                    "-" if slip >= 2 => "L".to_string(),
                    "T" if slip >= 2 => "L".to_string(),
                    "-" => "D".to_string(),
                    _ => c,
                };
                out.push_str(&c);
            }
            if start.map_or(true, |s| s.elapsed() < REAL_TIME_MARGIN) {
                return out;
            }
        }
        "timing".to_string()
    });
}
