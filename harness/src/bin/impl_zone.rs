//! Zone store (C06 lookups: op L, C20 add/iteration: op H) on the real crate.
//! Case lines and output format: see ocaml/run_zone.ml.
use quandary::class::Class;
use quandary::db::zone::{
    ValidationIssue,
    GluePolicy, IteratedRrset, LookupAddrsResult, LookupAllResult, LookupOptions, LookupResult,
    SingleRrset,
};
use quandary::db::{HashMapTreeZone, Zone};
use quandary::name::Name;
use quandary::rr::{Rdata, RdataSet, RdataSetOwned, Ttl, Type};
use qv_harness::*;
use std::borrow::Cow;

fn parse_name(s: &str) -> Box<Name> {
    let mut wire = Vec::new();
    if s != "@" {
        for l in s.split('.') {
            let b = unhex(l);
            wire.push(b.len() as u8);
            wire.extend_from_slice(&b);
        }
    }
    wire.push(0);
    Name::try_from_uncompressed_all(&wire).expect("generator produced an invalid name")
}

fn show_lower(n: &Name) -> String {
    let labels: Vec<String> = n
        .labels()
        .filter(|l| !l.is_null())
        .map(|l| hex(&l.octets().to_ascii_lowercase()))
        .collect();
    if labels.is_empty() {
        "~@".to_string()
    } else {
        format!("~{}", labels.join("."))
    }
}

fn show_name(n: &Name) -> String {
    let labels: Vec<String> = n.labels().filter(|l| !l.is_null()).map(|l| hex(l.octets())).collect();
    if labels.is_empty() {
        "~@".to_string()
    } else {
        format!("~{}", labels.join("."))
    }
}

struct Rec {
    owner: Box<Name>,
    ty: Type,
    class: Class,
    ttl: Ttl,
    rdata: Vec<u8>,
}

fn parse_records(s: &str) -> Vec<Rec> {
    if s == "-" {
        return Vec::new();
    }
    s.split(';')
        .map(|r| {
            let f: Vec<&str> = r.split(',').collect();
            assert!(f.len() == 5, "bad record");
            Rec {
                owner: parse_name(f[0]),
                ty: Type::from(f[1].parse::<u16>().unwrap()),
                class: Class::from(f[2].parse::<u16>().unwrap()),
                ttl: Ttl::from(f[3].parse::<u32>().unwrap()),
                rdata: unhex(f[4]),
            }
        })
        .collect()
}

fn show_rdatas(s: &RdataSet) -> String {
    s.iter().map(|r| hex(r.octets())).collect::<Vec<_>>().join("+")
}
fn show_single(r: &SingleRrset) -> String {
    format!("{}:{}", u32::from(r.ttl), show_rdatas(&r.rdatas))
}
fn show_iterated(r: &IteratedRrset) -> String {
    format!("{}={}:{}", u16::from(r.rr_type), u32::from(r.ttl), show_rdatas(&r.rdatas))
}
fn show_sos(s: &Option<Cow<Name>>) -> String {
    match s {
        None => "_".to_string(),
        Some(n) => show_name(n),
    }
}
fn show_opt_single(r: &Option<SingleRrset>) -> String {
    match r {
        None => "_".to_string(),
        Some(r) => show_single(r),
    }
}

fn show_lookup(r: LookupResult) -> String {
    match r {
        LookupResult::Found(f) => format!("F({},{})", show_single(&f.data), show_sos(&f.source_of_synthesis)),
        LookupResult::Cname(c) => format!("C({},{})", show_single(&c.rrset), show_sos(&c.source_of_synthesis)),
        LookupResult::Referral(r) => format!("R({},{})", show_name(&r.child_zone), show_single(&r.ns_rrset)),
        LookupResult::NoRecords(n) => format!("N({})", show_sos(&n.source_of_synthesis)),
        LookupResult::NxDomain => "NX".to_string(),
        LookupResult::WrongZone => "WZ".to_string(),
    }
}
fn show_addrs(r: LookupAddrsResult) -> String {
    match r {
        LookupAddrsResult::Found(f) => format!(
            "F({},{},{})",
            show_opt_single(&f.data.a_rrset),
            show_opt_single(&f.data.aaaa_rrset),
            show_sos(&f.source_of_synthesis)
        ),
        LookupAddrsResult::Cname(c) => format!("C({},{})", show_single(&c.rrset), show_sos(&c.source_of_synthesis)),
        LookupAddrsResult::Referral(r) => format!("R({},{})", show_name(&r.child_zone), show_single(&r.ns_rrset)),
        LookupAddrsResult::NxDomain => "NX".to_string(),
        LookupAddrsResult::WrongZone => "WZ".to_string(),
    }
}
fn show_all(r: LookupAllResult) -> String {
    match r {
        LookupAllResult::Found(f) => {
            let sos = show_sos(&f.source_of_synthesis);
            let l: Vec<String> = f.data.map(|r| show_iterated(&r)).collect();
            format!("F([{}],{})", l.join("|"), sos)
        }
        LookupAllResult::Referral(r) => format!("R({},{})", show_name(&r.child_zone), show_single(&r.ns_rrset)),
        LookupAllResult::NxDomain => "NX".to_string(),
        LookupAllResult::WrongZone => "WZ".to_string(),
    }
}

fn seg(f: impl FnOnce() -> String) -> String {
    guarded(f).unwrap_or_else(|| "panic".to_string())
}

fn show_state(z: &HashMapTreeZone) -> String {
    let mut nodes: Vec<String> = z
        .iter_by_node()
        .map(|(n, it)| {
            let l: Vec<String> = it.map(|r| show_iterated(&r)).collect();
            format!("{}[{}]", show_name(n), l.join("|"))
        })
        .collect();
    nodes.sort();
    let mut rrs: Vec<String> =
        z.iter_by_rrset().map(|(n, r)| format!("{}:{}", show_name(n), show_iterated(&r))).collect();
    rrs.sort();
    format!(
        "N{{{}}} R{{{}}} S{} T{}",
        nodes.join(";"),
        rrs.join(";"),
        show_opt_single(&z.soa()),
        show_opt_single(&z.ns())
    )
}

fn main() {
    let mut memo: Option<(String, Option<HashMapTreeZone>)> = None;
    run_lines(|f| match f[0] {
        "L" => {
            let key = format!("{} {} {}", f[1], f[2], f[3]);
            if memo.as_ref().map(|m| m.0 != key).unwrap_or(true) {
                let apex = parse_name(f[1]);
                let class = Class::from(f[2].parse::<u16>().unwrap());
                let recs = parse_records(f[3]);
                let z = guarded(|| {
                    let mut z = HashMapTreeZone::new(apex, class, GluePolicy::Narrow);
                    for r in &recs {
                        let rd: &Rdata = (&r.rdata[..]).try_into().unwrap();
                        let _ = z.add(&r.owner, r.ty, r.class, r.ttl, rd);
                    }
                    z
                });
                memo = Some((key, z));
            }
            let z = match &memo.as_ref().unwrap().1 {
                Some(z) => z,
                None => return "panic-in-build".to_string(),
            };
            let qn = parse_name(f[4]);
            let qtys: Vec<Type> = f[5].split(',').map(|s| Type::from(s.parse::<u16>().unwrap())).collect();
            let mut out = Vec::new();
            for (u, s) in [(false, false), (false, true), (true, false), (true, true)] {
                let o = || LookupOptions { unchecked: u, search_below_cuts: s };
                for &ty in &qtys {
                    out.push(seg(|| show_lookup(z.lookup(&qn, ty, o()))));
                }
                out.push(seg(|| show_addrs(z.lookup_addrs(&qn, o()))));
                out.push(seg(|| show_all(z.lookup_all(&qn, o()))));
            }
            out.join(" / ")
        }
        "H" => {
            let apex = parse_name(f[1]);
            let class = Class::from(f[2].parse::<u16>().unwrap());
            let recs = parse_records(f[3]);
            let mut z = HashMapTreeZone::new(apex, class, GluePolicy::Narrow);
            let mut out = vec![format!("new {}", show_state(&z))];
            for r in &recs {
                let rd: &Rdata = (&r.rdata[..]).try_into().unwrap();
                let res = guarded(std::panic::AssertUnwindSafe(|| z.add(&r.owner, r.ty, r.class, r.ttl, rd)));
                match res {
                    None => {
                        out.push("panic".to_string());
                        break;
                    }
                    Some(Ok(())) => out.push(format!("ok {}", show_state(&z))),
                    Some(Err(e)) => out.push(format!("err {:?} {}", e, show_state(&z))),
                }
            }
            out.join(" / ")
        }
        "V" => {
            let apex = parse_name(f[1]);
            let class = Class::from(f[2].parse::<u16>().unwrap());
            let policy = if f[3] == "1" { GluePolicy::Wide } else { GluePolicy::Narrow };
            let recs = parse_records(f[4]);
            let mut z = HashMapTreeZone::new(apex, class, policy);
            for r in &recs {
                let rd: &Rdata = (&r.rdata[..]).try_into().unwrap();
                let _ = z.add(&r.owner, r.ty, r.class, r.ttl, rd);
            }
            match z.validate() {
                Err(e) => format!("err {e:?}"),
                Ok(issues) => {
                    let mut l: Vec<String> = issues
                        .iter()
                        .map(|i| {
                            let s = match i {
                                ValidationIssue::MissingApexSoa => "MissingApexSoa".to_string(),
                                ValidationIssue::TooManyApexSoas => "TooManyApexSoas".to_string(),
                                ValidationIssue::MissingApexNs => "MissingApexNs".to_string(),
                                ValidationIssue::MissingNsAddress(n) => format!("MissingNsAddress({})", show_lower(n)),
                                ValidationIssue::MissingMxAddress(n) => format!("MissingMxAddress({})", show_lower(n)),
                                ValidationIssue::MissingGlue(n) => format!("MissingGlue({})", show_lower(n)),
                                ValidationIssue::DuplicateCname(n) => format!("DuplicateCname({})", show_lower(n)),
                                ValidationIssue::OtherRecordsAtCname(n) => format!("OtherRecordsAtCname({})", show_lower(n)),
                                ValidationIssue::NsAtWildcard(n) => format!("NsAtWildcard({})", show_lower(n)),
                            };
                            format!("{}{}", s, if i.is_error() { "!e" } else { "!w" })
                        })
                        .collect();
                    l.sort();
                    l.dedup();
                    // the result is a SET of issues: no two of its elements may compare equal (a Hash that disagrees
                    // with Eq - e.g. a case-sensitive hash of case-insensitively equal names - lets duplicates in)
                    let v: Vec<&ValidationIssue> = issues.iter().collect();
                    if (0..v.len()).any(|i| (i + 1..v.len()).any(|j| v[i] == v[j])) {
                        l.push("~set-holds-two-equal-issues".to_string());
                    }
                    if l.is_empty() { "ok -".to_string() } else { format!("ok {}", l.join(",")) }
                }
            }
        }
        "B" => {
            let class = Class::from(f[1].parse::<u16>().unwrap());
            let ty = Type::from(f[2].parse::<u16>().unwrap());
            let rds: Vec<Vec<u8>> = f[3].split(',').map(unhex).collect();
            let refs: Vec<&Rdata> = rds.iter().map(|r| <&Rdata>::try_from(&r[..]).unwrap()).collect();
            match RdataSetOwned::from_iter(class, ty, refs.iter().copied()) {
                None => "ok none".to_string(),
                Some(s) => format!("ok {}", show_rdatas(&s)),
            }
        }
        _ => panic!("unknown op"),
    });
}
