//! C29: thread pools. Runs one randomized scenario per case line against the real
//! `quandary::thread` (built with `--cfg quandary_verif`, hooks armed) and prints the
//! end-to-end counters plus the recorded linearised event trace; the trace is then
//! validated against the Coq LTS by `ocaml/run_c29.ml`.
//!
//! Case line (14 fields):
//!   nperm linger_us progs task_max_us seed dly(prob,max_us) cs(prob,max_us)
//!   sd_delay_us q_delay_us(-1 = no ThreadPool::shut_down) panic_pct n_awaiters n_gsd aw_delay_us q_mode
//! q_mode: 0 = ThreadPool::shut_down is called by the first shutdown thread before its
//! ThreadGroup::shut_down; 1 = by a thread of its own at q_delay (before, during or after
//! the group's shutdown); 2 = by two threads of their own (the second call finds the pool
//! already removed).
//! progs: comma separated programs of ops `b` (submit) / `s` (submit_or_spawn), each
//! optionally followed by digits = sleep (x100us) after the op.
//!
//! A line `twopool <nperm1> <nperm2> <linger_us> <n_tasks>` runs the two-pool scenario (see `twopool`) instead.
//!
//! Output: `e2e acc=.. ran=.. dup=.. late=.. ghost=.. okafter=.. awaits=.. T ev;ev;...`
//! with ev = tid:kind:note:a:b:c, or `hang ... T ...` if the scenario did not finish.

#[cfg(has_pool_hooks)]
mod real {
    use quandary::thread::{verif, ThreadGroup};
    use std::io::Write;
    use std::sync::atomic::{AtomicBool, AtomicU32, AtomicU64, Ordering};
    use std::sync::{mpsc, Arc, Mutex};
    use std::thread;
    use std::time::{Duration, Instant};

    fn splitmix(x: u64) -> u64 {
        let mut z = x.wrapping_add(0x9E37_79B9_7F4A_7C15);
        z = (z ^ (z >> 30)).wrapping_mul(0xBF58_476D_1CE4_E5B9);
        z = (z ^ (z >> 27)).wrapping_mul(0x94D0_49BB_1331_11EB);
        z ^ (z >> 31)
    }

    struct Rng {
        seed: u64,
        ctr: AtomicU64,
    }
    impl Rng {
        fn next(&self) -> u64 {
            splitmix(self.seed ^ splitmix(self.ctr.fetch_add(1, Ordering::Relaxed)))
        }
    }

    fn pair(s: &str) -> (u64, u64) {
        let mut it = s.split(',');
        (it.next().unwrap().parse().unwrap(), it.next().unwrap().parse().unwrap())
    }

    #[derive(Clone, Copy)]
    struct Op {
        blocking: bool,
        after_100us: u64,
    }

    fn parse_prog(s: &str) -> Vec<Op> {
        let mut v: Vec<Op> = Vec::new();
        for ch in s.chars() {
            match ch {
                'b' => v.push(Op { blocking: true, after_100us: 0 }),
                's' => v.push(Op { blocking: false, after_100us: 0 }),
                d if d.is_ascii_digit() => {
                    let o = v.last_mut().expect("digit before op");
                    o.after_100us = o.after_100us * 10 + d.to_digit(10).unwrap() as u64;
                }
                '-' => {}
                _ => panic!("bad prog char"),
            }
        }
        v
    }

    fn sleep_until(t0: Instant, us: u64) {
        let target = t0 + Duration::from_micros(us);
        let now = Instant::now();
        if target > now {
            thread::sleep(target - now);
        }
    }

    struct Outcome {
        acc: usize,
        ran: usize,
        dup: usize,
        late: usize,
        ghost: usize,
        okafter: usize,
        awaits: usize,
    }

    /// `twopool <nperm1> <nperm2> <linger_us> <n_tasks>`: TWO pools of one group, one after the other (the group's
    /// slab reuses the first pool's key for the second), and a stale handle: pool 1 is shut down, pool 2 is started,
    /// pool 1's `shut_down` is called AGAIN (a no-op on a pool that is gone - it must not touch pool 2), then the group is
    /// shut down: pool 2 must reject further work, every accepted task of both pools must have run when await_shutdown
    /// returns, and await_shutdown must return.
    fn twopool(f: &[String]) -> String {
        let nperm1: usize = f[1].parse().unwrap();
        let nperm2: usize = f[2].parse().unwrap();
        let linger = Duration::from_micros(f[3].parse().unwrap());
        let n_tasks: usize = f[4].parse().unwrap();
        verif::arm(None);
        let group = ThreadGroup::new();
        let ran = Arc::new(AtomicU32::new(0));
        let mut accepted = 0u32;
        let pool1 = group.start_pool(None, nperm1, linger).expect("start_pool 1");
        for _ in 0..n_tasks {
            let r = ran.clone();
            if pool1.submit_or_spawn(move || { r.fetch_add(1, Ordering::SeqCst); }).is_ok() {
                accepted += 1;
            }
        }
        pool1.shut_down();
        let pool2 = group.start_pool(None, nperm2, linger).expect("start_pool 2");
        pool1.shut_down(); // stale handle
        for _ in 0..n_tasks {
            let r = ran.clone();
            if pool2.submit_or_spawn(move || { r.fetch_add(1, Ordering::SeqCst); }).is_ok() {
                accepted += 1;
            } else {
                return "twopool bad the second pool rejects work although neither it nor its group was shut down".to_string();
            }
        }
        group.shut_down();
        let r = ran.clone();
        if pool2.submit_or_spawn(move || { r.fetch_add(1000, Ordering::SeqCst); }).is_ok() {
            return "twopool bad the second pool accepted work after its group's shutdown returned".to_string();
        }
        if !pool2.is_shutting_down() {
            return "twopool bad the group's shutdown did not shut down its second pool".to_string();
        }
        group.await_shutdown();
        let done = ran.load(Ordering::SeqCst);
        if done != accepted {
            return format!("twopool bad accepted={accepted} ran={done} when await_shutdown returned");
        }
        "twopool ok".to_string()
    }

    fn scenario(f: &[String]) -> Outcome {
        let nperm: usize = f[0].parse().unwrap();
        let linger_us: u64 = f[1].parse().unwrap();
        let progs: Vec<Vec<Op>> = f[2].split(',').map(parse_prog).collect();
        let task_max_us: u64 = f[3].parse().unwrap();
        let seed: u64 = f[4].parse().unwrap();
        let dly = pair(&f[5]);
        let cs = pair(&f[6]);
        let sd_delay: u64 = f[7].parse().unwrap();
        let q_delay: i64 = f[8].parse().unwrap();
        let panic_pct: u64 = f[9].parse().unwrap();
        let n_aw: usize = f[10].parse().unwrap();
        let n_gsd: usize = f[11].parse().unwrap();
        let aw_delay: u64 = f[12].parse().unwrap();
        let q_mode: u64 = if q_delay >= 0 { f[13].parse().unwrap() } else { 0 };

        let rng = Arc::new(Rng { seed, ctr: AtomicU64::new(0) });
        let rng_s = rng.clone();
        let sched: verif::Sched = Arc::new(move |point: &'static str| {
            let (prob, max) = match point {
                "sub_cs" | "sos_cs" | "sd_mid" => cs,
                _ => dly,
            };
            let r = rng_s.next();
            if r % 100 < prob {
                thread::sleep(Duration::from_micros((r >> 8) % (max + 1)));
            }
        });

        verif::set_tid(u64::MAX - 1); // the main thread: its start_pool events are dropped below
        verif::arm(Some(sched));
        let group = ThreadGroup::new();
        let pool = group
            .start_pool(None, nperm, Duration::from_micros(linger_us))
            .expect("start_pool");

        let total: usize = progs.iter().map(|p| p.len()).sum();
        let ran: Arc<Vec<AtomicU32>> = Arc::new((0..total).map(|_| AtomicU32::new(0)).collect());
        let accepted: Arc<Vec<AtomicBool>> = Arc::new((0..total).map(|_| AtomicBool::new(false)).collect());
        let okafter = Arc::new(AtomicU32::new(0));
        let pool_down = Arc::new(AtomicBool::new(false));
        let snaps: Arc<Mutex<Vec<Vec<u32>>>> = Arc::new(Mutex::new(Vec::new()));
        let t0 = Instant::now();
        let mut joins = Vec::new();

        // thread ids in the order the model lays its threads out, all allocated before
        // any thread can spawn (and number) an auxiliary worker
        let sub_tids: Vec<u64> = progs.iter().map(|_| verif::fresh_tid()).collect();
        let q_tid = if q_delay >= 0 { Some(verif::fresh_tid()) } else { None };
        let q2_tid = if q_delay >= 0 && q_mode == 2 { Some(verif::fresh_tid()) } else { None };
        let g_tids: Vec<u64> = (0..n_gsd).map(|_| verif::fresh_tid()).collect();
        let aw_tids: Vec<u64> = (0..n_aw).map(|_| verif::fresh_tid()).collect();
        let mut base = 0usize;
        for (prog, &tid) in progs.iter().zip(sub_tids.iter()) {
            let prog = prog.clone();
            let (pool, ran, accepted, okafter, pool_down, rng) =
                (pool.clone(), ran.clone(), accepted.clone(), okafter.clone(), pool_down.clone(), rng.clone());
            let first = base;
            base += prog.len();
            joins.push(thread::spawn(move || {
                verif::set_tid(tid);
                for (j, op) in prog.iter().enumerate() {
                    let idx = first + j;
                    let r = rng.next();
                    let dur = if task_max_us == 0 { 0 } else { r % (task_max_us + 1) };
                    let pan = (r >> 32) % 100 < panic_pct;
                    let ran2 = ran.clone();
                    let task = move || {
                        if dur > 0 {
                            thread::sleep(Duration::from_micros(dur));
                        }
                        ran2[idx].fetch_add(1, Ordering::SeqCst);
                        if pan {
                            panic!("task panics");
                        }
                    };
                    let down_before = pool_down.load(Ordering::SeqCst);
                    let res = if op.blocking { pool.submit(task) } else { pool.submit_or_spawn(task) };
                    if res.is_ok() {
                        accepted[idx].store(true, Ordering::SeqCst);
                        if down_before {
                            okafter.fetch_add(1, Ordering::SeqCst);
                        }
                    }
                    if op.after_100us > 0 {
                        thread::sleep(Duration::from_micros(op.after_100us * 100));
                    }
                }
            }));
        }
        // shutdown thread: optional ThreadPool::shut_down first, then ThreadGroup::shut_down
        let first_sd = Arc::new(AtomicBool::new(false));
        {
            let (group, pool, pool_down, first_sd) = (group.clone(), pool.clone(), pool_down.clone(), first_sd.clone());
            let g0 = g_tids[0];
            let q_tid = if q_mode == 0 { q_tid } else { None };
            joins.push(thread::spawn(move || {
                if let Some(q) = q_tid {
                    sleep_until(t0, q_delay as u64);
                    verif::set_tid(q);
                    pool.shut_down();
                    pool_down.store(true, Ordering::SeqCst);
                }
                sleep_until(t0, sd_delay);
                verif::set_tid(g0);
                first_sd.store(true, Ordering::SeqCst);
                group.shut_down();
                pool_down.store(true, Ordering::SeqCst);
            }));
        }
        if q_mode != 0 {
            for (n, q) in [q_tid, q2_tid].into_iter().flatten().enumerate() {
                let (pool, pool_down) = (pool.clone(), pool_down.clone());
                joins.push(thread::spawn(move || {
                    sleep_until(t0, q_delay as u64 + 100 * n as u64);
                    verif::set_tid(q);
                    pool.shut_down();
                    pool_down.store(true, Ordering::SeqCst);
                }));
            }
        }
        for (n, &g) in g_tids.iter().enumerate().skip(1) {
            let (group, first_sd) = (group.clone(), first_sd.clone());
            joins.push(thread::spawn(move || {
                // never before ThreadPool::shut_down (if any) is over: it panics on a pool
                // that the group has already drained
                sleep_until(t0, sd_delay + 50 * n as u64);
                while !first_sd.load(Ordering::SeqCst) {
                    thread::sleep(Duration::from_micros(50));
                }
                verif::set_tid(g);
                group.shut_down();
            }));
        }
        for &a in aw_tids.iter() {
            let (group, ran, snaps) = (group.clone(), ran.clone(), snaps.clone());
            joins.push(thread::spawn(move || {
                sleep_until(t0, aw_delay);
                verif::set_tid(a);
                group.await_shutdown();
                let snap: Vec<u32> = ran.iter().map(|c| c.load(Ordering::SeqCst)).collect();
                snaps.lock().unwrap().push(snap);
            }));
        }
        for j in joins {
            let _ = j.join();
        }
        let snaps = snaps.lock().unwrap();
        let mut o = Outcome { acc: 0, ran: 0, dup: 0, late: 0, ghost: 0, okafter: okafter.load(Ordering::SeqCst) as usize, awaits: snaps.len() };
        for idx in 0..total {
            let n = ran[idx].load(Ordering::SeqCst);
            let a = accepted[idx].load(Ordering::SeqCst);
            if a {
                o.acc += 1;
                if snaps.iter().any(|s| s[idx] == 0) {
                    o.late += 1;
                }
            } else if n > 0 {
                o.ghost += 1;
            }
            if n >= 1 {
                o.ran += 1;
            }
            if n > 1 {
                o.dup += 1;
            }
        }
        o
    }

    /// Turns the raw hook log into one event per model step (see Model/PoolTrace.v):
    /// drops the start_pool events of the main thread, folds `spawn`+`spawn_failed`,
    /// and `rspawn`[+`rspawn_failed`]+`r_end` of a handle drop into one event placed
    /// where the thread was counted (no other group event can lie in between).
    fn render(log: &[verif::Event]) -> String {
        let main = u64::MAX - 1;
        let n = log.len();
        let mut kind: Vec<Option<String>> = log.iter().map(|e| Some(e.kind.to_string())).collect();
        let mut a: Vec<u64> = log.iter().map(|e| e.a).collect();
        let mut b: Vec<u64> = log.iter().map(|e| e.b).collect();
        for i in 0..n {
            let e = &log[i];
            if e.tid == main {
                kind[i] = None;
                continue;
            }
            match e.kind {
                "spawn_failed" => {
                    if let Some(j) = (0..i).rev().find(|&j| log[j].kind == "spawn" && log[j].c == e.c) {
                        kind[j] = Some("spawn_fail".into());
                        a[j] = e.a;
                        b[j] = e.b;
                        kind[i] = None;
                    }
                }
                "r_end" => {
                    // previous events of the same thread
                    let mut prev = (0..i).rev().filter(|&j| log[j].tid == e.tid && kind[j].is_some());
                    let p1 = prev.next();
                    let p2 = prev.next();
                    let is = |j: Option<usize>, k: &str| j.map(|j| log[j].kind == k).unwrap_or(false);
                    if is(p1, "rspawn") {
                        let j = p1.unwrap();
                        kind[j] = Some("respawn_end".into());
                        a[j] = e.a;
                        b[j] = e.b;
                        kind[i] = None;
                    } else if is(p1, "rspawn_failed") && is(p2, "rspawn") {
                        let j = p2.unwrap();
                        kind[j] = Some("respawn_fail_end".into());
                        a[j] = e.a;
                        b[j] = e.b;
                        kind[p1.unwrap()] = None;
                        kind[i] = None;
                    } else {
                        kind[i] = Some("end".into());
                    }
                }
                _ => {}
            }
        }
        let mut out = String::new();
        for i in 0..n {
            if let Some(k) = &kind[i] {
                if !out.is_empty() {
                    out.push(';');
                }
                out.push_str(&format!("{}:{}:{}:{}:{}:{}", log[i].tid, k, log[i].note, a[i], b[i], log[i].c));
            }
        }
        if out.is_empty() {
            out.push('-');
        }
        out
    }

    pub fn main() {
        qv_harness::quiet_panics();
        let stdin = std::io::stdin();
        let mut line = String::new();
        loop {
            line.clear();
            if stdin.read_line(&mut line).unwrap() == 0 {
                break;
            }
            let t = line.trim();
            if t.is_empty() || t.starts_with('#') {
                continue;
            }
            let fields: Vec<String> = t.split_whitespace().map(|s| s.to_string()).collect();
            if fields[0] == "twopool" {
                let (tx, rx) = mpsc::channel();
                thread::spawn(move || {
                    let r = std::panic::catch_unwind(std::panic::AssertUnwindSafe(|| twopool(&fields)));
                    let _ = tx.send(r.ok());
                });
                let stdout = std::io::stdout();
                let mut out = stdout.lock();
                match rx.recv_timeout(Duration::from_secs(8)) {
                    Ok(Some(o)) => {
                        let _ = verif::disarm();
                        writeln!(out, "{o}").unwrap();
                    }
                    Ok(None) => {
                        let _ = verif::disarm();
                        writeln!(out, "panic").unwrap();
                    }
                    Err(_) => {
                        writeln!(out, "hang").unwrap();
                        out.flush().unwrap();
                        std::process::exit(3);
                    }
                }
                out.flush().unwrap();
                continue;
            }
            let (tx, rx) = mpsc::channel();
            thread::spawn(move || {
                let r = std::panic::catch_unwind(std::panic::AssertUnwindSafe(|| scenario(&fields)));
                let _ = tx.send(r.ok());
            });
            let stdout = std::io::stdout();
            let mut out = stdout.lock();
            match rx.recv_timeout(Duration::from_secs(8)) {
                Ok(Some(o)) => {
                    let log = verif::disarm();
                    writeln!(
                        out,
                        "e2e acc={} ran={} dup={} late={} ghost={} okafter={} awaits={} T {}",
                        o.acc, o.ran, o.dup, o.late, o.ghost, o.okafter, o.awaits, render(&log)
                    )
                    .unwrap();
                }
                Ok(None) => {
                    let log = verif::disarm();
                    writeln!(out, "panic T {}", render(&log)).unwrap();
                }
                Err(_) => {
                    // threads of the scenario are stuck: report and give up on this process
                    let log = verif::snapshot();
                    writeln!(out, "hang T {}", render(&log)).unwrap();
                    out.flush().unwrap();
                    std::process::exit(3);
                }
            }
            out.flush().unwrap();
        }
    }
}

#[cfg(has_pool_hooks)]
fn main() {
    real::main();
}

#[cfg(not(has_pool_hooks))]
fn main() {
    // src/thread.rs of the tree under test has no verification hooks (mod verif)
    qv_harness::run_lines(|_| "nohooks".to_string());
}
