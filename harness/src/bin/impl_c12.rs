//! C12/C13: the message writer. One case = one whole operation sequence:
//! `<bufsize> <fill> <limit> <op> <op> ...` (ops are ':'-separated tokens, see checks/c12.py).
//! Output: `ops=<outcome>,...;regs=<vec>/...;len=<n>;buf=<hex of the whole underlying buffer>`.
use quandary::class::Class;
use quandary::message::tsig::PreparedTsigRr;
use quandary::message::writer::{CompressionMode, Hint, HintPointerVec, HintedName, TsigMode, Writer};
use quandary::message::{ExtendedRcode, Opcode, Qclass, Qtype, Question, Rcode};
use quandary::name::{LowercaseName, Name};
use quandary::rr::rdata::TimeSigned;
use quandary::rr::{Rdata, RdataSetOwned, Ttl, Type};
use qv_harness::*;

fn new_buf(content: Vec<u8>) -> *mut [u8] {
    Box::leak(content.into_boxed_slice()) as *mut [u8]
}

fn name_of(hexs: &str) -> Box<Name> {
    Name::try_from_uncompressed_all(&unhex(hexs)).expect("bad name in case line")
}

/// `HintPointerVec` exposes neither its length nor the pointer values; its derived Debug does.
fn show_vec(v: &HintPointerVec) -> String {
    let s = format!("{v:?}");
    let inner = &s[s.find('[').unwrap() + 1..s.rfind(']').unwrap()];
    let mut out: Vec<String> = Vec::new();
    let mut rest = inner;
    loop {
        let a = rest.find("Some(HintPointer(");
        let b = rest.find("None");
        match (a, b) {
            (Some(i), j) if j.map_or(true, |j| i < j) => {
                let t = &rest[i + 17..];
                let e = t.find(')').unwrap();
                out.push(t[..e].to_string());
                rest = &t[e..];
            }
            (_, Some(j)) => {
                out.push("x".to_string());
                rest = &rest[j + 4..];
            }
            _ => break,
        }
    }
    if out.is_empty() {
        "e".to_string()
    } else {
        out.join(".")
    }
}

fn b(s: &str) -> bool {
    s == "1"
}

fn res(r: Result<(), quandary::message::writer::Error>) -> String {
    match r {
        Ok(()) => "ok".to_string(),
        Err(e) => format!("E:{e:?}"),
    }
}

fn main() {
    run_lines(|f| {
        let size: usize = f[0].parse().unwrap();
        let fill = unhex(f[1])[0];
        let limit: usize = f[2].parse().unwrap();
        let mut raw = new_buf(vec![fill; size]);
        let mut wopt: Option<Writer<'static>> = match Writer::new(unsafe { &mut *raw }, limit) {
            Ok(w) => Some(w),
            Err(e) => return format!("new:{e:?}"),
        };
        let mut regs: Vec<HintPointerVec> = Vec::new();
        let mut outs: Vec<String> = Vec::new();
        let show_regs = |regs: &Vec<HintPointerVec>| {
            if regs.is_empty() {
                "-".to_string()
            } else {
                regs.iter().map(show_vec).collect::<Vec<_>>().join("/")
            }
        };
        let show_outs = |outs: &Vec<String>| if outs.is_empty() { "-".to_string() } else { outs.join(",") };
        // a panic inside an operation is reported together with the outcomes before it
        let done = guarded(|| {
        for tok in &f[3..] {
            let p: Vec<&str> = tok.split(':').collect();
            let w = wopt.as_mut().unwrap();
            let o = match p[0] {
                "id" => {
                    w.set_id(p[1].parse().unwrap());
                    "ok".into()
                }
                "qr" => {
                    w.set_qr(b(p[1]));
                    "ok".into()
                }
                "opc" => {
                    w.set_opcode(Opcode::try_from(p[1].parse::<u8>().unwrap()).unwrap());
                    "ok".into()
                }
                "aa" => {
                    w.set_aa(b(p[1]));
                    "ok".into()
                }
                "tc" => {
                    w.set_tc(b(p[1]));
                    "ok".into()
                }
                "rd" => {
                    w.set_rd(b(p[1]));
                    "ok".into()
                }
                "ra" => {
                    w.set_ra(b(p[1]));
                    "ok".into()
                }
                "rc" => {
                    w.set_rcode(Rcode::try_from(p[1].parse::<u8>().unwrap()).unwrap());
                    "ok".into()
                }
                "xrc" => res(w.set_extended_rcode(ExtendedRcode::from(p[1].parse::<u16>().unwrap()))),
                "q" => {
                    let q = Question {
                        qname: name_of(p[1]),
                        qtype: Qtype::from(p[2].parse::<u16>().unwrap()),
                        qclass: Qclass::from(p[3].parse::<u16>().unwrap()),
                    };
                    res(w.add_question(&q))
                }
                "rr" | "rs" => {
                    let name = name_of(p[3]);
                    let hn = match p[2] {
                        "n" => HintedName::new(Hint::None, &name),
                        "q" => HintedName::new(Hint::Qname, &name),
                        "o" => HintedName::new(Hint::MostRecentOwner, &name),
                        "r" => HintedName::new(Hint::MostRecentNameInRdata, &name),
                        e => {
                            let (r, i) = e[1..].split_once('.').unwrap();
                            let (r, i): (usize, usize) = (r.parse().unwrap(), i.parse().unwrap());
                            HintedName::from_hint_pointer_vec_opt(regs.get(r), i, &name)
                        }
                    };
                    let ty = Type::from(p[4].parse::<u16>().unwrap());
                    let class = Class::from(p[5].parse::<u16>().unwrap());
                    let ttl = Ttl::from(p[6].parse::<u32>().unwrap());
                    let want_vec = b(p[8]);
                    let mut v = HintPointerVec::new();
                    let vo = if want_vec { Some(&mut v) } else { None };
                    let r = if p[0] == "rr" {
                        let bytes = unhex(p[7]);
                        let rd: &Rdata = (&bytes[..]).try_into().unwrap();
                        match p[1] {
                            "a" => w.add_answer_rr(hn, ty, class, ttl, rd, vo),
                            "u" => w.add_authority_rr(hn, ty, class, ttl, rd, vo),
                            "d" => w.add_additional_rr(hn, ty, class, ttl, rd, vo),
                            _ => panic!("bad section"),
                        }
                    } else {
                        let all: Vec<Vec<u8>> = p[7].split(',').map(unhex).collect();
                        // compared as an unknown type => octet-wise: the set is exactly the given list
                        let set = RdataSetOwned::from_iter(
                            Class::from(0xff00),
                            Type::from(0xff00),
                            all.iter().map(|r| <&Rdata>::try_from(&r[..]).unwrap()),
                        )
                        .expect("empty rdata set in case line");
                        assert!(set.iter().count() == all.len(), "duplicate rdata in case line");
                        match p[1] {
                            "a" => w.add_answer_rrset(hn, ty, class, ttl, &set, vo),
                            "u" => w.add_authority_rrset(hn, ty, class, ttl, &set, vo),
                            "d" => w.add_additional_rrset(hn, ty, class, ttl, &set, vo),
                            _ => panic!("bad section"),
                        }
                    };
                    if want_vec {
                        regs.push(if r.is_ok() { v } else { HintPointerVec::new() });
                    }
                    res(r)
                }
                "lim" => {
                    w.set_limit(p[1].parse().unwrap());
                    "ok".into()
                }
                "mode" => {
                    w.set_compression_mode(match p[1] {
                        "s" => CompressionMode::Standard,
                        "c" => CompressionMode::CasePreserving,
                        "d" => CompressionMode::Disabled,
                        _ => panic!("bad mode"),
                    });
                    "ok".into()
                }
                "edns" => res(w.set_edns(p[1].parse().unwrap())),
                "tsig" => {
                    let alg: Box<LowercaseName> = name_of(p[1]).into();
                    let key: Box<LowercaseName> = name_of(p[2]).into();
                    let rr = PreparedTsigRr {
                        key_name: key,
                        time_signed: TimeSigned::try_from_unix_time(p[3].parse().unwrap()).unwrap(),
                        fudge: p[4].parse().unwrap(),
                        original_id: p[5].parse().unwrap(),
                        error: ExtendedRcode::from(p[6].parse::<u16>().unwrap()),
                        server_time: TimeSigned::try_from_unix_time(p[7].parse().unwrap()).unwrap(),
                    };
                    res(w.set_tsig(TsigMode::Unsigned { algorithm: alg }, rr))
                }
                "utime" => res(w.update_time_signed(
                    TimeSigned::try_from_unix_time(p[1].parse().unwrap()).unwrap(),
                )),
                "clr" => {
                    w.clear_rrs();
                    "ok".into()
                }
                "tmpl" => {
                    let t = wopt.take().unwrap().into_template();
                    let nsize: usize = p[1].parse().unwrap();
                    let nraw = new_buf(vec![unhex(p[2])[0]; nsize]);
                    match Writer::try_from_template(unsafe { &mut *nraw }, &t) {
                        Ok(w2) => {
                            wopt = Some(w2);
                            raw = nraw;
                            "ok".into()
                        }
                        Err(e) => {
                            outs.push(format!("E:{e:?}"));
                            break;
                        }
                    }
                }
                "tmpls" => {
                    // the writer is consumed; afterwards it is rebuilt over a copy of its own buffer
                    let t = wopt.take().unwrap().into_template();
                    let nraw = new_buf(unsafe { (*raw).to_vec() });
                    let r = Writer::try_from_template_as_tsig_subsequent(
                        unsafe { &mut *nraw },
                        &t,
                        vec![1u8, 2, 3].into_boxed_slice(),
                    );
                    let o = match r {
                        Ok(_) => "ok".to_string(),
                        Err(e) => format!("E:{e:?}"),
                    };
                    wopt = Some(Writer::try_from_template(unsafe { &mut *nraw }, &t).unwrap());
                    raw = nraw;
                    o
                }
                "get" => {
                    let vals: Vec<u32> = vec![
                        w.id() as u32,
                        w.qr() as u32,
                        u8::from(w.opcode()) as u32,
                        w.aa() as u32,
                        w.tc() as u32,
                        w.rd() as u32,
                        w.ra() as u32,
                        u8::from(w.rcode()) as u32,
                        u16::from(w.extended_rcode()) as u32,
                        w.qdcount() as u32,
                        w.ancount() as u32,
                        w.nscount() as u32,
                        w.arcount() as u32,
                    ];
                    format!("v:{}", vals.iter().map(|x| x.to_string()).collect::<Vec<_>>().join("."))
                }
                _ => panic!("unknown op {tok}"),
            };
            outs.push(o);
        }
        });
        let regs_s = show_regs(&regs);
        let ops_s = show_outs(&outs);
        if done.is_none() {
            return format!("ops={ops_s};regs={regs_s};panic");
        }
        match wopt.take() {
            Some(w) => match guarded(|| w.finish()) {
                Some(len) => {
                    let bytes = unsafe { &*raw };
                    format!("ops={ops_s};regs={regs_s};len={len};buf={}", hex(bytes))
                }
                None => format!("ops={ops_s};regs={regs_s};panic"),
            },
            None => format!("ops={ops_s};regs={regs_s};len=dead;buf=-"),
        }
    });
}
