//! C14: wire-format name decoding. Cases: `<op> <hexbuf> <start>`.
use quandary::name::Name;
use qv_harness::*;

fn show_name(n: &Name) -> String {
    let labels: Vec<String> = n.labels().map(|l| hex(l.octets())).collect();
    format!("wire={} labels={}", hex(n.wire_repr()), labels.join(","))
}

fn main() {
    run_lines(|f| {
        let op = f[0];
        let buf = unhex(f[1]);
        let start: usize = f[2].parse().unwrap();
        match op {
            "pc" => match Name::try_from_compressed(&buf, start) {
                Ok((n, l)) => format!("ok {} len={}", show_name(&n), l),
                Err(e) => format!("err {e:?}"),
            },
            "pu" => match Name::try_from_uncompressed(&buf[start.min(buf.len())..]) {
                Ok((n, l)) => format!("ok {} len={}", show_name(&n), l),
                Err(e) => format!("err {e:?}"),
            },
            "pua" => match Name::try_from_uncompressed_all(&buf[start.min(buf.len())..]) {
                Ok(n) => format!("ok {}", show_name(&n)),
                Err(e) => format!("err {e:?}"),
            },
            "vu" => match Name::validate_uncompressed(&buf[start.min(buf.len())..]) {
                Ok(l) => format!("ok len={l}"),
                Err(e) => format!("err {e:?}"),
            },
            "vua" => match Name::validate_uncompressed_all(&buf[start.min(buf.len())..]) {
                Ok(()) => "ok".to_string(),
                Err(e) => format!("err {e:?}"),
            },
            "sk" => match Name::skip_compressed(&buf[start.min(buf.len())..]) {
                Ok(l) => format!("ok len={l}"),
                Err(e) => format!("err {e:?}"),
            },
            _ => panic!("unknown op"),
        }
    });
}
