//! C27: which responses share a rate-limit stream, through `Server::handle_message`.
//! Case: `<v4len> <v6len> <slip> <size> <src1> <tr1> <kind1> <edns1> <src2> <tr2> <kind2> <edns2>`
//!   all rates 1, window 1 (one response per stream and second); src = 8 or 32 hex digits
//!   (an IPv4 / IPv6 source address as the socket reports it), tr = udp|tcp, kind as in
//!   rrl_common::query.  Two requests are handled back to back on a fresh Server.
//! Output: `ok <r1> <r2>` with r = S (sent, TC clear) | T (slipped) | - (no response);
//! with slip >= 2 both T and - are printed as L. `err <RrlParamError>` for rejected lengths,
//! `timing` if the two requests were a second apart.
#[path = "rrl_common/mod.rs"]
mod rrl_common;
use qv_harness::*;
use rrl_common::*;
use std::net::{IpAddr, Ipv4Addr, Ipv6Addr};
use std::time::{Duration, Instant};

use quandary::server::Server;

fn addr(h: &str) -> IpAddr {
    let b = unhex(h);
    match b.len() {
        4 => IpAddr::V4(Ipv4Addr::new(b[0], b[1], b[2], b[3])),
        16 => {
            let mut o = [0u8; 16];
            o.copy_from_slice(&b);
            IpAddr::V6(Ipv6Addr::from(o))
        }
        _ => panic!("bad address"),
    }
}

fn main() {
    let cat = catalog();
    let mut buf = vec![0u8; 65535];
    run_lines(|f| {
        let n = |i: usize| -> u64 { f[i].parse().unwrap() };
        let slip = n(2) as usize;
        for _attempt in 0..20 {
            let p = match params(1, 1, 1, 1, slip, n(3) as usize, n(0) as u8, n(1) as u8) {
                Ok(p) => p,
                Err(e) => return format!("err {e}"),
            };
            let mut server = Server::new(cat.clone());
            server.set_rrl_params(Some(p));
            let start = Instant::now();
            let mut out = String::from("ok");
            for r in 0..2 {
                let b = 4 + 4 * r;
                let edns = f[b + 3] == "1" || forces_edns(f[b + 2]);
                let q = query(f[b + 2], edns, 0x4321 + r as u16);
                let resp = send(&server, &q, addr(f[b]), parse_transport(f[b + 1]), &mut buf);
                let c = classify(&resp, &buf, edns);
                // kind b: the answer itself is truncated (TC, no records); with slip = 0 nothing is ever slipped, so a
                // response of that shape WAS sent (the generator uses kind b with slip 0 only)
                let c = if f[b + 2].starts_with('b') && slip == 0 && c == "T" { "S".to_string() } else { c };
                let c = if slip >= 2 && (c == "-" || c == "T") { "L".to_string() } else { c };
                out.push(' ');
                out.push_str(&c);
            }
            if start.elapsed() < Duration::from_millis(500) {
                return out;
            }
        }
        "timing".to_string()
    });
}
