//! C22: catalog histories. A case line is a whole history; every field is one step:
//!   i:<cls>:<name>:<tag>   insert an entry (variant = tag % 3: Loaded / NotYetLoaded / FailedToLoad)
//!   r:<cls>:<name>         remove
//!   l:<cls>:<name>         lookup (longest match)
//!   g:<cls>:<name>         get (exact)
//!   it                     iter
//!   sl:<ecls>:<ename>:<tag>:<cls>:<name>   SingleZoneCatalog::lookup
//!   sg:<ecls>:<ename>:<tag>:<cls>:<name>   SingleZoneCatalog::get
//! <name> = hex labels joined by '.', '@' = root.  Output: "ok" + one result per step;
//! after every insert/remove the full sorted iteration is appended (`=...`), so the
//! whole observable state is compared after every mutating step.
use std::sync::Arc;

use quandary::class::Class;
use quandary::db::catalog::Entry;
use quandary::db::zone::GluePolicy;
use quandary::db::{Catalog, HashMapTreeCatalog, HashMapTreeZone, SingleZoneCatalog};
use quandary::name::Name;
use qv_harness::*;

type E = Entry<HashMapTreeZone, u32>;

fn parse_name(s: &str) -> Box<Name> {
    let mut wire = Vec::new();
    if s != "@" {
        for l in s.split('.') {
            let b = unhex(l);
            wire.push(b.len() as u8);
            wire.extend_from_slice(&b);
        }
    }
    wire.push(0);
    Name::try_from_uncompressed_all(&wire).expect("bad name in case line")
}

fn show_name(n: &Name) -> String {
    let labels: Vec<String> = n
        .labels()
        .filter(|l| !l.octets().is_empty())
        .map(|l| hex(l.octets()))
        .collect();
    if labels.is_empty() {
        "@".to_string()
    } else {
        labels.join(".")
    }
}

fn make_entry(cls: u16, name: &str, tag: u32) -> E {
    let n = parse_name(name);
    let c = Class::from(cls);
    match tag % 3 {
        0 => Entry::Loaded(Arc::new(HashMapTreeZone::new(n, c, GluePolicy::Narrow)), tag),
        1 => Entry::NotYetLoaded(n, c, tag),
        _ => Entry::FailedToLoad(n, c, tag),
    }
}

fn show_entry(e: &E) -> String {
    let variant_ok = matches!(
        (e, e.metadata() % 3),
        (Entry::Loaded(..), 0) | (Entry::NotYetLoaded(..), 1) | (Entry::FailedToLoad(..), 2)
    );
    format!(
        "{}/{}/{}{}",
        u16::from(e.class()),
        show_name(e.name()),
        e.metadata(),
        if variant_ok { "" } else { "!variant" }
    )
}

fn show_opt(e: Option<&E>) -> String {
    match e {
        Some(e) => show_entry(e),
        None => "none".to_string(),
    }
}

fn show_iter(c: &HashMapTreeCatalog<HashMapTreeZone, u32>) -> String {
    let mut v: Vec<String> = c.iter().map(show_entry).collect();
    v.sort();
    format!("[{}]", v.join(","))
}

fn main() {
    run_lines(|f| {
        let mut cat: HashMapTreeCatalog<HashMapTreeZone, u32> = HashMapTreeCatalog::new();
        let mut out = String::from("ok");
        for step in f {
            let p: Vec<&str> = step.split(':').collect();
            let r = match p[0] {
                "i" => {
                    let old = cat.insert(make_entry(p[1].parse().unwrap(), p[2], p[3].parse().unwrap()));
                    format!("{}={}", show_opt(old.as_ref()), show_iter(&cat))
                }
                "r" => {
                    let old = cat.remove(&parse_name(p[2]), Class::from(p[1].parse::<u16>().unwrap()));
                    format!("{}={}", show_opt(old.as_ref()), show_iter(&cat))
                }
                "l" => show_opt(cat.lookup(&parse_name(p[2]), Class::from(p[1].parse::<u16>().unwrap()))),
                "g" => show_opt(cat.get(&parse_name(p[2]), Class::from(p[1].parse::<u16>().unwrap()))),
                "it" => show_iter(&cat),
                "sl" | "sg" => {
                    let s = SingleZoneCatalog::new(make_entry(p[1].parse().unwrap(), p[2], p[3].parse().unwrap()));
                    let n = parse_name(p[5]);
                    let c = Class::from(p[4].parse::<u16>().unwrap());
                    show_opt(if p[0] == "sl" { s.lookup(&n, c) } else { s.get(&n, c) })
                }
                _ => panic!("unknown step"),
            };
            out.push(' ');
            out.push_str(&r);
        }
        out
    });
}
