//! Server-level runner for the octet-exact composed suite (`srvw`):
//! `<u|t|U|T> <edns> <catalog> <keys> <requesthex>` (U/T: single-entry catalog served through SingleZoneCatalog) -> `none` | `resp ...` | `panic`.
//!
//! Same as `impl_srv`, except that the one thing in a response that depends on the wall clock is
//! normalised so that responses with a TSIG record can be compared OCTET FOR OCTET with the model, whose
//! clock is the constant 0: the 48-bit "time signed" field of the response's TSIG record (and the server
//! time in its "other data" when the error is BADTIME) is replaced by 0 when - and only when - it lies
//! between the clock readings taken immediately before and after `handle_message`.  A time outside
//! that window is left alone (and therefore reported as a difference).  Nothing else is touched.
use quandary::server::{ReceivedInfo, Response, Transport};
use qv_harness::srvcase::*;
use qv_harness::*;
use std::net::Ipv4Addr;
use std::time::{SystemTime, UNIX_EPOCH};

fn now_secs() -> u64 {
    SystemTime::now().duration_since(UNIX_EPOCH).unwrap().as_secs()
}

/// end of the (possibly compressed) name starting at `at`
fn skip_name(b: &[u8], mut at: usize) -> Option<usize> {
    loop {
        let l = *b.get(at)? as usize;
        if l & 0xc0 == 0xc0 {
            return Some(at + 2);
        }
        if l == 0 {
            return Some(at + 1);
        }
        at += 1 + l;
    }
}

fn be48(b: &[u8]) -> u64 {
    b.iter().fold(0u64, |a, x| (a << 8) | *x as u64)
}

/// zero the clock-dependent fields of the TSIG record, if the last record is one
fn normalise_clock(resp: &mut [u8], t0: u64, t1: u64) -> Option<()> {
    if resp.len() < 12 {
        return None;
    }
    let cnt = |i: usize| u16::from_be_bytes([resp[i], resp[i + 1]]) as usize;
    let (qd, rrs) = (cnt(4), cnt(6) + cnt(8) + cnt(10));
    let mut at = 12;
    for _ in 0..qd {
        at = skip_name(resp, at)? + 4;
    }
    let mut last = None;
    for _ in 0..rrs {
        let e = skip_name(resp, at)?;
        if e + 10 > resp.len() {
            return None;
        }
        let ty = u16::from_be_bytes([resp[e], resp[e + 1]]);
        let rdlen = u16::from_be_bytes([resp[e + 8], resp[e + 9]]) as usize;
        if e + 10 + rdlen > resp.len() {
            return None;
        }
        last = Some((ty, e + 10, rdlen));
        at = e + 10 + rdlen;
    }
    let (ty, rd, rdlen) = last?;
    if ty != 250 {
        return None;
    }
    // algorithm name (uncompressed), time signed (6), fudge (2), MAC size (2), MAC, original ID (2), error (2),
    // other len (2), other data
    let mut a = rd;
    while *resp.get(a)? != 0 {
        a += 1 + resp[a] as usize;
    }
    a += 1;
    if a + 10 > rd + rdlen {
        return None;
    }
    let window = |x: u64| t0 <= x && x <= t1;
    if window(be48(&resp[a..a + 6])) {
        resp[a..a + 6].fill(0);
    }
    let macsz = u16::from_be_bytes([resp[a + 8], resp[a + 9]]) as usize;
    let o = a + 10 + macsz + 4;
    if o + 2 > rd + rdlen {
        return None;
    }
    let olen = u16::from_be_bytes([resp[o], resp[o + 1]]) as usize;
    if olen == 6 && o + 8 <= rd + rdlen && window(be48(&resp[o + 2..o + 8])) {
        resp[o + 2..o + 8].fill(0);
    }
    Some(())
}

fn main() {
    let mut resp_buf = vec![0u8; 65535];
    run_lines(|f| {
        let transport = if f[0].eq_ignore_ascii_case("t") { Transport::Tcp } else { Transport::Udp };
        // an upper-case transport letter: serve the (single-entry) catalog through SingleZoneCatalog
        let single = if f[0] == "T" || f[0] == "U" { build_server_single(f[1].parse().unwrap(), f[2], f[3]) } else { None };
        let edns: u16 = f[1].parse().unwrap();
        let server = build_server(edns, f[2], f[3]);
        let req = unhex(f[4]);
        let info = ReceivedInfo::new(Ipv4Addr::LOCALHOST.into(), transport);
        let t0 = now_secs();
        let r = match &single {
            Some(s1) => s1.handle_message(&req, info, &mut resp_buf),
            None => server.handle_message(&req, info, &mut resp_buf),
        };
        let t1 = now_secs();
        match r {
            Response::None => "none".to_string(),
            Response::Single(n) => {
                let _ = normalise_clock(&mut resp_buf[..n], t0, t1);
                render(&resp_buf[..n])
            }
        }
    });
}
