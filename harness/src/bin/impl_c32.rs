//! C32: concurrent catalog / TSIG key-set swaps on the real Server.
//!
//! Case: `swap <mode> <nthreads> <ngens> <iters>`   mode = cat | keys | both
//! `nthreads` threads call Server::handle_message in a loop (`iters` calls each) while one
//! thread calls set_catalog / set_tsig_keys with generations 1..ngens-1 in order.
//! Every record of catalog generation g carries g (SOA serial, NS target name, glue and
//! answer addresses, TXT); key set j contains only the key named `k<j>.`, except that every fourth key set is EMPTY
//! (all keys revoked).
//! A global sequence counter (SeqCst) brackets every call; generation g of a cell can have
//! been current only between the call of its setter and the return of the next setter.
//! Each response must be byte-identical to the single-threaded reference response of ONE
//! catalog generation possibly current during the call (complete answer: all sections), and
//! for signed queries the key status (verified / BADKEY) must be that of ONE key generation
//! possibly current during the call.  Output: `ok`, or `bad <what>`.
use std::collections::HashMap;
use std::net::Ipv4Addr;
use std::sync::atomic::{AtomicBool, AtomicU64, Ordering};
use std::sync::Arc;
use std::time::SystemTime;

use quandary::class::Class;
use quandary::db::catalog::Entry;
use quandary::db::zone::GluePolicy;
use quandary::db::{HashMapTreeCatalog, HashMapTreeZone};
use quandary::message::tsig::{Algorithm, PreparedTsigRr};
use quandary::message::writer::TsigMode;
use quandary::message::{ExtendedRcode, Qclass, Question, Writer};
use quandary::name::Name;
use quandary::rr::Type;
use quandary::server::{ReceivedInfo, Response, Server, Transport, TsigKeyMap};
use quandary::zone_file::Parser;
use qv_harness::*;

type Cat = HashMapTreeCatalog<HashMapTreeZone, ()>;
const SECRET: &[u8] = b"0123456789abcdef0123456789abcdef";

fn catalog(g: usize) -> Arc<Cat> {
    let (hi, lo) = (g >> 8, g & 255);
    let text = format!(
        "$ORIGIN example.\n$TTL 60\n@ IN SOA ns{g} admin {g} 7200 3600 1209600 30\n@ IN NS ns{g}\n\
         ns{g} IN A 10.1.{hi}.{lo}\nwww IN A 10.0.{hi}.{lo}\nwww IN TXT \"gen-{g}\"\n"
    );
    let name: Box<Name> = "example.".parse().unwrap();
    let mut zone = HashMapTreeZone::new(name, Class::IN, GluePolicy::Narrow);
    for line in Parser::new(text.as_bytes()).records_only() {
        let r = line.expect("zone text parses").record;
        zone.add(&r.owner, r.rr_type, r.class, r.ttl, &r.rdata).expect("zone add");
    }
    let mut cat = Cat::new();
    cat.insert(Entry::Loaded(Arc::new(zone), ()));
    Arc::new(cat)
}

fn key_name(j: usize) -> Box<Name> {
    format!("k{j}.").parse().unwrap()
}

/// Every fourth key generation is the EMPTY key set (all keys revoked).
fn empty_gen(j: usize) -> bool {
    j % 4 == 3
}

fn keys(j: usize) -> Arc<TsigKeyMap> {
    let mut m = TsigKeyMap::new();
    if !empty_gen(j) {
        m.insert(key_name(j), (Algorithm::HmacSha256, SECRET.into()));
    }
    Arc::new(m)
}

const QUERIES: [(&str, Type); 4] =
    [("example.", Type::NS), ("nx.example.", Type::A), ("www.example.", Type::A), ("www.example.", Type::TXT)];

fn query(id: u16, q: usize, sign_with: Option<usize>) -> Vec<u8> {
    let mut buf = vec![0u8; 512];
    let mut w = Writer::new(&mut buf, 512).unwrap();
    w.set_id(id);
    w.set_rd(true);
    let (n, t) = QUERIES[q];
    w.add_question(&Question { qname: n.parse().unwrap(), qtype: t.into(), qclass: Qclass::from(Class::IN) }).unwrap();
    if let Some(j) = sign_with {
        let now = SystemTime::now().try_into().unwrap();
        let rr = PreparedTsigRr {
            key_name: key_name(j).into(),
            time_signed: now,
            fudge: 300,
            original_id: id,
            error: ExtendedRcode::NOERROR,
            server_time: now,
        };
        w.set_tsig(TsigMode::Request { algorithm: Algorithm::HmacSha256, key: SECRET.into() }, rr).unwrap();
    }
    let n = w.finish();
    buf.truncate(n);
    buf
}

fn call(server: &Server<Cat>, msg: &[u8]) -> Option<Vec<u8>> {
    let mut buf = vec![0u8; 1232];
    match server.handle_message(msg, ReceivedInfo::new(Ipv4Addr::LOCALHOST.into(), Transport::Udp), &mut buf) {
        Response::Single(n) => Some(buf[..n].to_vec()),
        Response::None => None,
    }
}

struct Obs {
    q: usize,
    signed: Option<usize>,
    start: u64,
    end: u64,
    resp: Option<Vec<u8>>,
}

/// `resp` is the reference (unsigned) response `r` plus, possibly, one more additional record.
fn body_matches(resp: &[u8], r: &[u8], signed: bool) -> bool {
    if !signed {
        return resp == r;
    }
    if resp.len() <= r.len() || resp.len() < 12 {
        return false;
    }
    let ar = u16::from_be_bytes([resp[10], resp[11]]);
    let ar_ref = u16::from_be_bytes([r[10], r[11]]);
    resp[..10] == r[..10] && ar == ar_ref + 1 && resp[12..r.len()] == r[12..]
}

fn run(mode: &str, nthreads: usize, ngens: usize, iters: usize) -> String {
    let cats: Vec<Arc<Cat>> = (0..ngens).map(catalog).collect();
    let keysets: Vec<Arc<TsigKeyMap>> = (0..ngens).map(keys).collect();
    // single-threaded reference: response of catalog generation g to query q (fixed id per q)
    let reference: Vec<Vec<Vec<u8>>> = (0..ngens)
        .map(|g| {
            let s = Server::new(cats[g].clone());
            (0..QUERIES.len()).map(|q| call(&s, &query(q as u16 + 1, q, None)).expect("reference response")).collect()
        })
        .collect();
    let server = Arc::new(Server::new(cats[0].clone()));
    server.set_tsig_keys(keysets[0].clone());
    let seq = Arc::new(AtomicU64::new(1));
    let stop = Arc::new(AtomicBool::new(false));
    // number of completed calls: the swapper paces itself by the queriers' PROGRESS (not by wall time),
    // so swaps and calls interleave however loaded the machine is
    let done = Arc::new(AtomicU64::new(0));
    let use_keys = mode != "cat";
    let swap_cat = mode != "keys";

    let workers: Vec<_> = (0..nthreads)
        .map(|t| {
            let (server, seq, stop, done) = (server.clone(), seq.clone(), stop.clone(), done.clone());
            std::thread::spawn(move || {
                let mut obs = Vec::new();
                let mut i = 0usize;
                // keep querying until the swapper is done (at least `iters` calls)
                while i < iters || !stop.load(Ordering::SeqCst) {
                    let q = (i + t) % QUERIES.len();
                    let signed = if use_keys && (i + t) % 3 != 0 { Some((i * 7 + t) % ngens) } else { None };
                    let msg = query(q as u16 + 1, q, signed);
                    let start = seq.fetch_add(1, Ordering::SeqCst);
                    let resp = call(&server, &msg);
                    let end = seq.fetch_add(1, Ordering::SeqCst);
                    obs.push(Obs { q, signed, start, end, resp });
                    done.fetch_add(1, Ordering::SeqCst);
                    i += 1;
                    if i > iters * 5000 {
                        break; // safety net only; the swapper sets `stop` long before
                    }
                }
                obs
            })
        })
        .collect();

    // the swapper: generation g installed between cat_call[g] and cat_ret[g]
    let mut cat_call = vec![0u64; ngens];
    let mut cat_ret = vec![0u64; ngens];
    let mut key_call = vec![0u64; ngens];
    let mut key_ret = vec![0u64; ngens];
    for g in 1..ngens {
        // wait until the queriers have completed a few more calls (at most 2 s, so a stuck querier
        // cannot hang the run)
        let target = done.load(Ordering::SeqCst) + nthreads as u64;
        let waited = std::time::Instant::now();
        while done.load(Ordering::SeqCst) < target && waited.elapsed() < std::time::Duration::from_secs(2) {
            std::thread::yield_now();
        }
        if swap_cat {
            cat_call[g] = seq.fetch_add(1, Ordering::SeqCst);
            server.set_catalog(cats[g].clone());
            cat_ret[g] = seq.fetch_add(1, Ordering::SeqCst);
        }
        if use_keys {
            key_call[g] = seq.fetch_add(1, Ordering::SeqCst);
            server.set_tsig_keys(keysets[g].clone());
            key_ret[g] = seq.fetch_add(1, Ordering::SeqCst);
        }
    }
    stop.store(true, Ordering::SeqCst);
    // a request handled after the last replacement returned must use the last catalog
    if swap_cat {
        let q = 0usize;
        let resp = call(&server, &query(q as u16 + 1, q, None));
        match resp {
            Some(r) if r == reference[ngens - 1][q] => (),
            _ => return "bad request-after-last-swap-did-not-use-the-new-catalog".to_string(),
        }
    }
    let last_cat = if swap_cat { ngens - 1 } else { 0 };
    let last_key = if use_keys { ngens - 1 } else { 0 };

    // generation g of a cell may have been current at some instant of [start, end]
    let possible = |g: usize, last: usize, call: &[u64], ret: &[u64], start: u64, end: u64| {
        g <= last && (g == 0 || call[g] < end) && (g == last || ret[g + 1] > start)
    };
    let mut seen_cat = HashMap::new();
    let mut n = 0usize;
    for w in workers {
        for o in w.join().unwrap() {
            n += 1;
            let resp = match &o.resp {
                Some(r) => r,
                None => return format!("bad no-response q={}", o.q),
            };
            let rcode = resp[3] & 15;
            if let Some(j0) = o.signed {
                // verified iff the key set holds k<j0>: generation j0 exactly, unless that generation is the empty set
                let verified = rcode != 9;
                let consistent = if verified {
                    !empty_gen(j0) && possible(j0, last_key, &key_call, &key_ret, o.start, o.end)
                } else {
                    (0..=last_key).any(|j| (j != j0 || empty_gen(j)) && possible(j, last_key, &key_call, &key_ret, o.start, o.end))
                };
                if !consistent {
                    return format!("bad key-status verified={verified} j0={j0} interval={}..{}", o.start, o.end);
                }
                if !verified {
                    continue; // BADKEY: the response carries no zone data
                }
            }
            let g = (0..ngens).find(|g| body_matches(resp, &reference[*g][o.q], o.signed.is_some()));
            match g {
                None => return format!("bad mixed-or-unknown-response q={} resp={}", o.q, hex(resp)),
                Some(g) => {
                    if !possible(g, last_cat, &cat_call, &cat_ret, o.start, o.end) {
                        return format!("bad stale-or-future-catalog g={g} interval={}..{}", o.start, o.end);
                    }
                    *seen_cat.entry(g).or_insert(0usize) += 1;
                }
            }
        }
    }
    // a request handled after a key-set replacement returned must use the new key set: install a fresh key, revoke
    // every key (the empty set), install the last generation again.  Done AFTER the queriers were joined: their
    // observations are judged against the swapper's generations only.
    if use_keys {
        let j = if empty_gen(ngens) { ngens + 1 } else { ngens }; // a key no earlier generation holds
        let status = |server: &Server<Cat>| call(server, &query(1, 0, Some(j))).map(|r| r[3] & 15);
        server.set_tsig_keys(keys(j));
        if status(&server) == Some(9) {
            return "bad request-after-last-key-swap-did-not-use-the-new-key-set".to_string();
        }
        server.set_tsig_keys(Arc::new(TsigKeyMap::new()));
        if status(&server) != Some(9) {
            return "bad request-after-all-keys-were-revoked-still-verified".to_string();
        }
        server.set_tsig_keys(keysets[ngens - 1].clone());
    }
    if swap_cat && seen_cat.len() < 2 {
        return format!("trivial only-{}-generation(s)-observed n={n}", seen_cat.len());
    }
    "ok".to_string()
}

fn main() {
    run_lines(|f| {
        let (mode, nthreads, ngens, iters): (&str, usize, usize, usize) =
            (f[1], f[2].parse().unwrap(), f[3].parse().unwrap(), f[4].parse().unwrap());
        run(mode, nthreads, ngens, iters)
    });
}
