//! Suite `signed` (C02, C04, C01): a CORRECTLY SIGNED query against the real server, both transports.
//!
//! Case: `<edns> <their|-> <catalog> <keyname,alg,keyhex> <id> <rd> <qnamewire> <qtype> <qclass> [<dt>]`
//!   edns      the server's EDNS UDP payload size (also the size of the UDP response buffer, as the
//!             I/O providers allocate it)
//!   their     the payload size the request advertises in an OPT record, `-` = no OPT
//!   catalog   harness/src/srvcase.rs syntax
//!   key       ONE TSIG key, installed in the server and used to sign the request
//!   dt        seconds added to the clock for the request's "time signed" (default 0; outside +-300 the
//!             correctly signed request is answered with a SIGNED BADTIME response carrying the server's time)
//! The request is built with the crate's own Writer (set_id, set_rd, add_question, set_edns,
//! set_tsig(TsigMode::Request)), the SAME octets are handed to Server::handle_message over UDP and
//! over TCP within one wall-clock second (the response MAC covers the server's time; otherwise the
//! whole case is retried), and both responses are printed in the pair format of impl_c04:
//! `U <render> ## T <render> ## Q req=<request octets>`.
use quandary::message::tsig::{Algorithm, PreparedTsigRr};
use quandary::message::writer::TsigMode;
use quandary::message::{ExtendedRcode, Qclass, Qtype, Question, Writer};
use quandary::server::{ReceivedInfo, Response, Server, Transport};
use qv_harness::srvcase::*;
use qv_harness::*;
use std::net::Ipv4Addr;
use std::time::{Duration, SystemTime, UNIX_EPOCH};

fn secs() -> u64 {
    SystemTime::now().duration_since(UNIX_EPOCH).expect("clock before 1970").as_secs()
}

fn signed_request(f: &[&str]) -> Vec<u8> {
    let k: Vec<&str> = f[3].split(',').collect();
    let key_name = name_of_wire(k[0]);
    let algorithm = if k[1] == "1" { Algorithm::HmacSha1 } else { Algorithm::HmacSha256 };
    let key = unhex(k[2]);
    let id: u16 = f[4].parse().unwrap();
    let mut buf = vec![0u8; 65535];
    let mut w = Writer::new(&mut buf, 65535).unwrap();
    w.set_id(id);
    w.set_rd(f[5] == "1");
    w.add_question(&Question {
        qname: name_of_wire(f[6]),
        qtype: Qtype::from(f[7].parse::<u16>().unwrap()),
        qclass: Qclass::from(f[8].parse::<u16>().unwrap()),
    })
    .expect("question");
    if f[1] != "-" {
        w.set_edns(f[1].parse().unwrap()).expect("edns");
    }
    let dt: i64 = f.get(9).map(|x| x.parse().unwrap()).unwrap_or(0);
    let clock = SystemTime::now();
    let shifted = if dt >= 0 { clock + Duration::from_secs(dt as u64) } else { clock - Duration::from_secs((-dt) as u64) };
    let now = shifted.try_into().unwrap();
    let rr = PreparedTsigRr {
        key_name: key_name.into(),
        time_signed: now,
        fudge: 300,
        original_id: id,
        error: ExtendedRcode::NOERROR,
        server_time: now,
    };
    w.set_tsig(TsigMode::Request { algorithm, key: key.into() }, rr).expect("tsig");
    let n = w.finish();
    buf.truncate(n);
    buf
}

fn main() {
    let mut tcp_buf = vec![0u8; 65535];
    let mut cached: Option<(String, Server<CatalogImpl>)> = None;
    run_lines(|f| {
        let edns: u16 = f[0].parse().unwrap();
        let key = format!("{} {} {}", f[0], f[2], f[3]);
        if cached.as_ref().map(|(k, _)| k.as_str()) != Some(key.as_str()) {
            cached = Some((key, build_server(edns, f[2], f[3])));
        }
        let server = &cached.as_ref().unwrap().1;
        let mut udp_buf = vec![0u8; edns as usize];
        for _attempt in 0..8 {
            let t0 = secs();
            let req = signed_request(f);
            let mut out = String::new();
            for (tag, transport) in [("U", Transport::Udp), ("T", Transport::Tcp)] {
                let info = ReceivedInfo::new(Ipv4Addr::LOCALHOST.into(), transport);
                let buf: &mut [u8] = if transport == Transport::Udp { &mut udp_buf } else { &mut tcp_buf };
                let r = match server.handle_message(&req, info, buf) {
                    Response::None => "none".to_string(),
                    Response::Single(n) => render(&buf[..n]),
                };
                out.push_str(tag);
                out.push(' ');
                out.push_str(&r);
                out.push_str(" ## ");
            }
            if secs() != t0 {
                continue; // the two responses may carry different times: not comparable octet for octet
            }
            out.push_str("Q req=");
            out.push_str(&hex(&req));
            return out;
        }
        "bad clock-kept-ticking-between-the-two-transports".to_string()
    });
}
