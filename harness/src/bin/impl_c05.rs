//! C05 runner: `<catalog> <qnamewire> <qtype> <qclass>` -> the real server's response to that
//! question, sent as a plain QUERY over TCP (no truncation below 65535 octets), rendered with
//! srvcase::render (decoded by the crate's Reader; raw octets appended).
//! The server built for the previous line is reused when the catalog description is identical.
use quandary::server::{ReceivedInfo, Response, Server, Transport};
use qv_harness::srvcase::*;
use qv_harness::*;
use std::net::Ipv4Addr;

fn main() {
    let mut resp_buf = vec![0u8; 65535];
    let mut cached: Option<(String, Server<CatalogImpl>)> = None;
    run_lines(|f| {
        if cached.as_ref().map(|(k, _)| k.as_str()) != Some(f[0]) {
            cached = Some((f[0].to_string(), build_server(512, f[0], "-")));
        }
        let server = &cached.as_ref().unwrap().1;
        let qname = unhex(f[1]);
        let qtype: u16 = f[2].parse().unwrap();
        let qclass: u16 = f[3].parse().unwrap();
        let mut req = vec![0x12, 0x34, 0x00, 0x00, 0, 1, 0, 0, 0, 0, 0, 0];
        req.extend_from_slice(&qname);
        req.extend_from_slice(&qtype.to_be_bytes());
        req.extend_from_slice(&qclass.to_be_bytes());
        let info = ReceivedInfo::new(Ipv4Addr::LOCALHOST.into(), Transport::Tcp);
        match server.handle_message(&req, info, &mut resp_buf) {
            Response::None => "none".to_string(),
            Response::Single(n) => render(&resp_buf[..n]),
        }
    });
}
