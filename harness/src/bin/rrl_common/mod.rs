//! Shared by impl_c26 / impl_c27 / impl_c28: a tiny single-zone catalog, query
//! construction, response classification, and the fallback used when the source tree
//! lacks the `Server::verif_rrl_age` hook.
#![allow(dead_code)]
use std::net::IpAddr;
use std::sync::atomic::{AtomicBool, Ordering};
use std::sync::Arc;
use std::time::Duration;

use quandary::class::Class;
use quandary::db::catalog::Entry;
use quandary::db::zone::GluePolicy;
use quandary::db::{HashMapTreeZone, SingleZoneCatalog};
use quandary::name::Name;
use quandary::rr::{Rdata, Ttl, Type};
use quandary::server::{ReceivedInfo, Response, RrlParams, Server, Transport};

pub type Cat = SingleZoneCatalog<HashMapTreeZone, ()>;

/// Set when `Server::verif_rrl_age` does not exist in the tree under test (the inherent
/// method, when present, takes precedence over this trait method).
pub static HOOK_MISSING: AtomicBool = AtomicBool::new(false);
pub trait AgeFallback {
    fn verif_rrl_age(&self, _by: Duration) {
        HOOK_MISSING.store(true, Ordering::SeqCst);
    }
}
impl<C> AgeFallback for Server<C> {}

fn wire(labels: &[&[u8]]) -> Vec<u8> {
    let mut v = Vec::new();
    for l in labels {
        v.push(l.len() as u8);
        v.extend_from_slice(l);
    }
    v.push(0);
    v
}

/// Zone `example.`: SOA+NS at the apex, A records at a/b/c.example., wildcard
/// `*.w.example.` A, `*.cw.example.` CNAME a.example., nothing below `nx.example.`.
pub fn catalog() -> Arc<Cat> {
    let apex: Box<Name> = "example.".parse().unwrap();
    let mut z = HashMapTreeZone::new(apex.clone(), Class::IN, GluePolicy::Narrow);
    let mut soa = wire(&[b"ns", b"example"]);
    soa.extend(wire(&[b"admin", b"example"]));
    for v in [1u32, 3600, 600, 86400, 300] {
        soa.extend_from_slice(&v.to_be_bytes());
    }
    let ttl = Ttl::from(300u32);
    z.add(&apex, Type::SOA, Class::IN, ttl, <&Rdata>::try_from(&soa[..]).unwrap()).unwrap();
    let ns = wire(&[b"ns", b"example"]);
    z.add(&apex, Type::NS, Class::IN, ttl, <&Rdata>::try_from(&ns[..]).unwrap()).unwrap();
    // (the last four: the same octets "abc" split into labels in four ways - four different names)
    for (i, host) in ["ns.example.", "a.example.", "b.example.", "c.example.", "*.w.example.", "abc.example.", "ab.c.example.",
        "a.bc.example.", "a.b.c.example."]
        .iter()
        .enumerate()
    {
        let n: Box<Name> = host.parse().unwrap();
        let rd = [192u8, 0, 2, i as u8 + 1];
        z.add(&n, Type::A, Class::IN, ttl, <&Rdata>::try_from(&rd[..]).unwrap()).unwrap();
    }
    // `*.big.example.`: four 200-octet TXT records (an ANY answer that does not fit 512 octets)
    let big: Box<Name> = "*.big.example.".parse().unwrap();
    for i in 0..4u8 {
        let mut rd = vec![199u8];
        rd.extend(std::iter::repeat(b'a' + i).take(199));
        z.add(&big, Type::TXT, Class::IN, ttl, <&Rdata>::try_from(&rd[..]).unwrap()).unwrap();
    }
    // wildcard CNAMEs whose chain FAILS: to a name that does not exist (NXDOMAIN) and into a loop (SERVFAIL); the source
    // of synthesis is recorded before the chain is followed, but errors are never keyed by a name
    for (owner, tgt) in [("*.cn.example.", vec![&b"nowhere"[..], &b"example"[..]]), ("*.cl.example.", vec![&b"x"[..], &b"cl"[..], &b"example"[..]])] {
        let o: Box<Name> = owner.parse().unwrap();
        let t = wire(&tgt);
        z.add(&o, Type::CNAME, Class::IN, ttl, <&Rdata>::try_from(&t[..]).unwrap()).unwrap();
    }
    let wc: Box<Name> = "*.cw.example.".parse().unwrap();
    let target = wire(&[b"a", b"example"]);
    z.add(&wc, Type::CNAME, Class::IN, ttl, <&Rdata>::try_from(&target[..]).unwrap()).unwrap();
    Arc::new(SingleZoneCatalog::new(Entry::Loaded(Arc::new(z), ())))
}

/// The query kinds of the case files (the model-side driver maps the same kinds to the
/// response category and key name the tiny zone produces):
///   n<label>  `<label>.example.` A      -> NOERROR with an answer (label in a, b, c, any case)
///   d<label>  `<label>.example.` TXT    -> NOERROR, no data
///   w<label>  `<label>.w.example.` A    -> NOERROR by wildcard synthesis from `*.w.example.`
///   y<label>  `<label>.w.example.` ANY  -> NOERROR, every RRset of the wildcard (answer_any)
///   z<label>  `<label>.w.example.` TXT  -> NOERROR, no data, synthesized from `*.w.example.`
///   c<label>  `<label>.cw.example.` A   -> NOERROR, CNAME synthesized from `*.cw.example.` (-> a.example.)
///   b<label>  `<label>.big.example.` ANY -> NOERROR from `*.big.example.` (4 x 200-octet TXT: truncated over UDP without EDNS)
///   g<label>  `<label>.cn.example.` A   -> NXDOMAIN through the wildcard CNAME `*.cn.example.` -> nowhere.example.
///   h<label>  `<label>.cl.example.` A   -> SERVFAIL through the looping wildcard CNAME `*.cl.example.` -> x.cl.example.
///   x<label>  `<label>.nx.example.` A   -> NXDOMAIN
///   (<label> may be several labels separated by '.')
///   r<label>  `<label>.other.` A        -> REFUSED
///   f         QDCOUNT=0, opcode QUERY   -> FORMERR, no question
///   u         QDCOUNT=0, opcode QUERY, OPT with EDNS version 1 -> BADVERS (detected before the missing question), no question
///   m         QDCOUNT=2                 -> no response at all (send_response = false before RRL)
///   o<label>  opcode 4 (NOTIFY), `<label>.example.` -> NOTIMP, exempt from RRL
///   v<label>  `<label>.example.` A with an OPT of EDNS version 1 -> BADVERS (extended RCODE 16: an
///             RCODE whose low four bits are 0), always carries an OPT
pub fn query(kind: &str, edns: bool, id: u16) -> Vec<u8> {
    let (k, label) = kind.split_at(1);
    let edns = edns || k == "v" || k == "u";
    // `<label>` may hold several labels separated by '.', leftmost first
    let labels: Vec<&[u8]> = label.split('.').map(|l| l.as_bytes()).collect();
    let with = |tail: &[&[u8]]| -> Vec<u8> {
        let mut all: Vec<&[u8]> = labels.clone();
        all.extend_from_slice(tail);
        wire(&all)
    };
    let mut m = vec![0u8; 12];
    m[0..2].copy_from_slice(&id.to_be_bytes());
    let (qname, qtype, opcode, qd): (Option<Vec<u8>>, u16, u8, u16) = match k {
        "n" => (Some(with(&[b"example"])), 1, 0, 1),
        "d" => (Some(with(&[b"example"])), 16, 0, 1),
        "w" => (Some(with(&[b"w", b"example"])), 1, 0, 1),
        "y" => (Some(with(&[b"w", b"example"])), 255, 0, 1),
        "b" => (Some(with(&[b"big", b"example"])), 255, 0, 1),
        "z" => (Some(with(&[b"w", b"example"])), 16, 0, 1),
        "c" => (Some(with(&[b"cw", b"example"])), 1, 0, 1),
        "g" => (Some(with(&[b"cn", b"example"])), 1, 0, 1),
        "h" => (Some(with(&[b"cl", b"example"])), 1, 0, 1),
        "x" => (Some(with(&[b"nx", b"example"])), 1, 0, 1),
        "r" => (Some(with(&[b"other"])), 1, 0, 1),
        "f" | "u" => (None, 0, 0, 0),
        "m" => (Some(wire(&[b"a", b"example"])), 1, 0, 2),
        "o" => (Some(with(&[b"example"])), 1, 4, 1),
        "v" => (Some(with(&[b"example"])), 1, 0, 1),
        _ => panic!("unknown query kind {kind}"),
    };
    m[2] = opcode << 3;
    m[4..6].copy_from_slice(&qd.to_be_bytes());
    if let Some(q) = qname {
        for _ in 0..qd {
            m.extend_from_slice(&q);
            m.extend_from_slice(&qtype.to_be_bytes());
            m.extend_from_slice(&1u16.to_be_bytes());
        }
    }
    if edns {
        m[11] = 1; // ARCOUNT
        let version = if k == "v" || k == "u" { 1 } else { 0 };
        m.extend_from_slice(&[0, 0, 41, 0x04, 0xd0, 0, version, 0, 0, 0, 0]);
    }
    m
}

/// What left the server for one request.
///   `-`      no response
///   `S`      a response with TC clear
///   `T`      a response with TC set whose only records are the question and (iff the
///            request had one) a single OPT record: the shape of a slipped response
///   `t(..)`  a response with TC set that carries other records
pub fn classify(resp: &Response, buf: &[u8], edns: bool) -> String {
    match resp {
        Response::None => "-".to_string(),
        Response::Single(len) => {
            let m = &buf[..*len];
            let tc = m[2] & 0x02 != 0;
            if !tc {
                return "S".to_string();
            }
            let qd = u16::from_be_bytes([m[4], m[5]]) as usize;
            let an = u16::from_be_bytes([m[6], m[7]]);
            let ns = u16::from_be_bytes([m[8], m[9]]);
            let ar = u16::from_be_bytes([m[10], m[11]]);
            // skip the (uncompressed) questions
            let mut off = 12;
            for _ in 0..qd {
                while m[off] != 0 {
                    off += m[off] as usize + 1;
                }
                off += 5;
            }
            let rest = &m[off..];
            let opt_ok = if edns {
                ar == 1 && rest.len() == 11 && rest[0] == 0 && rest[1] == 0 && rest[2] == 41
            } else {
                ar == 0 && rest.is_empty()
            };
            if an == 0 && ns == 0 && opt_ok {
                "T".to_string()
            } else {
                format!("t(an={an},ns={ns},ar={ar},extra={})", rest.len())
            }
        }
    }
}

pub fn parse_transport(s: &str) -> Transport {
    match s {
        "udp" => Transport::Udp,
        "tcp" => Transport::Tcp,
        _ => panic!("bad transport"),
    }
}

/// RrlParams from the numeric fields of a case; `Err(name)` as the API reports it.
pub fn params(ne: u32, nx: u32, er: u32, win: u32, slip: usize, size: usize, v4: u8, v6: u8) -> Result<RrlParams, String> {
    let mut p = RrlParams::new(ne, nx, er, win).map_err(|e| format!("{e:?}"))?;
    p.set_slip(slip);
    p.set_size(size).map_err(|e| format!("{e:?}"))?;
    p.set_ipv4_prefix_len(v4).map_err(|e| format!("{e:?}"))?;
    p.set_ipv6_prefix_len(v6).map_err(|e| format!("{e:?}"))?;
    Ok(p)
}

pub fn send(server: &Server<Cat>, q: &[u8], src: IpAddr, tr: Transport, buf: &mut [u8]) -> Response {
    server.handle_message(q, ReceivedInfo::new(src, tr), buf)
}

/// query kinds whose request always carries an OPT record (EDNS version 1)
pub fn forces_edns(kind: &str) -> bool {
    kind.starts_with('v') || kind.starts_with('u')
}
