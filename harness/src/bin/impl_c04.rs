//! C04/C02 runner: `<edns> <their> <catalog> <requesthex>` -> the real server's responses to the SAME
//! request sent over UDP and over TCP: `U <render> ## T <render>` (srvcase::render: fields decoded
//! by the crate's Reader + raw octets).  `<their>` (the requestor's OPT payload size, or `-`) is
//! only read by the oracle.  The server of the previous line is reused when edns and catalog match.
use quandary::server::{ReceivedInfo, Response, Server, Transport};
use qv_harness::srvcase::*;
use qv_harness::*;
use std::net::Ipv4Addr;

fn main() {
    let mut resp_buf = vec![0u8; 65535];
    let mut cached: Option<(String, Server<CatalogImpl>)> = None;
    run_lines(|f| {
        let key = format!("{} {}", f[0], f[2]);
        if cached.as_ref().map(|(k, _)| k.as_str()) != Some(key.as_str()) {
            cached = Some((key, build_server(f[0].parse().unwrap(), f[2], "-")));
        }
        let server = &cached.as_ref().unwrap().1;
        let req = unhex(f[3]);
        let mut out = String::new();
        for (tag, transport) in [("U", Transport::Udp), ("T", Transport::Tcp)] {
            let info = ReceivedInfo::new(Ipv4Addr::LOCALHOST.into(), transport);
            let r = match server.handle_message(&req, info, &mut resp_buf) {
                Response::None => "none".to_string(),
                Response::Single(n) => render(&resp_buf[..n]),
            };
            if !out.is_empty() {
                out.push_str(" ## ");
            }
            out.push_str(tag);
            out.push(' ');
            out.push_str(&r);
        }
        out
    });
}
