//! C18: RDATA validate / read / components. Cases:
//!   `v <class> <type> <hex rdata>`
//!   `r <class> <type> <hex message> <cursor> <rdlength>`
//!   `c <class> <type> <hex rdata>`
use quandary::class::Class;
use quandary::rr::rdata::{Component, Rdata, ReadRdataError};
use quandary::rr::Type;
use qv_harness::*;

fn show_err(e: ReadRdataError) -> String {
    format!("err {e:?}")
}

fn main() {
    run_lines(|f| {
        let op = f[0];
        let class = Class::from(f[1].parse::<u16>().unwrap());
        let rr_type = Type::from(f[2].parse::<u16>().unwrap());
        let buf = unhex(f[3]);
        match op {
            "v" => {
                let rdata: &Rdata = buf.as_slice().try_into().unwrap();
                match rdata.validate(class, rr_type) {
                    Ok(()) => "ok".to_string(),
                    Err(e) => show_err(e),
                }
            }
            "r" => {
                let cursor: usize = f[4].parse().unwrap();
                let rdlength: u16 = f[5].parse().unwrap();
                match Rdata::read(class, rr_type, &buf, cursor, rdlength) {
                    Ok(r) => format!("ok {}", hex(r.octets())),
                    Err(e) => show_err(e),
                }
            }
            "c" => {
                let rdata: &Rdata = buf.as_slice().try_into().unwrap();
                let mut out = Vec::new();
                for comp in rdata.components(class, rr_type) {
                    match comp {
                        Ok(Component::CompressibleName(n)) => out.push(format!("C:{}", hex(n.wire_repr()))),
                        Ok(Component::UncompressibleName(n)) => out.push(format!("U:{}", hex(n.wire_repr()))),
                        Ok(Component::Other(o)) => out.push(format!("O:{}", hex(o))),
                        Err(e) => return show_err(e),
                    }
                }
                format!("ok {}", if out.is_empty() { "-".to_string() } else { out.join(",") })
            }
            _ => panic!("unknown op"),
        }
    });
}
