//! C25: the $INCLUDE stack machine (zone_file::fs::Parser) on a generated file tree.
//! Case: `inc <max_depth> <root> <path>=<line>|<line>|...;<path>=...`  (blanks inside lines as `~`).
//! The tree is written to a scratch directory under the worktree's .build/c25 and removed afterwards.
//! Result: `rec=<path>:<line>:<owner>:<ttl>:<a.b.c.d>;...` then ` end` or ` err=<kind>:<path>:<line>[:...]`,
//! paths relative to the scratch directory, exactly as the parser reports them (not normalised).
use std::path::{Path, PathBuf};
use std::sync::atomic::{AtomicUsize, Ordering};

use quandary::zone_file::fs::error::ErrorKind;
use quandary::zone_file::fs::Parser;
use qv_harness::*;

static COUNTER: AtomicUsize = AtomicUsize::new(0);

fn rel(base: &Path, p: &Path) -> String {
    p.strip_prefix(base).unwrap_or(p).to_string_lossy().into_owned()
}

fn main() {
    let exe = std::env::current_exe().unwrap();
    // .build/target/debug/impl_c25 -> .build/c25
    let scratch_root: PathBuf = exe.parent().unwrap().parent().unwrap().parent().unwrap().join("c25");
    run_lines(|f| {
        let max_depth: usize = f[1].parse().unwrap();
        let root = f[2];
        let dir = scratch_root.join(format!("{}-{}", std::process::id(), COUNTER.fetch_add(1, Ordering::SeqCst)));
        std::fs::create_dir_all(&dir).unwrap();
        for file in f[3].split(';') {
            let (p, body) = file.split_once('=').unwrap();
            let path = dir.join(p);
            std::fs::create_dir_all(path.parent().unwrap()).unwrap();
            let text: String = body.split('|').map(|l| l.replace('~', " ") + "\n").collect();
            std::fs::write(&path, text).unwrap();
        }
        let mut out: Vec<String> = Vec::new();
        let mut end = " end".to_string();
        match Parser::open(dir.join(root), max_depth) {
            Err(_) => end = " err=open".to_string(),
            Ok(parser) => {
                for line in parser {
                    match line {
                        Ok(l) => {
                            let a = l.record.rdata.octets();
                            let addr: Vec<String> = a.iter().map(|b| b.to_string()).collect();
                            out.push(format!(
                                "{}:{}:{}:{}:{}",
                                rel(&dir, &l.path),
                                l.number,
                                l.record.owner,
                                u32::from(l.record.ttl),
                                addr.join(".")
                            ));
                        }
                        Err(e) => {
                            let p = rel(&dir, e.path());
                            end = match e.kind() {
                                ErrorKind::GeneralIo(_) => format!(" err=io:{p}"),
                                ErrorKind::InvalidPath(ip) => format!(" err=invalidpath:{p}:{}", ip.line()),
                                ErrorKind::FailedToOpenInclude(x) => {
                                    format!(" err=open:{p}:{}:{}", x.line(), rel(&dir, x.path()))
                                }
                                ErrorKind::IncludesTooDeep(x) => {
                                    let chain: Vec<String> =
                                        x.chain().iter().map(|(cp, n)| format!("{}@{}", rel(&dir, cp), n)).collect();
                                    format!(" err=toodeep:{p}:{}:{}", x.line(), chain.join(">"))
                                }
                                ErrorKind::Syntax(_) => format!(" err=syntax:{p}"),
                            };
                        }
                    }
                }
            }
        }
        let _ = std::fs::remove_dir_all(&dir);
        format!("rec={}{}", if out.is_empty() { "-".to_string() } else { out.join(";") }, end)
    });
}
