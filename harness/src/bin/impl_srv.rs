//! Server-level runner: `<u|t> <edns> <catalog> <keys> <requesthex>` -> `none` | `resp ...` | `panic`.
use quandary::server::{ReceivedInfo, Response, Transport};
use qv_harness::srvcase::*;
use qv_harness::*;
use std::net::Ipv4Addr;

fn main() {
    let mut resp_buf = vec![0u8; 65535];
    run_lines(|f| {
        let transport = if f[0] == "t" { Transport::Tcp } else { Transport::Udp };
        let edns: u16 = f[1].parse().unwrap();
        let server = build_server(edns, f[2], f[3]);
        let req = unhex(f[4]);
        let info = ReceivedInfo::new(Ipv4Addr::LOCALHOST.into(), transport);
        match server.handle_message(&req, info, &mut resp_buf) {
            Response::None => "none".to_string(),
            Response::Single(n) => render(&resp_buf[..n]),
        }
    });
}
