//! Server-level runner: `<u|t|U|T> <edns> <catalog> <keys> <requesthex>` (U/T: single-entry catalog served through SingleZoneCatalog) -> `none` | `resp ...` | `panic`.
use quandary::server::{ReceivedInfo, Response, Transport};
use qv_harness::srvcase::*;
use qv_harness::*;
use std::net::Ipv4Addr;

fn main() {
    let mut resp_buf = vec![0u8; 65535];
    run_lines(|f| {
        let transport = if f[0].eq_ignore_ascii_case("t") { Transport::Tcp } else { Transport::Udp };
        // an upper-case transport letter: serve the (single-entry) catalog through SingleZoneCatalog
        let single = if f[0] == "T" || f[0] == "U" { build_server_single(f[1].parse().unwrap(), f[2], f[3]) } else { None };
        let edns: u16 = f[1].parse().unwrap();
        let server = build_server(edns, f[2], f[3]);
        let req = unhex(f[4]);
        let info = ReceivedInfo::new(Ipv4Addr::LOCALHOST.into(), transport);
        let r = match &single {
            Some(s1) => s1.handle_message(&req, info, &mut resp_buf),
            None => server.handle_message(&req, info, &mut resp_buf),
        };
        match r {
            Response::None => "none".to_string(),
            Response::Single(n) => render(&resp_buf[..n]),
        }
    });
}
