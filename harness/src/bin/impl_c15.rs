//! C15: message reader. Cases: `<msghex> <op,op,...>`; one outcome per op, each followed by
//! `@<message_to_cursor().len()>`; the sequence stops at the first panic.
use quandary::message::reader::ReadRr;
use quandary::message::Reader;
use quandary::name::Name;
use qv_harness::*;
use std::convert::TryFrom;

fn wire(n: &Name) -> String {
    hex(n.wire_repr())
}

fn show_rr(rr: &ReadRr) -> String {
    format!(
        "rr wire={} type={} class={} ttl={} rdata={}",
        wire(&rr.owner),
        u16::from(rr.rr_type),
        u16::from(rr.class),
        u32::from(rr.ttl),
        hex(rr.rdata.octets())
    )
}

fn b(x: bool) -> u8 {
    x as u8
}

fn main() {
    run_lines(|f| {
        let buf = unhex(f[0]);
        let ops: Vec<&str> = if f.len() > 1 { f[1].split(',').collect() } else { vec![] };
        let mut r = match Reader::try_from(&buf[..]) {
            Ok(r) => r,
            Err(e) => return format!("err {e:?}"),
        };
        let mut out: Vec<String> = Vec::new();
        for op in ops {
            let res = guarded(|| match op {
                "h" => format!(
                    "hdr id={} qr={} aa={} tc={} rd={} ra={} op={} rc={} qd={} an={} ns={} ar={}",
                    r.id(), b(r.qr()), b(r.aa()), b(r.tc()), b(r.rd()), b(r.ra()),
                    u8::from(r.opcode()), u8::from(r.rcode()),
                    r.qdcount(), r.ancount(), r.nscount(), r.arcount()
                ),
                "m" => { r.mark(); "ok".to_string() }
                "w" => { r.rewind(); "ok".to_string() }
                "rq" => match r.read_question() {
                    Ok(q) => format!("q wire={} type={} class={}", wire(&q.qname), u16::from(q.qtype), u16::from(q.qclass)),
                    Err(e) => format!("err {e:?}"),
                },
                "sq" => match r.skip_question() { Ok(()) => "ok".to_string(), Err(e) => format!("err {e:?}") },
                "rr" => match r.read_rr() { Ok(rr) => show_rr(&rr), Err(e) => format!("err {e:?}") },
                "sr" => match r.skip_rr() { Ok(()) => "ok".to_string(), Err(e) => format!("err {e:?}") },
                "pf" => match r.peek_rr() {
                    Ok(mut p) => {
                        let owner = match p.owner() { Ok(n) => wire(n), Err(e) => format!("err {e:?}") };
                        format!("peek type={} class={} ttl={} rdlen={} owner={} msglen={}",
                            u16::from(p.rr_type()), u16::from(p.class()), u32::from(p.ttl()), p.rdlength(),
                            owner, p.message_to_rr().len())
                    }
                    Err(e) => format!("err {e:?}"),
                },
                "ps" => match r.peek_rr() { Ok(p) => { p.skip(); "ok".to_string() } Err(e) => format!("err {e:?}") },
                "pp" => match r.peek_rr() {
                    Ok(p) => match p.parse() { Ok(rr) => show_rr(&rr), Err(e) => format!("err {e:?}") },
                    Err(e) => format!("err {e:?}"),
                },
                "e" => format!("b{}", b(r.at_eom())),
                "mc" => format!("len={}", r.message_to_cursor().len()),
                _ => panic!("unknown op {op}"),
            });
            match res {
                Some(s) => {
                    let cur = guarded(|| r.message_to_cursor().len());
                    match cur {
                        Some(c) => out.push(format!("{s} @{c}")),
                        None => { out.push(format!("{s} @panic")); break; }
                    }
                }
                None => { out.push("panic".to_string()); break; }
            }
        }
        if out.is_empty() { "new".to_string() } else { out.join(" ; ") }
    });
}
