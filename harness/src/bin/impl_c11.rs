//! C11: TSIG digest construction, signing and verification (src/message/tsig.rs,
//! src/rr/rdata/tsig.rs, Writer::finish_with_mac).  Case lines: see checks/c11.py.
//! Trailing fields the runner does not use (the Python HMAC table `pyd`/`pym` and the
//! expectation `X:`) are ignored here; the model runner uses the table.
use std::borrow::Cow;

use quandary::class::Class;
use quandary::message::reader::ReadRr;
use quandary::message::tsig::{Algorithm, PreparedTsigRr, ReadTsigRr};
use quandary::message::writer::{Hint, HintedName, TsigMode};
use quandary::message::{ExtendedRcode, Qtype, Question, Reader, Writer};
use quandary::name::{LowercaseName, Name};
use quandary::rr::rdata::TimeSigned;
use quandary::rr::{Rdata, Ttl, Type};
use qv_harness::*;

fn alg(s: &str) -> Algorithm {
    match s {
        "1" => Algorithm::HmacSha1,
        "256" => Algorithm::HmacSha256,
        _ => panic!("bad algorithm field"),
    }
}

fn ts(s: &str) -> TimeSigned {
    let v = unhex(s);
    let a: [u8; 6] = v.as_slice().try_into().expect("time must be 6 octets");
    TimeSigned::from(a)
}

fn name(s: &str) -> Box<Name> {
    Name::try_from_uncompressed_all(&unhex(s)).expect("case generator produced an invalid name")
}

fn lname(s: &str) -> Box<LowercaseName> {
    name(s).into()
}

fn prepared(f: &[&str]) -> PreparedTsigRr {
    // <keyname> <ts> <fudge> <oid> <err> <server_time>
    PreparedTsigRr {
        key_name: lname(f[0]),
        time_signed: ts(f[1]),
        fudge: f[2].parse().unwrap(),
        original_id: f[3].parse().unwrap(),
        error: ExtendedRcode::from(f[4].parse::<u16>().unwrap()),
        server_time: ts(f[5]),
    }
}

fn show_read(t: &ReadTsigRr) -> String {
    // every accessor separately: an out-of-range slice in one of them is `!`
    let g = |s: Option<String>| s.unwrap_or_else(|| "!".to_string());
    format!(
        "key={} alg={} ts={} fudge={} mac={} oid={} err={} other={}",
        hex(t.key_name().wire_repr()),
        hex(t.algorithm().wire_repr()),
        g(guarded(|| hex(t.time_signed().as_slice()))),
        g(guarded(|| t.fudge().to_string())),
        g(guarded(|| hex(t.mac()))),
        g(guarded(|| t.original_id().to_string())),
        g(guarded(|| u16::from(t.error()).to_string())),
        g(guarded(|| hex(t.other()))),
    )
}

fn read_rr_of(owner: &str, ty: &str, class: &str, ttl: &str, rdata: &[u8]) -> ReadRr<'static> {
    let rd: Box<Rdata> = rdata.to_vec().try_into().expect("rdata too long");
    ReadRr {
        owner: name(owner),
        rr_type: Type::from(ty.parse::<u16>().unwrap()),
        class: Class::from(class.parse::<u16>().unwrap()),
        ttl: Ttl::from(ttl.parse::<u32>().unwrap()),
        rdata: Cow::Owned(rd),
    }
}

fn verify(t: &ReadTsigRr, mode: &str, msg: &[u8], pmac: &[u8], a: Algorithm, key: &[u8], now: TimeSigned) -> String {
    let r = match mode {
        "rq" => t.verify_request(msg, a, key, now),
        "rs" => t.verify_response(msg, pmac, a, key, now),
        "sb" => t.verify_subsequent(msg, pmac, a, key, now),
        _ => panic!("bad mode"),
    };
    match r {
        Ok(()) => "ok".to_string(),
        Err(e) => format!("err {e:?}"),
    }
}

fn main() {
    run_lines(|f| {
        match f[0] {
            // sign <mode> <alg> <key> <pmac> <msg> <keyname> <ts> <fudge> <oid> <err> <st> ...
            "sign" => {
                let a = alg(f[2]);
                let key = unhex(f[3]);
                let pmac = unhex(f[4]);
                let msg = unhex(f[5]);
                let p = prepared(&f[6..12]);
                let (rdata, mac) = match f[1] {
                    "rq" => p.sign_request(&msg, a, &key),
                    "rs" => p.sign_response(&msg, &pmac, a, &key),
                    "sb" => p.sign_subsequent(&msg, &pmac, a, &key),
                    _ => panic!("bad mode"),
                };
                format!("ok rdata={} mac={}", hex(rdata.octets()), hex(&mac))
            }
            // unsg <algname> <keyname> <ts> <fudge> <oid> <err> <st>
            "unsg" => {
                let an = lname(f[1]);
                let p = prepared(&f[2..8]);
                let rdata = p.unsigned(&an);
                format!(
                    "ok rdata={} ulen={} slen1={} slen256={}",
                    hex(rdata.octets()),
                    p.unsigned_len(&an),
                    p.signed_len(Algorithm::HmacSha1),
                    p.signed_len(Algorithm::HmacSha256)
                )
            }
            // read <owner> <type> <class> <ttl> <rdata>
            "read" => {
                let rdata = unhex(f[5]);
                let rr = read_rr_of(f[1], f[2], f[3], f[4], &rdata);
                let val = match rr.rdata.validate_as_tsig() {
                    Ok(()) => "ok".to_string(),
                    Err(e) => format!("{e:?}"),
                };
                let tf = match guarded(|| ReadTsigRr::try_from(rr)) {
                    None => "panic".to_string(),
                    Some(Err(e)) => format!("err {e:?}"),
                    Some(Ok(t)) => {
                        let an = match Algorithm::from_name(t.algorithm()) {
                            Some(Algorithm::HmacSha1) => "1",
                            Some(Algorithm::HmacSha256) => "256",
                            None => "none",
                        };
                        format!("ok {} known={}", show_read(&t), an)
                    }
                };
                format!("val={val} tf={tf}")
            }
            // vfy <mode> <key> <pmac> <now> <msg> <owner> <rdata> ...
            // the caller's part (as in the server): TryFrom, Algorithm::from_name, verify_*
            "vfy" => {
                let key = unhex(f[2]);
                let pmac = unhex(f[3]);
                let now = ts(f[4]);
                let msg = unhex(f[5]);
                let rdata = unhex(f[7]);
                let rr = read_rr_of(f[6], "250", "255", "0", &rdata);
                match ReadTsigRr::try_from(rr) {
                    Err(e) => format!("err tf {e:?}"),
                    Ok(t) => match Algorithm::from_name(t.algorithm()) {
                        None => "err UnknownAlgorithm".to_string(),
                        Some(a) => verify(&t, f[1], &msg, &pmac, a, &key, now),
                    },
                }
            }
            // nfr <error> <now> <fudge> <owner> <rdata>: PreparedTsigRr::new_from_read
            "nfr" => {
                let rdata = unhex(f[5]);
                let rr = read_rr_of(f[4], "250", "255", "0", &rdata);
                let t = ReadTsigRr::try_from(rr).expect("try_from");
                let p = PreparedTsigRr::new_from_read(
                    &t,
                    ts(f[2]),
                    f[3].parse().unwrap(),
                    ExtendedRcode::from(f[1].parse::<u16>().unwrap()),
                );
                format!(
                    "ok key={} ts={} fudge={} oid={} err={} st={}",
                    hex(p.key_name.wire_repr()),
                    hex(p.time_signed.as_slice()),
                    p.fudge,
                    p.original_id,
                    u16::from(p.error),
                    hex(p.server_time.as_slice())
                )
            }
            // wsig <mode> <alg> <key> <pmac> <id> <qr> <qname> <qtype> <rrs> <keyname> <ts> <fudge> <oid> <err> <st> [pre=..]
            // a message built with the real Writer (compression on), TSIG added by set_tsig + finish_with_mac,
            // then read back with the Reader: prefix before the TSIG RR, its owner, RDATA and the returned MAC
            "wsig" => {
                let a = alg(f[2]);
                let key = unhex(f[3]);
                let pmac = unhex(f[4]);
                let mut buf = vec![0u8; 4096];
                let mut w = Writer::try_from(buf.as_mut_slice()).unwrap();
                w.set_id(f[5].parse().unwrap());
                if f[6] == "1" {
                    w.set_qr(true);
                    w.set_aa(true);
                }
                let qname = name(f[7]);
                let q = Question { qname: qname.clone(), qtype: Qtype::from(f[8].parse::<u16>().unwrap()), qclass: Class::IN.into() };
                w.add_question(&q).unwrap();
                if f[9] != "-" {
                    for rr in f[9].split(',') {
                        let p: Vec<&str> = rr.split(':').collect();
                        let rd = unhex(p[1]);
                        let rdata: &Rdata = rd.as_slice().try_into().unwrap();
                        w.add_answer_rr(HintedName::new(Hint::Qname, &qname), Type::from(p[0].parse::<u16>().unwrap()),
                                        Class::IN, Ttl::from(300), rdata, None).unwrap();
                    }
                }
                let p = prepared(&f[10..16]);
                let mode = match f[1] {
                    "rq" => TsigMode::Request { algorithm: a, key: key.clone().into() },
                    "rs" => TsigMode::Response { algorithm: a, request_mac: pmac.clone().into(), key: key.clone().into() },
                    "sb" => TsigMode::Subsequent { algorithm: a, prior_mac: pmac.clone().into(), key: key.clone().into() },
                    "un" => TsigMode::Unsigned { algorithm: a.name().to_owned() },
                    _ => panic!("bad mode"),
                };
                // E=<payload>:<extended rcode>:<0|1> : set_edns (+ set_extended_rcode) before (0) or after (1) set_tsig
                let e = f.iter().find(|x| x.starts_with("E=")).map(|x| &x[2..]).unwrap_or("-");
                let ev: Vec<&str> = if e == "-" { vec![] } else { e.split(':').collect() };
                let set_e = |w: &mut Writer| {
                    w.set_edns(ev[0].parse().unwrap()).unwrap();
                    w.set_extended_rcode(ExtendedRcode::from(ev[1].parse::<u16>().unwrap())).unwrap();
                };
                if !ev.is_empty() && ev[2] == "0" {
                    set_e(&mut w);
                }
                // V=p : after set_tsig the Writer is turned into a Template and a new Writer is made from it with
                //       try_from_template (the TSIG mode must be kept)
                // V=s:<rq|rs|sb>:<mac0> (mode sb only): set_tsig is called in mode <m0> with prior/request MAC <mac0>, the
                //       Writer becomes a Template and the message is continued through
                //       try_from_template_as_tsig_subsequent(template, <pmac>): it must be signed exactly like mode sb
                let v = f.iter().find(|x| x.starts_with("V=")).map(|x| &x[2..]).unwrap_or("-");
                let vv: Vec<&str> = if v == "-" { vec![] } else { v.split(':').collect() };
                let mut buf2 = vec![0u8; 4096];
                let (len, mac, buf) = if vv.is_empty() {
                    w.set_tsig(mode, p).unwrap();
                    if !ev.is_empty() && ev[2] == "1" {
                        set_e(&mut w);
                    }
                    let (len, mac) = w.finish_with_mac();
                    (len, mac, buf)
                } else {
                    let mode0 = if vv[0] == "s" {
                        let m0 = unhex(vv[2]);
                        match vv[1] {
                            "rq" => TsigMode::Request { algorithm: a, key: key.clone().into() },
                            "rs" => TsigMode::Response { algorithm: a, request_mac: m0.into(), key: key.clone().into() },
                            "sb" => TsigMode::Subsequent { algorithm: a, prior_mac: m0.into(), key: key.clone().into() },
                            _ => panic!("bad V mode"),
                        }
                    } else {
                        mode
                    };
                    w.set_tsig(mode0, p).unwrap();
                    let t = w.into_template();
                    let mut w2 = if vv[0] == "s" {
                        Writer::try_from_template_as_tsig_subsequent(buf2.as_mut_slice(), &t, pmac.clone().into()).unwrap()
                    } else {
                        Writer::try_from_template(buf2.as_mut_slice(), &t).unwrap()
                    };
                    if !ev.is_empty() && ev[2] == "1" {
                        set_e(&mut w2);
                    }
                    let (len, mac) = w2.finish_with_mac();
                    (len, mac, buf2)
                };
                let msg = &buf[..len];
                let mut r = Reader::try_from(msg).unwrap();
                for _ in 0..r.qdcount() {
                    r.skip_question().unwrap();
                }
                let n = r.ancount() as usize + r.nscount() as usize + r.arcount() as usize;
                for _ in 0..n - 1 {
                    r.skip_rr().unwrap();
                }
                let pre = r.message_to_cursor();
                let rr = r.read_rr().unwrap();
                assert!(r.at_eom());
                format!(
                    "ok pre={} owner={} type={} class={} ttl={} rdata={} mac={}",
                    hex(pre),
                    // compression may point into the QNAME, whose letter case then shows up in the owner
                    hex(&rr.owner.wire_repr().to_ascii_lowercase()),
                    u16::from(rr.rr_type),
                    u16::from(rr.class),
                    u32::from(rr.ttl),
                    hex(rr.rdata.octets()),
                    mac.map(|m| hex(&m)).unwrap_or_else(|| "none".to_string())
                )
            }
            _ => panic!("unknown op"),
        }
    });
}

#[allow(dead_code)]
fn unused(_: Qtype, _: Question, _: Reader, _: Writer, _: Hint, _: HintedName, _: TsigMode) {}
