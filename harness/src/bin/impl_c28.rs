//! C28: the RRL count under concurrent requests (real OS threads on one `Server`).
//! Case: `<rate> <window> <slip> <size> <kind> <edns> <mode> <seed> <b1,b2,..,bT>`
//!   T = 2..16 threads, thread i handles b_i identical requests of one stream (all three
//!   rates = <rate>); mode: 0 back to back, 1 yield_now() after every request, 2 short
//!   pseudo-random spins, 3 yields at pseudo-random points.  All threads start together
//!   behind a barrier.  The run only counts if it took less than 0.8 s (the whole burst must
//!   fall into one refill second); otherwise it is repeated.
//!   mode 4: FRESH-STREAM ROUNDS.  The same burst is repeated 60 times on one Server, every round from a
//!   fresh /24 (a bucket that does not exist yet), the threads released by a spinning barrier so that their
//!   FIRST requests - the ones that create the bucket - collide; every round must give the same counts
//!   (reported once), otherwise the line is `bad round ...`.
//! Output: `ok sent=<n> limited=<n>` (sent = responses with TC clear; limited = slipped +
//! dropped), `err <RrlParamError>`, `timing` when no repetition was fast enough,
//! `bad <..>` when a response was neither.
#[path = "rrl_common/mod.rs"]
mod rrl_common;
use qv_harness::*;
use rrl_common::*;
use std::net::{IpAddr, Ipv4Addr};
use std::sync::atomic::{AtomicUsize, Ordering};
use std::sync::Barrier;
use std::time::{Duration, Instant};

use quandary::server::{Server, Transport};

const ROUNDS: usize = 60;

fn rounds(rate: u32, window: u32, slip: usize, size: usize, kind: &str, edns: bool, seed: u64, bursts: &[usize], cat: &std::sync::Arc<Cat>) -> String {
    let p = match params(rate, rate, rate, window, slip, size, 24, 56) {
        Ok(p) => p,
        Err(e) => return format!("err {e}"),
    };
    let mut server = Server::new(cat.clone());
    server.set_rrl_params(Some(p));
    if seed % 2 == 1 {
        server.verif_rrl_age(Duration::from_secs(5)); // an old table: every round takes over a slot last touched 5 s ago
    }
    let server = &server;
    let q = query(kind, edns, 0x2828);
    let q = &q;
    let t = bursts.len();
    let go = AtomicUsize::new(0); // number of the round the threads may run
    let done = AtomicUsize::new(0); // threads that finished their burst (cumulative)
    let (sent, slipped, dropped, bad) = (AtomicUsize::new(0), AtomicUsize::new(0), AtomicUsize::new(0), AtomicUsize::new(0));
    let mut results: Vec<(usize, usize, usize, usize)> = Vec::new();
    let mut slow = 0usize;
    std::thread::scope(|sc| {
        for (ti, b) in bursts.iter().enumerate() {
            let (go, done, sent, slipped, dropped, bad) = (&go, &done, &sent, &slipped, &dropped, &bad);
            let b = *b;
            sc.spawn(move || {
                let mut buf = vec![0u8; 4096];
                for round in 1..=ROUNDS {
                    // spin briefly, then yield: the shards of the suite run in parallel, so the machine is oversubscribed
                    let mut spins = 0u32;
                    while go.load(Ordering::Acquire) < round {
                        spins += 1;
                        if spins % 64 == 0 {
                            std::thread::yield_now();
                        } else {
                            std::hint::spin_loop();
                        }
                    }
                    let src = IpAddr::V4(Ipv4Addr::new(10, (round >> 8) as u8, (round & 255) as u8, (ti as u8) + 1));
                    for _ in 0..b {
                        let r = send(server, q, src, Transport::Udp, &mut buf);
                        match classify(&r, &buf, edns).as_str() {
                            "S" => sent.fetch_add(1, Ordering::Relaxed),
                            "T" => slipped.fetch_add(1, Ordering::Relaxed),
                            "-" => dropped.fetch_add(1, Ordering::Relaxed),
                            _ => bad.fetch_add(1, Ordering::Relaxed),
                        };
                    }
                    done.fetch_add(1, Ordering::AcqRel);
                }
            });
        }
        for round in 1..=ROUNDS {
            let start = Instant::now();
            go.store(round, Ordering::Release);
            while done.load(Ordering::Acquire) < round * t {
                std::thread::yield_now();
            }
            if start.elapsed() >= Duration::from_millis(800) {
                slow += 1; // the burst may have straddled a refill second: not counted
                results.push((usize::MAX, 0, 0, 0));
            } else {
                results.push((sent.load(Ordering::Relaxed), slipped.load(Ordering::Relaxed), dropped.load(Ordering::Relaxed), bad.load(Ordering::Relaxed)));
            }
            for a in [&sent, &slipped, &dropped, &bad] {
                a.store(0, Ordering::Relaxed);
            }
        }
    });
    let counted: Vec<&(usize, usize, usize, usize)> = results.iter().filter(|r| r.0 != usize::MAX).collect();
    if counted.len() < ROUNDS / 2 {
        return "timing".to_string();
    }
    let first = *counted[0];
    for (i, r) in counted.iter().enumerate() {
        if r.3 != 0 {
            return format!("bad round {i}: {} responses with TC set and records", r.3);
        }
        if slip == 0 && r.1 != 0 || slip == 1 && r.2 != 0 {
            return format!("bad round {i}: slip={slip} slipped={} dropped={}", r.1, r.2);
        }
        if (r.0, r.1 + r.2) != (first.0, first.1 + first.2) {
            return format!("bad round {i} of a fresh stream: sent={} limited={} but round 0: sent={} limited={}", r.0, r.1 + r.2, first.0, first.1 + first.2);
        }
    }
    let _ = slow;
    format!("ok sent={} limited={}", first.0, first.1 + first.2)
}

fn main() {
    let cat = catalog();
    run_lines(|f| {
        let n = |i: usize| -> u64 { f[i].parse().unwrap() };
        let rate = n(0) as u32;
        let slip = n(2) as usize;
        let kind = f[4];
        let edns = f[5] == "1" || forces_edns(f[4]);
        let mode = n(6);
        let seed = n(7);
        let bursts: Vec<usize> = f[8].split(',').map(|b| b.parse().unwrap()).collect();
        if mode == 4 {
            return rounds(rate, n(1) as u32, slip, n(3) as usize, kind, edns, seed, &bursts, &cat);
        }
        for _attempt in 0..12 {
            let p = match params(rate, rate, rate, n(1) as u32, slip, n(3) as usize, 24, 56) {
                Ok(p) => p,
                Err(e) => return format!("err {e}"),
            };
            let mut server = Server::new(cat.clone());
            server.set_rrl_params(Some(p));
            // two thirds of the runs: the table is NOT brand-new - every slot was last touched 2 s / 1 h ago (as on a
            // server that has been up for a while), so the burst TAKES OVER an old slot instead of a fresh one
            match seed % 3 {
                1 => server.verif_rrl_age(Duration::from_secs(2)),
                2 => server.verif_rrl_age(Duration::from_secs(3600)),
                _ => {}
            }
            let server = &server;
            let q = query(kind, edns, 0x2828);
            let q = &q;
            let barrier = Barrier::new(bursts.len() + 1);
            let (sent, slipped, dropped, bad) =
                (AtomicUsize::new(0), AtomicUsize::new(0), AtomicUsize::new(0), AtomicUsize::new(0));
            let mut start = Instant::now();
            std::thread::scope(|sc| {
                for (ti, b) in bursts.iter().enumerate() {
                    let (barrier, sent, slipped, dropped, bad) = (&barrier, &sent, &slipped, &dropped, &bad);
                    let b = *b;
                    sc.spawn(move || {
                        let mut buf = vec![0u8; 4096];
                        let src = IpAddr::V4(Ipv4Addr::new(192, 0, 2, (ti as u8) + 1)); // one /24: one stream
                        let mut x = seed.wrapping_mul(6364136223846793005).wrapping_add((ti as u64 + 1).wrapping_mul(1442695040888963407));
                        barrier.wait();
                        for _ in 0..b {
                            let r = send(server, q, src, Transport::Udp, &mut buf);
                            match classify(&r, &buf, edns).as_str() {
                                "S" => sent.fetch_add(1, Ordering::Relaxed),
                                "T" => slipped.fetch_add(1, Ordering::Relaxed),
                                "-" => dropped.fetch_add(1, Ordering::Relaxed),
                                _ => bad.fetch_add(1, Ordering::Relaxed),
                            };
                            x = x.wrapping_mul(6364136223846793005).wrapping_add(1442695040888963407);
                            match mode {
                                1 => std::thread::yield_now(),
                                2 => {
                                    for _ in 0..((x >> 33) % 200) {
                                        std::hint::spin_loop();
                                    }
                                }
                                3 => {
                                    if (x >> 33) % 4 == 0 {
                                        std::thread::yield_now();
                                    }
                                }
                                _ => {}
                            }
                        }
                    });
                }
                barrier.wait();
                start = Instant::now();
            }); // all threads are joined here
            let elapsed = start.elapsed();
            if elapsed >= Duration::from_millis(800) {
                continue;
            }
            let (s, t, d, b) = (sent.into_inner(), slipped.into_inner(), dropped.into_inner(), bad.into_inner());
            if b != 0 {
                return format!("bad {b} responses with TC set and records");
            }
            if slip == 0 && t != 0 || slip == 1 && d != 0 {
                return format!("bad slip={slip} slipped={t} dropped={d}");
            }
            return format!("ok sent={s} limited={}", t + d);
        }
        "timing".to_string()
    });
}
