//! C19: RDATA equality and RdataSetOwned de-duplication. Cases:
//!   `e <class> <type> <hex a> <hex b>`            Rdata::equals(a, b)
//!   `l <class> <type> <hex a> <hex b> <hex c>`    the three laws evaluated on the implementation
//!   `s <class> <type> <hex r1>,<hex r2>,...`      RdataSetOwned::from_iter, then iteration order
use quandary::class::Class;
use quandary::rr::rdata::Rdata;
use quandary::rr::{RdataSetOwned, Type};
use qv_harness::*;

fn rd(b: &[u8]) -> &Rdata {
    b.try_into().unwrap()
}

fn main() {
    run_lines(|f| {
        let op = f[0];
        let class = Class::from(f[1].parse::<u16>().unwrap());
        let rr_type = Type::from(f[2].parse::<u16>().unwrap());
        match op {
            "e" => {
                let (a, b) = (unhex(f[3]), unhex(f[4]));
                format!("{}", rd(&a).equals(rd(&b), class, rr_type))
            }
            "l" => {
                let (a, b, c) = (unhex(f[3]), unhex(f[4]), unhex(f[5]));
                let eq = |x: &[u8], y: &[u8]| rd(x).equals(rd(y), class, rr_type);
                let refl = eq(&a, &a) && eq(&b, &b) && eq(&c, &c);
                let sym = eq(&a, &b) == eq(&b, &a) && eq(&b, &c) == eq(&c, &b) && eq(&a, &c) == eq(&c, &a);
                let tr = |x: &[u8], y: &[u8], z: &[u8]| !(eq(x, y) && eq(y, z)) || eq(x, z);
                let trans = tr(&a, &b, &c) && tr(&a, &c, &b) && tr(&b, &a, &c) && tr(&b, &c, &a)
                    && tr(&c, &a, &b) && tr(&c, &b, &a);
                format!("refl={refl} sym={sym} trans={trans} ab={} bc={} ac={}", eq(&a, &b), eq(&b, &c), eq(&a, &c))
            }
            "s" => {
                let items: Vec<Vec<u8>> = if f.len() < 4 || f[3] == "none" {
                    Vec::new()
                } else {
                    f[3].split(',').map(unhex).collect()
                };
                match RdataSetOwned::from_iter(class, rr_type, items.iter().map(|v| rd(v))) {
                    None => "none".to_string(),
                    Some(set) => {
                        let out: Vec<String> = set.iter().map(|r| hex(r.octets())).collect();
                        format!("ok {}", out.join(","))
                    }
                }
            }
            _ => panic!("unknown op"),
        }
    });
}
