//! C24 / C23: the zone-file parser and the std parsers it relies on.
//! Cases: `zf <mode> <hexfile>`, `zfx <mode> <hexfile> <hex of the expected output>` (C23), (mode `w` = Cursor, `b<k>` = a Read that returns at most k octets
//! per call), `zro <mode> <hexfile>` (the same through `Parser::records_only()`), `u8|u16|u32|ip4|ip6|class|type|utf8 <hexstring>`.
use std::io::{self, Cursor, Read};
use std::net::{Ipv4Addr, Ipv6Addr};
use std::num::IntErrorKind;

use quandary::class::Class;
use quandary::name::Name;
use quandary::rr::Type;
use quandary::zone_file::error::{Error, ErrorKind};
use quandary::zone_file::{Line, LineContent, ParsedRr, Parser, RecordsOnly};
use qv_harness::*;

struct Chunked {
    data: Vec<u8>,
    pos: usize,
    k: usize,
}

impl Read for Chunked {
    fn read(&mut self, buf: &mut [u8]) -> io::Result<usize> {
        let n = self.k.min(buf.len()).min(self.data.len() - self.pos);
        buf[..n].copy_from_slice(&self.data[self.pos..self.pos + n]);
        self.pos += n;
        Ok(n)
    }
}

fn int_err(k: &IntErrorKind) -> &'static str {
    match k {
        IntErrorKind::Empty => "Empty",
        IntErrorKind::InvalidDigit => "InvalidDigit",
        IntErrorKind::PosOverflow => "PosOverflow",
        IntErrorKind::NegOverflow => "NegOverflow",
        IntErrorKind::Zero => "Zero",
        _ => "Other",
    }
}

fn sym_err(msg: &str) -> &'static str {
    if msg.starts_with("unknown") {
        "unknown"
    } else {
        "badvalue"
    }
}

fn kind(k: &ErrorKind) -> String {
    match k {
        ErrorKind::BadUtf8(_) => "BadUtf8".to_string(),
        ErrorKind::InvalidClass(m) => format!("InvalidClass:{}", sym_err(m)),
        ErrorKind::InvalidType(m) => format!("InvalidType:{}", sym_err(m)),
        ErrorKind::InvalidInt(e) => format!("InvalidInt:{}", int_err(e.kind())),
        ErrorKind::InvalidRdataLen(e) => format!("InvalidRdataLen:{}", int_err(e.kind())),
        ErrorKind::InvalidTtl(e) => format!("InvalidTtl:{}", int_err(e.kind())),
        ErrorKind::InvalidIpv4(_) => "InvalidIpv4".to_string(),
        ErrorKind::InvalidIpv6(_) => "InvalidIpv6".to_string(),
        ErrorKind::InvalidLabel(e) => format!("InvalidLabel:{e:?}"),
        ErrorKind::InvalidName(e) => format!("InvalidName:{e:?}"),
        other => format!("{other:?}"),
    }
}

fn show_name(n: &Name) -> String {
    format!("{}/{}", hex(n.wire_repr()), n.len())
}

fn show_record(number: usize, r: &ParsedRr) -> String {
    let v = match r.rdata.validate(r.class, r.rr_type) {
        Ok(()) => "ok",
        Err(_) => "bad",
    };
    format!(
        "R{} o={} t={} c={} y={} d={} v={}",
        number,
        show_name(&r.owner),
        u32::from(r.ttl),
        u16::from(r.class),
        u16::from(r.rr_type),
        hex(r.rdata.octets()),
        v
    )
}

fn show_error(e: &Error) -> String {
    match e {
        Error::Syntax(d) => format!("E{}:{} {}", d.line(), d.column(), kind(d.kind())),
        Error::Io(_) => "EIO".to_string(),
    }
}

fn show_item(item: &Result<Line, Error>) -> String {
    match item {
        Ok(line) => match &line.content {
            LineContent::Record(r) => show_record(line.number, r),
            LineContent::Include(i) => format!(
                "I{} p={} o={}",
                line.number,
                hex(&i.path),
                match &i.origin {
                    Some(n) => show_name(n),
                    None => "none".to_string(),
                }
            ),
        },
        Err(e) => show_error(e),
    }
}

fn run_parser<S: Read>(mut p: Parser<S>) -> String {
    let mut out: Vec<String> = Vec::new();
    for item in p.by_ref() {
        out.push(show_item(&item));
    }
    let mut after = 0;
    for _ in 0..3 {
        if p.next().is_some() {
            after += 1;
        }
    }
    out.push(format!("after={after}"));
    out.join(" ; ")
}

/// The records-only iterator: items until the first None, then three more calls.
fn run_records_only<S: Read>(mut p: RecordsOnly<S>) -> String {
    let mut out: Vec<String> = Vec::new();
    for item in p.by_ref() {
        out.push(match &item {
            Ok(l) => show_record(l.number, &l.record),
            Err(e) => show_error(e),
        });
    }
    let mut after = 0;
    for _ in 0..3 {
        if p.next().is_some() {
            after += 1;
        }
    }
    out.push(format!("after={after}"));
    out.join(" ; ")
}

fn run_zro(mode: &str, data: Vec<u8>) -> String {
    if mode == "w" {
        run_records_only(Parser::new(Cursor::new(data)).records_only())
    } else {
        let k: usize = mode[1..].parse().expect("mode");
        run_records_only(Parser::new(Chunked { data, pos: 0, k }).records_only())
    }
}

fn run_zf(mode: &str, data: Vec<u8>) -> String {
    if mode == "w" {
        run_parser(Parser::new(Cursor::new(data)))
    } else {
        let k: usize = mode[1..].parse().expect("mode");
        run_parser(Parser::new(Chunked { data, pos: 0, k }))
    }
}

fn with_str(b: &[u8], f: impl FnOnce(&str) -> String) -> String {
    match std::str::from_utf8(b) {
        Ok(s) => f(s),
        Err(_) => "badutf8".to_string(),
    }
}

fn main() {
    run_lines(|f| {
        let op = f[0];
        match op {
            "zf" | "zfx" | "zrc" => run_zf(f[1], unhex(f[2])),
            "zro" => run_zro(f[1], unhex(f[2])),
            "u8" => with_str(&unhex(f[1]), |s| match s.parse::<u8>() {
                Ok(v) => format!("ok {v}"),
                Err(e) => format!("err {}", int_err(e.kind())),
            }),
            "u16" => with_str(&unhex(f[1]), |s| match s.parse::<u16>() {
                Ok(v) => format!("ok {v}"),
                Err(e) => format!("err {}", int_err(e.kind())),
            }),
            "u32" => with_str(&unhex(f[1]), |s| match s.parse::<u32>() {
                Ok(v) => format!("ok {v}"),
                Err(e) => format!("err {}", int_err(e.kind())),
            }),
            "ip4" => with_str(&unhex(f[1]), |s| match s.parse::<Ipv4Addr>() {
                Ok(v) => format!("ok {}", hex(&v.octets())),
                Err(_) => "err".to_string(),
            }),
            "ip6" => with_str(&unhex(f[1]), |s| match s.parse::<Ipv6Addr>() {
                Ok(v) => format!("ok {}", hex(&v.octets())),
                Err(_) => "err".to_string(),
            }),
            "class" => with_str(&unhex(f[1]), |s| match s.parse::<Class>() {
                Ok(v) => format!("ok {}", u16::from(v)),
                Err(m) => format!("err {}", sym_err(m)),
            }),
            "type" => with_str(&unhex(f[1]), |s| match s.parse::<Type>() {
                Ok(v) => format!("ok {}", u16::from(v)),
                Err(m) => format!("err {}", sym_err(m)),
            }),
            "utf8" => with_str(&unhex(f[1]), |_| "ok".to_string()),
            _ => panic!("unknown op"),
        }
    });
}
