//! C25 (suite `zonefull`): zone_file::fs::Parser on a generated tree of REAL zone files.
//! Case: `incf <max_depth> <hex root path> <hex path>=<hex content>;... <hex flattened text | ->`
//! The tree is written to a scratch directory under the worktree's .build/c25f and removed afterwards.
//! Result: one item per record `<path>:<line> o=<wire>/<labels> t=<ttl> c=<class> y=<type> d=<rdata> v=<ok|bad>`
//! separated by ` ; `, then `end` or `err=<kind>:...`, then ` # flat=<same|diff|err|->`:
//! the flattened text (every $INCLUDE replaced by the included text, the origin switched and
//! restored by $ORIGIN lines; prepared by the generator) parsed by the plain zone_file::Parser must
//! give the same (owner, ttl, class, type, rdata) sequence.
use std::io::Cursor;
use std::num::IntErrorKind;
use std::path::{Path, PathBuf};
use std::sync::atomic::{AtomicUsize, Ordering};

use quandary::name::Name;
use quandary::zone_file::error::ErrorKind as ZKind;
use quandary::zone_file::fs::error::ErrorKind;
use quandary::zone_file::fs::Parser;
use quandary::zone_file::{LineContent, ParsedRr};
use qv_harness::*;

static COUNTER: AtomicUsize = AtomicUsize::new(0);

/// The path as the parser holds it, minus the scratch directory — at the octet level
/// (`Path::strip_prefix` would re-assemble the components and drop trailing `/` and `/.`).
fn rel(base: &Path, p: &Path) -> String {
    use std::os::unix::ffi::OsStrExt;
    let b = base.as_os_str().as_bytes();
    let o = p.as_os_str().as_bytes();
    if o.len() > b.len() && o.starts_with(b) && o[b.len()] == b'/' {
        hex(&o[b.len() + 1..])
    } else {
        hex(o)
    }
}

fn int_err(k: &IntErrorKind) -> &'static str {
    match k {
        IntErrorKind::Empty => "Empty",
        IntErrorKind::InvalidDigit => "InvalidDigit",
        IntErrorKind::PosOverflow => "PosOverflow",
        IntErrorKind::NegOverflow => "NegOverflow",
        IntErrorKind::Zero => "Zero",
        _ => "Other",
    }
}

fn sym_err(msg: &str) -> &'static str {
    if msg.starts_with("unknown") {
        "unknown"
    } else {
        "badvalue"
    }
}

fn kind(k: &ZKind) -> String {
    match k {
        ZKind::BadUtf8(_) => "BadUtf8".to_string(),
        ZKind::InvalidClass(m) => format!("InvalidClass:{}", sym_err(m)),
        ZKind::InvalidType(m) => format!("InvalidType:{}", sym_err(m)),
        ZKind::InvalidInt(e) => format!("InvalidInt:{}", int_err(e.kind())),
        ZKind::InvalidRdataLen(e) => format!("InvalidRdataLen:{}", int_err(e.kind())),
        ZKind::InvalidTtl(e) => format!("InvalidTtl:{}", int_err(e.kind())),
        ZKind::InvalidIpv4(_) => "InvalidIpv4".to_string(),
        ZKind::InvalidIpv6(_) => "InvalidIpv6".to_string(),
        ZKind::InvalidLabel(e) => format!("InvalidLabel:{e:?}"),
        ZKind::InvalidName(e) => format!("InvalidName:{e:?}"),
        other => format!("{other:?}"),
    }
}

fn show_name(n: &Name) -> String {
    format!("{}/{}", hex(n.wire_repr()), n.len())
}

fn show_rr(r: &ParsedRr) -> String {
    let v = match r.rdata.validate(r.class, r.rr_type) {
        Ok(()) => "ok",
        Err(_) => "bad",
    };
    format!(
        "o={} t={} c={} y={} d={} v={}",
        show_name(&r.owner),
        u32::from(r.ttl),
        u16::from(r.class),
        u16::from(r.rr_type),
        hex(r.rdata.octets()),
        v
    )
}

fn main() {
    let exe = std::env::current_exe().unwrap();
    // .build/target/debug/impl_c25f -> .build/c25f
    let scratch_root: PathBuf = exe.parent().unwrap().parent().unwrap().parent().unwrap().join("c25f");
    run_lines(|f| {
        use std::ffi::OsStr;
        use std::os::unix::ffi::OsStrExt;
        let max_depth: usize = f[1].parse().unwrap();
        let root = unhex(f[2]);
        let dir = scratch_root.join(format!("{}-{}", std::process::id(), COUNTER.fetch_add(1, Ordering::SeqCst)));
        std::fs::create_dir_all(&dir).unwrap();
        for file in f[3].split(';') {
            let (p, body) = file.split_once('=').unwrap();
            let p = unhex(p);
            let path = dir.join(Path::new(OsStr::from_bytes(&p)));
            std::fs::create_dir_all(path.parent().unwrap()).unwrap();
            std::fs::write(&path, unhex(body)).unwrap();
        }
        let mut out: Vec<String> = Vec::new();
        let mut recs: Vec<String> = Vec::new();
        let mut end = "end".to_string();
        match Parser::open(dir.join(Path::new(OsStr::from_bytes(&root))), max_depth) {
            Err(_) => end = "err=openroot".to_string(),
            Ok(mut parser) => {
                for line in parser.by_ref() {
                    match line {
                        Ok(l) => {
                            let r = show_rr(&l.record);
                            out.push(format!("{}:{} {}", rel(&dir, &l.path), l.number, r));
                            recs.push(r);
                        }
                        Err(e) => {
                            let p = rel(&dir, e.path());
                            end = match e.kind() {
                                ErrorKind::GeneralIo(_) => format!("err=io:{p}"),
                                ErrorKind::InvalidPath(ip) => format!("err=invalidpath:{p}:{}", ip.line()),
                                ErrorKind::FailedToOpenInclude(x) => {
                                    format!("err=open:{p}:{}:{}", x.line(), rel(&dir, x.path()))
                                }
                                ErrorKind::IncludesTooDeep(x) => {
                                    let chain: Vec<String> =
                                        x.chain().iter().map(|(cp, n)| format!("{}@{}", rel(&dir, cp), n)).collect();
                                    format!("err=toodeep:{p}:{}:{}", x.line(), chain.join(">"))
                                }
                                ErrorKind::Syntax(d) => {
                                    format!("err=syntax:{p}:{}:{}:{}", d.line(), d.column(), kind(d.kind()))
                                }
                            };
                        }
                    }
                }
                // the iterator is exhausted: it must stay so
                let mut after = 0;
                for _ in 0..2 {
                    if parser.next().is_some() {
                        after += 1;
                    }
                }
                if after != 0 {
                    end.push_str(&format!(" after={after}"));
                }
            }
        }
        let _ = std::fs::remove_dir_all(&dir);
        let flat = if f[4] == "-" {
            "-".to_string()
        } else {
            let mut frecs: Vec<String> = Vec::new();
            let mut bad = false;
            for item in quandary::zone_file::Parser::new(Cursor::new(unhex(f[4]))) {
                match item {
                    Ok(line) => match line.content {
                        LineContent::Record(r) => frecs.push(show_rr(&r)),
                        LineContent::Include(_) => bad = true,
                    },
                    Err(_) => bad = true,
                }
            }
            if bad {
                "err".to_string()
            } else if frecs == recs && end == "end" {
                "same".to_string()
            } else {
                "diff".to_string()
            }
        };
        out.push(end);
        format!("{} # flat={}", out.join(" ; "), flat)
    });
}
