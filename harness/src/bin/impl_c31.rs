//! C31: drives the REAL `quandaryd` binary (built from the same source tree) through a history
//! of configuration / zone-file edits with a SIGHUP after each step and probes it over UDP.
//!
//! argv: --daemon <path to quandaryd> --scratch <dir>
//! Case line:  P:<name>/<class>,...   then one field per step:
//!   S:<zone>;<zone>;...    write this configuration and these files, start (first step) or SIGHUP
//!   D:<zone>;...           same, but the configuration is one the daemon must reject (duplicate
//!                          zone): wait for its "Failed to reload" message instead
//!   X:<zone>;...           same with a syntactically broken configuration file
//! <zone> = <name>/<class>/<path id>/<state>, state = ok.<serial>.<mtime> | bad.<mtime> | missing;
//! the first zone of every step is a sentinel zone (renamed by this runner to a name unique to the
//! process, case and step): the new catalog is in place (it is swapped atomically) as soon as the
//! sentinel answers.
//! Output: "ok" + per step "[r1,r2,...]": per probe `<zone>:<serial>` (the SOA of the zone that
//! answered), `servfail` or `refused`.
//!
//! Case line of the KEY-reload scenario (one field):  K:<step>;<step>;...
//!   <step> = `-` (no TSIG key configured) or <key>,<key>,...  with <key> = <name>.<variant>,
//!   name = k1|k2|k3 (any letter case), variant a = (hmac-sha256, secret A of that name),
//!   b = (hmac-sha1, secret A), c = (hmac-sha256, secret B).  A step prefixed with `!` is a
//!   configuration the daemon must reject (the same key name twice): nothing may change.
//! The daemon is started with the step-0 configuration (sentinel zone + zone `kz.` + the keys);
//! every further step rewrites the configuration and SIGHUPs.  `reload_zones_and_keys` installs
//! the catalog first and the key map second, so the sentinel alone does not show that the key
//! map is in place: the runner then SIGHUPs once more with a syntactically broken configuration
//! and waits for the daemon's "Failed to reload" message - signals are handled one after the
//! other, so that message proves the previous reload has RETURNED (and it changes nothing).
//! Then, for every (name, variant) of the universe, one SOA query for `kz.` correctly signed
//! with that name/algorithm/secret (the crate's own Writer, TsigMode::Request, time = now), and
//! one unsigned query.  Per query: `ok` (NOERROR, answer present, response TSIG with error 0
//! and a MAC; unsigned: no TSIG), `badkey` (RCODE 9, TSIG error 17, empty MAC, no answer or
//! authority records), `badsig` (the same with error 16), anything else verbatim.
//! Output: "ok" + per step "[k1a=ok,k1b=badkey,k1c=badsig,...,plain=ok]".
use std::io::{BufRead, BufReader, Write};
use std::net::UdpSocket;
use std::path::{Path, PathBuf};
use std::process::{Child, Command, Stdio};
use std::sync::mpsc::{channel, Receiver};
use std::time::{Duration, Instant, SystemTime};

use quandary::class::Class;
use quandary::message::tsig::{Algorithm, PreparedTsigRr};
use quandary::message::writer::TsigMode;
use quandary::message::{ExtendedRcode, Qclass, Question, Writer};
use quandary::rr::Type;
use qv_harness::*;

const BASE_TIME: u64 = 1_600_000_000;

struct ZoneSpec {
    name: String,
    class: u16,
    path: String,
    state: String,
}

fn parse_zone(s: &str) -> ZoneSpec {
    let p: Vec<&str> = s.split('/').collect();
    ZoneSpec { name: p[0].to_string(), class: p[1].parse().unwrap(), path: p[2].to_string(), state: p[3].to_string() }
}

fn class_text(c: u16) -> &'static str {
    match c {
        1 => "IN",
        3 => "CH",
        4 => "HS",
        _ => panic!("class"),
    }
}

fn set_mtime(p: &Path, mt: u64) {
    let f = std::fs::File::options().write(true).open(p).unwrap();
    f.set_modified(SystemTime::UNIX_EPOCH + Duration::from_secs(BASE_TIME + mt)).unwrap();
}

fn write_step(dir: &Path, zones: &[ZoneSpec], broken: bool, port: u16, keys: &str) {
    let mut cfg = format!(
        "bind = \"127.0.0.1:{port}\"\n[io]\nprovider = \"blocking\"\ntcp_base_workers = 1\nudp_workers_per_socket = 1\n"
    );
    for z in zones {
        cfg.push_str(&format!(
            "[[zones]]\nname = \"{}\"\nclass = \"{}\"\npath = \"z{}\"\n",
            z.name, class_text(z.class), z.path
        ));
        let p = dir.join(format!("z{}", z.path));
        let st: Vec<&str> = z.state.split('.').collect();
        match st[0] {
            "ok" => {
                let c = class_text(z.class);
                std::fs::write(
                    &p,
                    format!(
                        "{n} 3600 {c} SOA ns.invalid. admin.invalid. {s} 3600 600 86400 3600\n{n} 3600 {c} NS ns.invalid.\n{w}",
                        n = z.name, c = c, s = st[1],
                        // every third valid file also carries a validation WARNING (in-zone mail exchanger
                        // without an address): it must still be loaded
                        w = if st[2].parse::<u64>().unwrap() % 3 == 0 { format!("{n} 3600 {c} MX 10 mail.{n}\n", n = z.name, c = c) } else { String::new() }
                    ),
                )
                .unwrap();
                set_mtime(&p, st[2].parse().unwrap());
            }
            "bad" => {
                let mt: u64 = st[1].parse().unwrap();
                if mt % 2 == 0 {
                    std::fs::write(&p, "this is ( not a zone file\n").unwrap();
                } else {
                    // parses, but fails validation (no NS record: an error); every other such file also has a
                    // WARNING (in-zone mail exchanger without an address): an error plus a warning is still a failure
                    let warn = if mt % 4 == 1 { format!("{n} 3600 {c} MX 10 mail.{n}\n", n = z.name, c = class_text(z.class)) } else { String::new() };
                    std::fs::write(
                        &p,
                        format!("{} 3600 {} SOA ns.invalid. admin.invalid. 1 3600 600 86400 3600\n{}", z.name, class_text(z.class), warn),
                    )
                    .unwrap();
                }
                set_mtime(&p, mt);
            }
            "missing" => {
                let _ = std::fs::remove_file(&p);
            }
            _ => panic!("state"),
        }
    }
    cfg.push_str(keys);
    if broken {
        cfg.push_str("[[zones\nthis is not toml\n");
    }
    // write atomically: the daemon reads it only on SIGHUP, but keep it tidy
    let tmp = dir.join("config.toml.tmp");
    std::fs::write(&tmp, cfg).unwrap();
    std::fs::rename(&tmp, dir.join("config.toml")).unwrap();
}

fn encode_name(name: &str) -> Vec<u8> {
    let mut v = Vec::new();
    for l in name.trim_end_matches('.').split('.') {
        if !l.is_empty() {
            v.push(l.len() as u8);
            v.extend_from_slice(l.as_bytes());
        }
    }
    v.push(0);
    v
}

/// Reads a possibly compressed name at `pos`; returns (lower-cased text, position after it).
fn read_name(d: &[u8], mut pos: usize) -> Option<(String, usize)> {
    let mut out = String::new();
    let mut end = None;
    let mut hops = 0;
    loop {
        let l = *d.get(pos)? as usize;
        if l & 0xc0 == 0xc0 {
            let lo = *d.get(pos + 1)? as usize;
            if end.is_none() {
                end = Some(pos + 2);
            }
            pos = ((l & 0x3f) << 8) | lo;
            hops += 1;
            if hops > 64 {
                return None;
            }
        } else if l == 0 {
            if end.is_none() {
                end = Some(pos + 1);
            }
            break;
        } else {
            let lab = d.get(pos + 1..pos + 1 + l)?;
            out.push_str(&String::from_utf8_lossy(lab).to_ascii_lowercase());
            out.push('.');
            pos += 1 + l;
        }
    }
    if out.is_empty() {
        out.push('.');
    }
    Some((out, end.unwrap()))
}

enum Answer {
    Zone(String, u32),
    ServFail,
    Refused,
    Other(String),
}

fn query(sock: &UdpSocket, port: u16, name: &str, class: u16, id: u16) -> Option<Answer> {
    let mut q = vec![(id >> 8) as u8, id as u8, 0, 0, 0, 1, 0, 0, 0, 0, 0, 0];
    q.extend_from_slice(&encode_name(name));
    q.extend_from_slice(&[0, 6, (class >> 8) as u8, class as u8]);
    sock.send_to(&q, ("127.0.0.1", port)).ok()?;
    let mut buf = [0u8; 2048];
    let deadline = Instant::now() + Duration::from_millis(300);
    loop {
        let (n, _) = match sock.recv_from(&mut buf) {
            Ok(x) => x,
            Err(_) => {
                if Instant::now() > deadline {
                    return None;
                }
                continue;
            }
        };
        let d = &buf[..n];
        if n < 12 || d[0] != (id >> 8) as u8 || d[1] != id as u8 {
            continue;
        }
        let rcode = d[3] & 15;
        if rcode == 2 {
            return Some(Answer::ServFail);
        }
        if rcode == 5 {
            return Some(Answer::Refused);
        }
        let an = u16::from_be_bytes([d[6], d[7]]) as usize;
        let ns = u16::from_be_bytes([d[8], d[9]]) as usize;
        let (_, mut pos) = read_name(d, 12)?;
        pos += 4;
        for _ in 0..an + ns {
            let (owner, p) = read_name(d, pos)?;
            let ty = u16::from_be_bytes([*d.get(p)?, *d.get(p + 1)?]);
            let rdlen = u16::from_be_bytes([*d.get(p + 8)?, *d.get(p + 9)?]) as usize;
            let rd = p + 10;
            if ty == 6 {
                let (_, p1) = read_name(d, rd)?;
                let (_, p2) = read_name(d, p1)?;
                let serial = u32::from_be_bytes([*d.get(p2)?, *d.get(p2 + 1)?, *d.get(p2 + 2)?, *d.get(p2 + 3)?]);
                return Some(Answer::Zone(owner, serial));
            }
            pos = rd + rdlen;
        }
        return Some(Answer::Other(format!("rcode{rcode}")));
    }
}

struct Daemon {
    child: Child,
    port: u16,
    stderr: Receiver<String>,
}

impl Drop for Daemon {
    fn drop(&mut self) {
        let _ = self.child.kill();
        let _ = self.child.wait();
    }
}

fn free_port() -> u16 {
    let s = UdpSocket::bind("127.0.0.1:0").unwrap();
    s.local_addr().unwrap().port()
}

fn spawn(daemon: &str, dir: &Path, port: u16) -> Daemon {
    let mut child = Command::new(daemon)
        .args(["run", "--config", "config.toml"])
        .current_dir(dir)
        // the signal loop's own "Received SIGHUP" lines are needed by the barrier of the R steps; every other module stays at `error`
        .env("RUST_LOG", "error,quandaryd::run=info")
        .stdin(Stdio::null())
        .stdout(Stdio::null())
        .stderr(Stdio::piped())
        .spawn()
        .expect("cannot start quandaryd");
    let err = child.stderr.take().unwrap();
    let (tx, rx) = channel();
    std::thread::spawn(move || {
        for line in BufReader::new(err).lines().map_while(Result::ok) {
            if tx.send(line).is_err() {
                break;
            }
        }
    });
    Daemon { child, port, stderr: rx }
}

/// Waits until the sentinel zone answers authoritatively.
fn wait_sentinel(sock: &UdpSocket, d: &mut Daemon, z: &ZoneSpec, id: &mut u16) -> bool {
    let deadline = Instant::now() + Duration::from_secs(8);
    while Instant::now() < deadline {
        *id = id.wrapping_add(1);
        if let Some(Answer::Zone(..)) = query(sock, d.port, &z.name, z.class, *id) {
            // the answer must come from OUR daemon: it has to be alive
            return matches!(d.child.try_wait(), Ok(None));
        }
        if let Ok(Some(_)) = d.child.try_wait() {
            return false;
        }
        std::thread::sleep(Duration::from_millis(1));
    }
    false
}

/// Reads the daemon's log until a line containing one of the two markers arrives: Some(true) for "Received SIGHUP",
/// Some(false) for "Failed to reload zones and keys", None after 20 s.
fn next_marker(d: &mut Daemon) -> Option<bool> {
    let deadline = Instant::now() + Duration::from_secs(20);
    while Instant::now() < deadline {
        match d.stderr.recv_timeout(Duration::from_millis(50)) {
            Ok(l) if l.contains("Received SIGHUP") => return Some(true),
            Ok(l) if l.contains("Failed to reload zones and keys") => return Some(false),
            _ => {}
        }
    }
    None
}

/// A reload that changes NO sentinel (step kind R): the end of the reload is recognised by a barrier - a second SIGHUP with
/// a configuration the daemon rejects. The signal loop is one thread, so the log order decides what happened:
///   Received, Received, Failed         : the first reload ran with the step's configuration and has returned -> true
///   Received, Failed, Received, Failed : the first reload was slow to open the configuration and saw the broken one;
///                                        nothing has changed in the daemon, the step is tried again.
fn reload_with_barrier(d: &mut Daemon, dir: &Path, zones: &[ZoneSpec]) -> bool {
    for _ in 0..6 {
        write_step(dir, zones, false, d.port, "");
        hup(d);
        if next_marker(d) != Some(true) {
            return false;
        }
        // only the configuration file is replaced: the first reload may still be running, and a zone file that is
        // rewritten under it would be seen with the current time as its mtime (and then never be reloaded again)
        let tmp = dir.join("config.toml.tmp");
        std::fs::write(&tmp, "[[zones\nthis is not toml\n").unwrap();
        std::fs::rename(&tmp, dir.join("config.toml")).unwrap();
        let st = Command::new("kill").args(["-HUP", &d.child.id().to_string()]).status();
        assert!(st.map(|s| s.success()).unwrap_or(false), "kill failed");
        match next_marker(d) {
            Some(true) => return next_marker(d) == Some(false),
            Some(false) => {
                if next_marker(d) != Some(true) || next_marker(d) != Some(false) {
                    return false;
                }
            }
            None => return false,
        }
    }
    false
}

fn wait_rejected(d: &mut Daemon) -> bool {
    let deadline = Instant::now() + Duration::from_secs(8);
    while Instant::now() < deadline {
        match d.stderr.recv_timeout(Duration::from_millis(50)) {
            Ok(l) if l.contains("Failed to reload zones and keys") => return true,
            _ => {}
        }
    }
    false
}

// ------------------------------------------------------------------ the key-reload scenario

const KEY_NAMES: [&str; 3] = ["k1", "k2", "k3"];
const VARIANTS: [char; 3] = ['a', 'b', 'c'];

fn key_secret(name: &str, variant: char) -> Vec<u8> {
    let which = if variant == 'c' { "B" } else { "A" };
    format!("secret-{which}-of-{}-0123456789abcdef", name.to_ascii_lowercase()).into_bytes()
}

fn key_algorithm(variant: char) -> Algorithm {
    if variant == 'b' {
        Algorithm::HmacSha1
    } else {
        Algorithm::HmacSha256
    }
}

fn base64(d: &[u8]) -> String {
    const T: &[u8; 64] = b"ABCDEFGHIJKLMNOPQRSTUVWXYZabcdefghijklmnopqrstuvwxyz0123456789+/";
    let mut s = String::new();
    for c in d.chunks(3) {
        let v = (c[0] as u32) << 16 | (*c.get(1).unwrap_or(&0) as u32) << 8 | *c.get(2).unwrap_or(&0) as u32;
        s.push(T[(v >> 18) as usize & 63] as char);
        s.push(T[(v >> 12) as usize & 63] as char);
        s.push(if c.len() > 1 { T[(v >> 6) as usize & 63] as char } else { '=' });
        s.push(if c.len() > 2 { T[v as usize & 63] as char } else { '=' });
    }
    s
}

/// The `[[tsig_keys]]` section for one step (`-` = none).
fn keys_toml(step: &str) -> String {
    let mut t = String::new();
    if step == "-" {
        return t;
    }
    for k in step.split(',') {
        let (name, v) = k.split_once('.').expect("key = name.variant");
        let v = v.chars().next().unwrap();
        t.push_str(&format!(
            "[[tsig_keys]]\nname = \"{name}.\"\nalgorithm = \"{}\"\nsecret = \"{}\"\n",
            if v == 'b' { "hmac-sha1" } else { "hmac-sha256" },
            base64(&key_secret(name, v))
        ));
    }
    t
}

fn soa_query(id: u16, sign: Option<(&str, char)>) -> Vec<u8> {
    let mut buf = vec![0u8; 512];
    let mut w = Writer::new(&mut buf, 512).unwrap();
    w.set_id(id);
    w.add_question(&Question { qname: "kz.".parse().unwrap(), qtype: Type::SOA.into(), qclass: Qclass::from(Class::IN) }).unwrap();
    if let Some((name, v)) = sign {
        let now = SystemTime::now().try_into().unwrap();
        let rr = PreparedTsigRr {
            key_name: format!("{name}.").parse().unwrap(),
            time_signed: now,
            fudge: 300,
            original_id: id,
            error: ExtendedRcode::NOERROR,
            server_time: now,
        };
        w.set_tsig(TsigMode::Request { algorithm: key_algorithm(v), key: key_secret(name, v).into() }, rr).unwrap();
    }
    let n = w.finish();
    buf.truncate(n);
    buf
}

/// (rcode, ancount, nscount, TSIG of the response: (error, MAC length))
fn parse_response(d: &[u8]) -> Option<(u8, usize, usize, Option<(u16, usize)>)> {
    let rcode = d[3] & 15;
    let qd = u16::from_be_bytes([d[4], d[5]]) as usize;
    let an = u16::from_be_bytes([d[6], d[7]]) as usize;
    let ns = u16::from_be_bytes([d[8], d[9]]) as usize;
    let ar = u16::from_be_bytes([d[10], d[11]]) as usize;
    let mut pos = 12;
    for _ in 0..qd {
        pos = read_name(d, pos)?.1 + 4;
    }
    let mut tsig = None;
    for _ in 0..an + ns + ar {
        let (_, p) = read_name(d, pos)?;
        let ty = u16::from_be_bytes([*d.get(p)?, *d.get(p + 1)?]);
        let rdlen = u16::from_be_bytes([*d.get(p + 8)?, *d.get(p + 9)?]) as usize;
        let rd = p + 10;
        if ty == 250 {
            // algorithm name, time signed (6), fudge (2), MAC size (2), MAC, original ID (2), error (2), other len (2)
            let (_, q) = read_name(d, rd)?;
            let mac = u16::from_be_bytes([*d.get(q + 8)?, *d.get(q + 9)?]) as usize;
            let e = q + 10 + mac + 2;
            tsig = Some((u16::from_be_bytes([*d.get(e)?, *d.get(e + 1)?]), mac));
        }
        pos = rd + rdlen;
    }
    if pos != d.len() {
        return None;
    }
    Some((rcode, an, ns, tsig))
}

fn key_probe(sock: &UdpSocket, port: u16, id: u16, sign: Option<(&str, char)>) -> String {
    let q = soa_query(id, sign);
    for _ in 0..25 {      // patient under load, like the zone probes
        if sock.send_to(&q, ("127.0.0.1", port)).is_err() {
            continue;
        }
        let deadline = Instant::now() + Duration::from_millis(400);
        let mut buf = [0u8; 2048];
        while Instant::now() < deadline {
            let n = match sock.recv_from(&mut buf) {
                Ok((n, _)) => n,
                Err(_) => continue,
            };
            let d = &buf[..n];
            if n < 12 || d[0] != (id >> 8) as u8 || d[1] != id as u8 {
                continue;
            }
            return match (parse_response(d), sign.is_some()) {
                (Some((0, an, _, Some((0, mac)))), true) if an > 0 && mac > 0 => "ok".to_string(),
                (Some((0, an, _, None)), false) if an > 0 => "ok".to_string(),
                (Some((9, 0, 0, Some((17, 0)))), true) => "badkey".to_string(),
                (Some((9, 0, 0, Some((16, 0)))), true) => "badsig".to_string(),
                (Some((rc, an, ns, t)), _) => format!(
                    "rcode{rc}/an{an}/ns{ns}/{}",
                    match t {
                        Some((e, m)) => format!("tsig-error{e}-mac{m}"),
                        None => "no-tsig".to_string(),
                    }
                ),
                (None, _) => format!("unparsable:{}", hex(d)),
            };
        }
    }
    "noanswer".to_string()
}

fn hup(dm: &mut Daemon) {
    while dm.stderr.try_recv().is_ok() {}
    let st = Command::new("kill").args(["-HUP", &dm.child.id().to_string()]).status();
    assert!(st.map(|s| s.success()).unwrap_or(false), "kill failed");
}

fn run_keys_case(case: &str, daemon: &str, scratch: &Path, serial: usize) -> String {
    let dir: PathBuf = scratch.join(format!("{}-{}", std::process::id(), serial));
    let _ = std::fs::remove_dir_all(&dir);
    std::fs::create_dir_all(&dir).unwrap();
    let sock = UdpSocket::bind("127.0.0.1:0").unwrap();
    sock.set_read_timeout(Some(Duration::from_millis(20))).unwrap();
    let mut id: u16 = 1;
    let mut out = String::from("ok");
    let mut d: Option<Daemon> = None;
    for (i, step) in case[2..].split(';').enumerate() {
        let (reject, step) = match step.strip_prefix('!') {
            Some(s) => (true, s),
            None => (false, step),
        };
        // sentinel (unique to runner, case and step) + the zone that is queried; its file changes at every step
        let zones = vec![
            ZoneSpec { name: format!("zk{}p{}n{}.", i, std::process::id(), serial), class: 1, path: format!("{}", 900 + i), state: "ok.1.1".to_string() },
            ZoneSpec { name: "kz.".to_string(), class: 1, path: "10".to_string(), state: format!("ok.{}.{}", i + 1, 100 + 2 * i + 1) },
        ];
        let keys = keys_toml(step);
        match d.as_mut() {
            None => {
                assert!(!reject, "the first step must be a valid configuration");
                let mut up = false;
                for _ in 0..4 {
                    let port = free_port();
                    write_step(&dir, &zones, false, port, &keys);
                    let mut dm = spawn(daemon, &dir, port);
                    if wait_sentinel(&sock, &mut dm, &zones[0], &mut id) {
                        d = Some(dm);
                        up = true;
                        break;
                    }
                }
                if !up {
                    return "err daemon-did-not-start".to_string();
                }
            }
            Some(dm) => {
                write_step(&dir, &zones, false, dm.port, &keys);
                hup(dm);
                if reject {
                    if !wait_rejected(dm) {
                        return format!("{out} timeout-waiting-for-rejection");
                    }
                } else {
                    if !wait_sentinel(&sock, dm, &zones[0], &mut id) {
                        return format!("{out} timeout-waiting-for-reload");
                    }
                    // barrier: a second, rejected reload; its error message proves the first one has returned
                    write_step(&dir, &zones, true, dm.port, &keys);
                    hup(dm);
                    if !wait_rejected(dm) {
                        return format!("{out} timeout-waiting-for-barrier");
                    }
                }
            }
        }
        let dm = d.as_mut().unwrap();
        let mut rs = Vec::new();
        for name in KEY_NAMES {
            for v in VARIANTS {
                id = id.wrapping_add(1);
                rs.push(format!("{name}{v}={}", key_probe(&sock, dm.port, id, Some((name, v)))));
            }
        }
        id = id.wrapping_add(1);
        rs.push(format!("plain={}", key_probe(&sock, dm.port, id, None)));
        if !matches!(dm.child.try_wait(), Ok(None)) {
            return format!("{out} daemon-died");
        }
        out.push_str(&format!(" [{}]", rs.join(",")));
    }
    drop(d);
    let _ = std::fs::remove_dir_all(&dir);
    out
}

fn run_case(f: &[&str], daemon: &str, scratch: &Path, serial: usize) -> String {
    if f[0].starts_with("K:") {
        return run_keys_case(f[0], daemon, scratch, serial);
    }
    let dir: PathBuf = scratch.join(format!("{}-{}", std::process::id(), serial));
    let _ = std::fs::remove_dir_all(&dir);
    std::fs::create_dir_all(&dir).unwrap();
    let probes: Vec<(String, u16)> = f[0][2..]
        .split(',')
        .map(|p| {
            let (n, c) = p.split_once('/').unwrap();
            (n.to_string(), c.parse().unwrap())
        })
        .collect();
    let sock = UdpSocket::bind("127.0.0.1:0").unwrap();
    sock.set_read_timeout(Some(Duration::from_millis(20))).unwrap();
    let mut id: u16 = 1;
    let mut out = String::from("ok");
    let mut d: Option<Daemon> = None;
    let mut step_no = 0usize;
    for step in &f[1..] {
        let kind = &step[..1];
        let mut zones: Vec<ZoneSpec> = step[2..].split(';').map(parse_zone).collect();
        // The sentinel gets a name unique to this runner process, case and step, so that no other
        // daemon (another shard that raced for the same port) can ever answer for it. It is not
        // among the probes, so the output does not depend on the renaming.
        // In a step of kind R the sentinel is the previous step's, untouched: nothing but removals happens in it.
        if kind != "R" {
            step_no += 1;
        }
        zones[0].name = format!("zz{}p{}n{}.", step_no, std::process::id(), serial);
        match d.as_mut() {
            None => {
                assert!(kind == "S", "the first step must be a valid configuration");
                let mut up = false;
                for _ in 0..4 {
                    let port = free_port();
                    write_step(&dir, &zones, false, port, "");
                    let mut dm = spawn(daemon, &dir, port);
                    if wait_sentinel(&sock, &mut dm, &zones[0], &mut id) {
                        d = Some(dm);
                        up = true;
                        break;
                    }
                }
                if !up {
                    return "err daemon-did-not-start".to_string();
                }
            }
            Some(dm) if kind == "R" => {
                if !reload_with_barrier(dm, &dir, &zones) {
                    return format!("{out} timeout-waiting-for-barrier");
                }
            }
            Some(dm) => {
                write_step(&dir, &zones, kind == "X", dm.port, "");
                hup(dm);
                // every SIGHUP's own "Received SIGHUP" line is consumed here, so that the log reader can never hand a
                // stale one to the barrier of a later R step
                if next_marker(dm) != Some(true) {
                    return format!("{out} timeout-waiting-for-sighup-log");
                }
                let done = if kind == "S" { wait_sentinel(&sock, dm, &zones[0], &mut id) } else { wait_rejected(dm) };
                if !done {
                    return format!("{out} timeout-waiting-for-reload");
                }
            }
        }
        let dm = d.as_mut().unwrap();
        let mut rs = Vec::new();
        for (n, c) in &probes {
            id = id.wrapping_add(1);
            let mut a = None;
            // a probe that is not answered is repeated for about ten seconds: on a heavily loaded machine the daemon (one UDP
            // worker) can be descheduled for longer than one 300 ms wait; a daemon that really does not answer still ends as `noanswer`
            for _ in 0..30 {
                a = query(&sock, dm.port, n, *c, id);
                if a.is_some() {
                    break;
                }
            }
            rs.push(match a {
                Some(Answer::Zone(z, s)) => format!("{z}:{s}"),
                Some(Answer::ServFail) => "servfail".to_string(),
                Some(Answer::Refused) => "refused".to_string(),
                Some(Answer::Other(s)) => s,
                None => "noanswer".to_string(),
            });
        }
        out.push_str(&format!(" [{}]", rs.join(",")));
    }
    drop(d);
    let _ = std::fs::remove_dir_all(&dir);
    out
}

fn main() {
    let args: Vec<String> = std::env::args().collect();
    let mut daemon = String::new();
    let mut scratch = std::env::temp_dir().join("qv-c31");
    let mut i = 1;
    while i + 1 < args.len() {
        match args[i].as_str() {
            "--daemon" => daemon = args[i + 1].clone(),
            "--scratch" => scratch = PathBuf::from(&args[i + 1]),
            _ => {}
        }
        i += 2;
    }
    assert!(!daemon.is_empty(), "--daemon <path> required");
    let mut serial = 0;
    run_lines(|f| {
        serial += 1;
        run_case(f, &daemon, &scratch, serial)
    });
    let _ = std::io::stdout().flush();
}
