//! C16: name text form, equality/ordering/hash, subdomain/superdomain, label access, lowercasing,
//! NameBuilder.  Case lines (see ocaml/run_c16.ml for the model side):
//!   txt <hex utf8>            Box<Name>::from_str
//!   ltxt <hex utf8>           Box<LowercaseName>::from_str
//!   disp <wire>               Name Display, parsed back
//!   ldisp <hex label>         Label Display (via TryFrom<&[u8]>)
//!   cmp <wireA> <wireB>       ==, cmp, eq_or_subdomain_of (both ways), hash equality
//!   lcmp <hexA> <hexB>        Label ==, cmp, hash equality
//!   sup <wire> <skip>         superdomain
//!   lab <wire> <i>            Index<usize>
//!   low <wire>                make_ascii_lowercase / LowercaseName::from
//!   misc <wire> <n>           len, is_root, is_wildcard, wire_repr_to(n), wire_repr_from(n)
//!   bld <op,op,...>           NameBuilder script: pXX push, s<hex> push slice, n next_label, q is_fully_qualified,
//!                             f finish, x<wire> finish_with_suffix
use std::collections::hash_map::DefaultHasher;
use std::hash::{Hash, Hasher};

use quandary::name::{Label, LabelBuf, LowercaseName, Name, NameBuilder};
use qv_harness::*;

fn show_name(n: &Name) -> String {
    let labels: Vec<String> = n.labels().map(|l| hex(l.octets())).collect();
    format!("wire={} labels={}", hex(n.wire_repr()), labels.join(","))
}

fn name(h: &str) -> Box<Name> {
    Name::try_from_uncompressed_all(&unhex(h)).expect("case must carry a valid uncompressed name")
}

fn hash_of<T: Hash + ?Sized>(x: &T) -> u64 {
    let mut h = DefaultHasher::new();
    x.hash(&mut h);
    h.finish()
}

fn ord(o: std::cmp::Ordering) -> &'static str {
    match o {
        std::cmp::Ordering::Less => "lt",
        std::cmp::Ordering::Equal => "eq",
        std::cmp::Ordering::Greater => "gt",
    }
}

fn main() {
    run_lines(|f| match f[0] {
        "txt" => {
            let s = String::from_utf8(unhex(f[1])).expect("utf8");
            match s.parse::<Box<Name>>() {
                Ok(n) => format!("ok {}", show_name(&n)),
                Err(e) => format!("err {e:?}"),
            }
        }
        "ltxt" => {
            let s = String::from_utf8(unhex(f[1])).expect("utf8");
            match s.parse::<Box<LowercaseName>>() {
                Ok(n) => format!("ok {}", show_name(&n)),
                Err(e) => format!("err {e:?}"),
            }
        }
        "disp" => {
            let n = name(f[1]);
            let s = n.to_string();
            let back = match s.parse::<Box<Name>>() {
                Ok(m) => format!("ok wire={}", hex(m.wire_repr())),
                Err(e) => format!("err {e:?}"),
            };
            format!("ok {} back={}", hex(s.as_bytes()), back)
        }
        "ldisp" => {
            let o = unhex(f[1]);
            match <&Label>::try_from(&o[..]) {
                Ok(l) => format!("ok {}", hex(l.to_string().as_bytes())),
                Err(e) => format!("err {e:?}"),
            }
        }
        "cmp" => {
            let a = name(f[1]);
            let b = name(f[2]);
            format!(
                "ok eq={} cmp={} sub={} bus={} hash_eq={}",
                (a == b) as u8,
                ord(a.cmp(&b)),
                a.eq_or_subdomain_of(&b) as u8,
                b.eq_or_subdomain_of(&a) as u8,
                (hash_of(&*a) == hash_of(&*b)) as u8
            )
        }
        "lcmp" => {
            let (oa, ob) = (unhex(f[1]), unhex(f[2]));
            match (LabelBuf::try_from(&oa[..]), <&Label>::try_from(&ob[..])) {
                (Ok(a), Ok(b)) => format!(
                    "ok eq={} cmp={} hash_eq={}",
                    (&*a == b) as u8,
                    ord((*a).cmp(b)),
                    (hash_of(&*a) == hash_of(b)) as u8
                ),
                (Err(e), _) | (_, Err(e)) => format!("err {e:?}"),
            }
        }
        "sup" => {
            let n = name(f[1]);
            match n.superdomain(f[2].parse().unwrap()) {
                Some(s) => format!("ok {}", show_name(&s)),
                None => "ok none".to_string(),
            }
        }
        "lab" => {
            let n = name(f[1]);
            let i: usize = f[2].parse().unwrap();
            let l = &n[i];
            format!("ok {} len={} null={}", hex(l.octets()), l.len(), l.is_null() as u8)
        }
        "low" => {
            let mut n = name(f[1]);
            let l: Box<LowercaseName> = n.clone().into();
            n.make_ascii_lowercase();
            let same = n.wire_repr() == l.wire_repr() && n.labels().eq(l.labels());
            format!("ok {} lcn_same={}", show_name(&n), same as u8)
        }
        "misc" => {
            let n = name(f[1]);
            let k: usize = f[2].parse().unwrap();
            format!(
                "ok len={} root={} wild={} to={} from={}",
                n.len(),
                n.is_root() as u8,
                n.is_wildcard() as u8,
                hex(n.wire_repr_to(k)),
                hex(n.wire_repr_from(k))
            )
        }
        "bld" => {
            let mut b = NameBuilder::new();
            let mut out: Vec<String> = Vec::new();
            for op in f[1].split(',') {
                let (c, arg) = op.split_at(1);
                let r = match c {
                    "p" => b.try_push(unhex(arg)[0]).map(|_| "ok".to_string()),
                    "s" => b.try_push_slice(&unhex(arg)).map(|_| "ok".to_string()),
                    "n" => b.next_label().map(|_| "ok".to_string()),
                    "q" => Ok(format!("fq{}", b.is_fully_qualified() as u8)),
                    "f" => {
                        out.push(match b.finish() {
                            Ok(n) => format!("fin:{}", show_name(&n)),
                            Err(e) => format!("E:{e:?}"),
                        });
                        break;
                    }
                    "x" => {
                        let suffix = name(arg);
                        out.push(match b.finish_with_suffix(&suffix) {
                            Ok(n) => format!("fin:{}", show_name(&n)),
                            Err(e) => format!("E:{e:?}"),
                        });
                        break;
                    }
                    _ => panic!("bad builder op"),
                };
                out.push(match r {
                    Ok(s) => s,
                    Err(e) => format!("E:{e:?}"),
                });
            }
            format!("ok {}", out.join(";"))
        }
        _ => panic!("unknown op"),
    });
}
