//! C10: the server's TSIG handling, driven through the real `Server::handle_message`.
//!
//! Case line (see checks/c10.py):
//!   srv <u|t> K=<name:alg:secret,...> salg=<1|256> sk=<hex> off=<int> req=<hex> tp=<n> mp=<n> ml=<n>
//!       dig=<hex> dtp=<n> flip=<pos:xor|-> ureq=<hex> ...
//! The request is signed HERE, at run time, because the server reads SystemTime::now(): the time
//! signed is `now + off`, written into the request template (`tp`) and into the digest template
//! (`dtp`, the RFC 8945 digest input built by the Python signer), the MAC is HMAC(sk, digest)
//! computed by the SHA-1/SHA-256/HMAC implementation in this file (written from FIPS 180-4 / RFC 2104,
//! independent of the crates quandary uses), truncated/padded to `ml` octets and written at `mp`.
//! The clock is sampled before and after the call; a case that straddles a second boundary is redone.
//! The response is analysed with a parser and an RFC 8945 response-digest computation of this file.
use std::net::Ipv4Addr;
use std::sync::Arc;
use std::time::{SystemTime, UNIX_EPOCH};

use quandary::class::Class;
use quandary::db::catalog::Entry;
use quandary::db::zone::GluePolicy;
use quandary::db::{HashMapTreeCatalog, HashMapTreeZone};
use quandary::message::tsig::Algorithm;
use quandary::name::Name;
use quandary::rr::{Rdata, Ttl, Type};
use quandary::server::{ReceivedInfo, Response, Server, TsigKeyMap, Transport};
use qv_harness::*;

// ------------------------------------------------------------------ SHA-1, SHA-256, HMAC

fn sha1(data: &[u8]) -> Vec<u8> {
    let mut h: [u32; 5] = [0x67452301, 0xEFCDAB89, 0x98BADCFE, 0x10325476, 0xC3D2E1F0];
    let mut m = data.to_vec();
    let bitlen = (data.len() as u64).wrapping_mul(8);
    m.push(0x80);
    while m.len() % 64 != 56 {
        m.push(0);
    }
    m.extend_from_slice(&bitlen.to_be_bytes());
    for chunk in m.chunks(64) {
        let mut w = [0u32; 80];
        for i in 0..16 {
            w[i] = u32::from_be_bytes([chunk[4 * i], chunk[4 * i + 1], chunk[4 * i + 2], chunk[4 * i + 3]]);
        }
        for i in 16..80 {
            w[i] = (w[i - 3] ^ w[i - 8] ^ w[i - 14] ^ w[i - 16]).rotate_left(1);
        }
        let (mut a, mut b, mut c, mut d, mut e) = (h[0], h[1], h[2], h[3], h[4]);
        for i in 0..80 {
            let (f, k) = match i {
                0..=19 => ((b & c) | (!b & d), 0x5A827999u32),
                20..=39 => (b ^ c ^ d, 0x6ED9EBA1),
                40..=59 => ((b & c) | (b & d) | (c & d), 0x8F1BBCDC),
                _ => (b ^ c ^ d, 0xCA62C1D6),
            };
            let t = a.rotate_left(5).wrapping_add(f).wrapping_add(e).wrapping_add(k).wrapping_add(w[i]);
            e = d;
            d = c;
            c = b.rotate_left(30);
            b = a;
            a = t;
        }
        h[0] = h[0].wrapping_add(a);
        h[1] = h[1].wrapping_add(b);
        h[2] = h[2].wrapping_add(c);
        h[3] = h[3].wrapping_add(d);
        h[4] = h[4].wrapping_add(e);
    }
    h.iter().flat_map(|x| x.to_be_bytes()).collect()
}

const K256: [u32; 64] = [
    0x428a2f98, 0x71374491, 0xb5c0fbcf, 0xe9b5dba5, 0x3956c25b, 0x59f111f1, 0x923f82a4, 0xab1c5ed5, 0xd807aa98, 0x12835b01,
    0x243185be, 0x550c7dc3, 0x72be5d74, 0x80deb1fe, 0x9bdc06a7, 0xc19bf174, 0xe49b69c1, 0xefbe4786, 0x0fc19dc6, 0x240ca1cc,
    0x2de92c6f, 0x4a7484aa, 0x5cb0a9dc, 0x76f988da, 0x983e5152, 0xa831c66d, 0xb00327c8, 0xbf597fc7, 0xc6e00bf3, 0xd5a79147,
    0x06ca6351, 0x14292967, 0x27b70a85, 0x2e1b2138, 0x4d2c6dfc, 0x53380d13, 0x650a7354, 0x766a0abb, 0x81c2c92e, 0x92722c85,
    0xa2bfe8a1, 0xa81a664b, 0xc24b8b70, 0xc76c51a3, 0xd192e819, 0xd6990624, 0xf40e3585, 0x106aa070, 0x19a4c116, 0x1e376c08,
    0x2748774c, 0x34b0bcb5, 0x391c0cb3, 0x4ed8aa4a, 0x5b9cca4f, 0x682e6ff3, 0x748f82ee, 0x78a5636f, 0x84c87814, 0x8cc70208,
    0x90befffa, 0xa4506ceb, 0xbef9a3f7, 0xc67178f2,
];

fn sha256(data: &[u8]) -> Vec<u8> {
    let mut h: [u32; 8] = [
        0x6a09e667, 0xbb67ae85, 0x3c6ef372, 0xa54ff53a, 0x510e527f, 0x9b05688c, 0x1f83d9ab, 0x5be0cd19,
    ];
    let mut m = data.to_vec();
    let bitlen = (data.len() as u64).wrapping_mul(8);
    m.push(0x80);
    while m.len() % 64 != 56 {
        m.push(0);
    }
    m.extend_from_slice(&bitlen.to_be_bytes());
    for chunk in m.chunks(64) {
        let mut w = [0u32; 64];
        for i in 0..16 {
            w[i] = u32::from_be_bytes([chunk[4 * i], chunk[4 * i + 1], chunk[4 * i + 2], chunk[4 * i + 3]]);
        }
        for i in 16..64 {
            let s0 = w[i - 15].rotate_right(7) ^ w[i - 15].rotate_right(18) ^ (w[i - 15] >> 3);
            let s1 = w[i - 2].rotate_right(17) ^ w[i - 2].rotate_right(19) ^ (w[i - 2] >> 10);
            w[i] = w[i - 16].wrapping_add(s0).wrapping_add(w[i - 7]).wrapping_add(s1);
        }
        let mut v = h;
        for i in 0..64 {
            let s1 = v[4].rotate_right(6) ^ v[4].rotate_right(11) ^ v[4].rotate_right(25);
            let ch = (v[4] & v[5]) ^ (!v[4] & v[6]);
            let t1 = v[7].wrapping_add(s1).wrapping_add(ch).wrapping_add(K256[i]).wrapping_add(w[i]);
            let s0 = v[0].rotate_right(2) ^ v[0].rotate_right(13) ^ v[0].rotate_right(22);
            let maj = (v[0] & v[1]) ^ (v[0] & v[2]) ^ (v[1] & v[2]);
            let t2 = s0.wrapping_add(maj);
            v[7] = v[6];
            v[6] = v[5];
            v[5] = v[4];
            v[4] = v[3].wrapping_add(t1);
            v[3] = v[2];
            v[2] = v[1];
            v[1] = v[0];
            v[0] = t1.wrapping_add(t2);
        }
        for i in 0..8 {
            h[i] = h[i].wrapping_add(v[i]);
        }
    }
    h.iter().flat_map(|x| x.to_be_bytes()).collect()
}

fn hmac(alg: &str, key: &[u8], data: &[u8]) -> Vec<u8> {
    let hash: fn(&[u8]) -> Vec<u8> = if alg == "1" { sha1 } else { sha256 };
    let mut k = if key.len() > 64 { hash(key) } else { key.to_vec() };
    k.resize(64, 0);
    let mut inner: Vec<u8> = k.iter().map(|b| b ^ 0x36).collect();
    inner.extend_from_slice(data);
    let mut outer: Vec<u8> = k.iter().map(|b| b ^ 0x5c).collect();
    outer.extend_from_slice(&hash(&inner));
    hash(&outer)
}

// ------------------------------------------------------------------ a small response parser

fn skip_name(b: &[u8], mut i: usize) -> Option<usize> {
    loop {
        let l = *b.get(i)? as usize;
        if l & 0xc0 == 0xc0 {
            return if i + 2 <= b.len() { Some(i + 2) } else { None };
        }
        if l == 0 {
            return Some(i + 1);
        }
        i += 1 + l;
    }
}

fn expand_name(b: &[u8], mut i: usize) -> Option<Vec<u8>> {
    let mut out = Vec::new();
    let mut hops = 0;
    loop {
        let l = *b.get(i)? as usize;
        if l & 0xc0 == 0xc0 {
            i = ((l & 0x3f) << 8) | (*b.get(i + 1)? as usize);
            hops += 1;
            if hops > 100 {
                return None;
            }
            continue;
        }
        out.push(l as u8);
        if l == 0 {
            return Some(out);
        }
        out.extend_from_slice(b.get(i + 1..i + 1 + l)?);
        i += 1 + l;
    }
}

fn be16(b: &[u8], i: usize) -> usize {
    ((b[i] as usize) << 8) | b[i + 1] as usize
}

struct Parsed {
    last_rr_start: usize,
    last_type: usize,
    last_owner: Vec<u8>,
    last_rdata: Vec<u8>,
    an: usize,
    ns: usize,
    ar: usize,
    n_opt: usize,
}

fn parse(b: &[u8]) -> Option<Parsed> {
    if b.len() < 12 {
        return None;
    }
    let (qd, an, ns, ar) = (be16(b, 4), be16(b, 6), be16(b, 8), be16(b, 10));
    let mut i = 12;
    for _ in 0..qd {
        i = skip_name(b, i)? + 4;
    }
    let mut p = Parsed { last_rr_start: 0, last_type: 0, last_owner: vec![], last_rdata: vec![], an, ns, ar, n_opt: 0 };
    for _ in 0..an + ns + ar {
        let start = i;
        let e = skip_name(b, i)?;
        if e + 10 > b.len() {
            return None;
        }
        let rdl = be16(b, e + 8);
        if e + 10 + rdl > b.len() {
            return None;
        }
        p.last_rr_start = start;
        p.last_type = be16(b, e);
        if p.last_type == 41 {
            p.n_opt += 1;
        }
        p.last_owner = expand_name(b, start)?;
        p.last_rdata = b[e + 10..e + 10 + rdl].to_vec();
        i = e + 10 + rdl;
    }
    if i != b.len() {
        return None;
    }
    Some(p)
}

fn lower(b: &[u8]) -> Vec<u8> {
    b.to_ascii_lowercase()
}

fn field<'a>(f: &[&'a str], pre: &str) -> &'a str {
    f.iter().find(|s| s.starts_with(pre)).map(|s| &s[pre.len()..]).unwrap_or_else(|| panic!("missing field {pre}"))
}

fn now_secs() -> u64 {
    SystemTime::now().duration_since(UNIX_EPOCH).unwrap().as_secs()
}

fn u48(n: u64) -> [u8; 6] {
    let b = n.to_be_bytes();
    [b[2], b[3], b[4], b[5], b[6], b[7]]
}

fn main() {
    // one zone: quandary.test. with an SOA
    let apex: Box<Name> = "quandary.test.".parse().unwrap();
    let mut zone = HashMapTreeZone::new(apex.clone(), Class::IN, GluePolicy::Narrow);
    let soa = <&Rdata>::try_from(&[0u8; 22]).unwrap();
    zone.add(&apex, Type::SOA, Class::IN, Ttl::from(3600), soa).unwrap();
    let mut catalog: HashMapTreeCatalog<HashMapTreeZone, ()> = HashMapTreeCatalog::new();
    catalog.insert(Entry::Loaded(Arc::new(zone), ()));
    let server = Server::new(Arc::new(catalog));

    run_lines(|f| {
        assert_eq!(f[0], "srv");
        let transport = if f[1] == "u" { Transport::Udp } else { Transport::Tcp };
        let mut keys = TsigKeyMap::new();
        let mut keylist: Vec<(Vec<u8>, String, Vec<u8>)> = Vec::new();
        let kf = field(f, "K=");
        if kf != "-" {
            for ent in kf.split(',') {
                let p: Vec<&str> = ent.split(':').collect();
                let name = Name::try_from_uncompressed_all(&unhex(p[0])).unwrap();
                let alg = if p[1] == "1" { Algorithm::HmacSha1 } else { Algorithm::HmacSha256 };
                keylist.push((lower(&unhex(p[0])), p[1].to_string(), unhex(p[2])));
                keys.insert(name, (alg, unhex(p[2]).into_boxed_slice()));
            }
        }
        server.set_tsig_keys(Arc::new(keys));
        let salg = field(f, "salg=");
        let sk = unhex(field(f, "sk="));
        let off: i64 = field(f, "off=").parse().unwrap();
        let req0 = unhex(field(f, "req="));
        let tp: usize = field(f, "tp=").parse().unwrap();
        let mp: usize = field(f, "mp=").parse().unwrap();
        let ml: usize = field(f, "ml=").parse().unwrap();
        let dig0 = unhex(field(f, "dig="));
        let dtp: usize = field(f, "dtp=").parse().unwrap();
        let flip = field(f, "flip=");
        let mut ureq = unhex(field(f, "ureq="));

        let mut result = String::from("clock");
        for _attempt in 0..5 {
            let now0 = now_secs();
            let ts = (now0 as i64 + off).max(0) as u64;
            let mut req = req0.clone();
            let mut dig = dig0.clone();
            req[tp..tp + 6].copy_from_slice(&u48(ts));
            dig[dtp..dtp + 6].copy_from_slice(&u48(ts));
            let full = hmac(salg, &sk, &dig);
            let mut mac = full.clone();
            mac.resize(ml, 0);
            req[mp..mp + ml].copy_from_slice(&mac);
            let reqmac = mac.clone();
            if flip != "-" {
                for fl in flip.split(',') {
                    let p: Vec<&str> = fl.split(':').collect();
                    let pos: usize = p[0].parse().unwrap();
                    req[pos] ^= p[1].parse::<u8>().unwrap();
                }
            }
            // the MAC field as received (a flip may have hit it)
            let reqmac_recv = req[mp..mp + ml].to_vec();
            let _ = reqmac;
            let mut buf = vec![0u8; 65535];
            let info = ReceivedInfo::new(Ipv4Addr::LOCALHOST.into(), transport);
            let resp = match server.handle_message(&req, info, &mut buf) {
                Response::Single(n) => buf[..n].to_vec(),
                Response::None => {
                    result = "none".to_string();
                    if now_secs() == now0 {
                        break;
                    } else {
                        continue;
                    }
                }
            };
            if now_secs() != now0 {
                continue;
            }
            // the same query without TSIG (same ID), for "answered normally"
            ureq[0] = req[0];
            ureq[1] = req[1];
            let mut ubuf = vec![0u8; 65535];
            let info = ReceivedInfo::new(Ipv4Addr::LOCALHOST.into(), transport);
            let uresp = match server.handle_message(&ureq, info, &mut ubuf) {
                Response::Single(n) => ubuf[..n].to_vec(),
                Response::None => vec![],
            };
            let p = match parse(&resp) {
                Some(p) => p,
                None => {
                    result = format!("unparseable {}", hex(&resp));
                    break;
                }
            };
            let rcode = resp[3] & 0x0f;
            let tc = (resp[2] >> 1) & 1;
            let has_tsig = p.ar > 0 && p.last_type == 250;
            // answer data: anything but the OPT and TSIG pseudo-RRs
            let ar_other = p.ar - has_tsig as usize - p.n_opt;
            let answer = (p.an + p.ns + ar_other > 0) as u8;
            let mut line = format!("rcode={rcode} tc={tc} answer={answer}");
            if !has_tsig {
                let same = (resp == uresp) as u8;
                line += &format!(" same={same} tsig=-");
                result = line;
                break;
            }
            // the response without its TSIG RR, ARCOUNT decremented
            let mut stripped = resp[..p.last_rr_start].to_vec();
            let arc = (p.ar - 1) as u16;
            stripped[10..12].copy_from_slice(&arc.to_be_bytes());
            let same = (stripped == uresp) as u8;
            // TSIG RDATA (RFC 8945 4.2)
            let rd = &p.last_rdata;
            let alg_end = skip_name(rd, 0).unwrap();
            let algname = rd[..alg_end].to_vec();
            let rts = &rd[alg_end..alg_end + 6];
            let fudge = be16(rd, alg_end + 6);
            let msz = be16(rd, alg_end + 8);
            let rmac = &rd[alg_end + 10..alg_end + 10 + msz];
            let q = alg_end + 10 + msz;
            let oid = be16(rd, q);
            let err = be16(rd, q + 2);
            let olen = be16(rd, q + 4);
            let other = &rd[q + 6..q + 6 + olen];
            assert_eq!(q + 6 + olen, rd.len());
            let tsname = if rts == u48(now0) {
                "now".to_string()
            } else if rts == u48(ts) {
                "req".to_string()
            } else {
                hex(rts)
            };
            let oname = if other.is_empty() {
                "-".to_string()
            } else if other == u48(now0) {
                "now".to_string()
            } else {
                hex(other)
            };
            // verify the response MAC per RFC 8945 4.3 (response mode): request MAC with length,
            // the response before the TSIG RR with the original ID and ARCOUNT-1, the variables
            let macok = if msz == 0 {
                "-".to_string()
            } else {
                let owner_l = lower(&p.last_owner);
                let key = keylist.iter().find(|k| k.0 == owner_l);
                match key {
                    None => "nokey".to_string(),
                    Some((_, kalg, secret)) => {
                        let mut d = Vec::new();
                        d.extend_from_slice(&(reqmac_recv.len() as u16).to_be_bytes());
                        d.extend_from_slice(&reqmac_recv);
                        d.extend_from_slice(&(oid as u16).to_be_bytes());
                        d.extend_from_slice(&stripped[2..]);
                        d.extend_from_slice(&owner_l);
                        d.extend_from_slice(&[0, 255, 0, 0, 0, 0]);
                        d.extend_from_slice(&lower(&algname));
                        d.extend_from_slice(rts);
                        d.extend_from_slice(&(fudge as u16).to_be_bytes());
                        d.extend_from_slice(&(err as u16).to_be_bytes());
                        d.extend_from_slice(&(olen as u16).to_be_bytes());
                        d.extend_from_slice(other);
                        let want = hmac(kalg, secret, &d);
                        ((want == rmac) as u8).to_string()
                    }
                }
            };
            line += &format!(
                " same={same} tsig err={err} maclen={msz} ts={tsname} fudge={fudge} other={oname} oid={oid} key={} alg={} macok={macok}",
                hex(&p.last_owner),
                hex(&algname)
            );
            result = line;
            break;
        }
        result
    });
}
