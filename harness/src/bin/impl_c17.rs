//! C17: text and numeric conversions of Type/Class/Qtype/Qclass/Opcode/Rcode/ExtendedRcode.
//! Cases (see ocaml/run_c17.ml): `d <kind> <v>`, `p <kind> <hex>`, `n <hex>`, `o <v>`, `r <v>`, `x <v>`.
use quandary::class::Class;
use quandary::message::{ExtendedRcode, Opcode, Qclass, Qtype, Rcode};
use quandary::rr::Type;
use qv_harness::*;

fn show<T: Into<u16>>(r: Result<T, &'static str>, sep: &str) -> String {
    match r {
        Ok(v) => format!("ok{sep}{}", v.into()),
        Err(m) if m.starts_with("unknown") => format!("err{sep}unknown"),
        Err(m) if m.contains("not a valid unsigned 16-bit integer") => format!("err{sep}badnum"),
        Err(m) => format!("err{sep}?{m}"),
    }
}

fn parse(kind: &str, s: &str, sep: &str) -> String {
    match kind {
        "t" => show(s.parse::<Type>(), sep),
        "c" => show(s.parse::<Class>(), sep),
        "qt" => show(s.parse::<Qtype>(), sep),
        "qc" => show(s.parse::<Qclass>(), sep),
        _ => panic!("kind"),
    }
}

fn main() {
    run_lines(|f| match f[0] {
        "d" => {
            let v: u16 = f[2].parse().unwrap();
            let s = match f[1] {
                "t" => Type::from(v).to_string(),
                "c" => Class::from(v).to_string(),
                "qt" => Qtype::from(v).to_string(),
                "qc" => Qclass::from(v).to_string(),
                _ => panic!("kind"),
            };
            format!("ok {} back={}", hex(s.as_bytes()), parse(f[1], &s, ":"))
        }
        "p" => {
            let s = String::from_utf8(unhex(f[2])).expect("case text must be UTF-8");
            parse(f[1], &s, " ")
        }
        "n" => {
            let s = String::from_utf8(unhex(f[1])).expect("case text must be UTF-8");
            match s.parse::<u16>() {
                Ok(v) => format!("ok {v}"),
                Err(e) => format!("err {:?}", e.kind()),
            }
        }
        "o" => {
            let v: u8 = f[1].parse().unwrap();
            match Opcode::try_from(v) {
                Ok(c) => format!("ok {} {}", u8::from(c), hex(c.to_string().as_bytes())),
                Err(_) => "err".to_string(),
            }
        }
        "r" => {
            let v: u8 = f[1].parse().unwrap();
            match Rcode::try_from(v) {
                Ok(c) => format!(
                    "ok {} {} ext={}",
                    u8::from(c),
                    hex(c.to_string().as_bytes()),
                    u16::from(ExtendedRcode::from(c))
                ),
                Err(_) => "err".to_string(),
            }
        }
        "x" => {
            let v: u16 = f[1].parse().unwrap();
            let e = ExtendedRcode::from(v);
            let r = match Rcode::try_from(e) {
                Ok(r) => format!("ok:{}:{}", u8::from(r), hex(r.to_string().as_bytes())),
                Err(_) => "err".to_string(),
            };
            format!("ok {} u16={} rcode={}", hex(e.to_string().as_bytes()), u16::from(e), r)
        }
        _ => panic!("unknown op"),
    });
}
