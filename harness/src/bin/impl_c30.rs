//! C30: the I/O providers over real loopback sockets.
//!
//! Case lines (see checks/c30.py):
//!   tcp <prov> <end> <table> <conn> [<conn> ...]     conn = seg[@ms],seg[@ms],...
//!   udp <prov> <table> <sock> [<sock> ...]           sock = dgram,dgram,...   (`_` = empty datagram)
//! prov: b1 | b4 (BlockingIoProvider, two worker configurations), tk (Tokio, multi-thread
//! runtime), tk1 (Tokio, current-thread runtime); b1w | tkw: the same bound to 0.0.0.0, clients talking to 127.0.0.2.   end: eof | idle | eofslow (half-close, but the client
//! reads nothing before it has sent everything).
//! table = req=resp;req=none;...  — the response of Server::handle_message to each message
//! alone, computed by this binary in `--table` mode when the case was generated; it is
//! re-verified in-process here (a stale table is reported as `table-mismatch`).
//!
//! Result: per connection `<hex of every octet received>/<closed|closed-timeout|open>`,
//! per UDP client socket the sorted list of datagrams it received.
use std::collections::HashMap;
use std::io::{BufRead, Read, Write};
use std::net::{Ipv4Addr, Shutdown, SocketAddr, TcpListener, TcpStream, UdpSocket};
use std::sync::{Arc, Mutex};
use std::time::{Duration, Instant};

use quandary::class::Class;
use quandary::db::catalog::Entry;
use quandary::db::zone::GluePolicy;
use quandary::db::{HashMapTreeCatalog, HashMapTreeZone};
use quandary::io::{BlockingIoConfig, BlockingIoProvider, TokioIoProvider};
use quandary::name::Name;
use quandary::server::{ReceivedInfo, Response, Server, Transport};
use quandary::thread::ThreadGroup;
use quandary::zone_file::Parser;
use qv_harness::*;

type Cat = HashMapTreeCatalog<HashMapTreeZone, ()>;

fn zone_text() -> String {
    let mut z = String::new();
    z.push_str("$ORIGIN example.\n$TTL 3600\n");
    z.push_str("@ IN SOA ns1 admin 1 7200 3600 1209600 300\n@ IN NS ns1\nns1 IN A 192.0.2.1\n");
    z.push_str("www IN A 192.0.2.10\nwww IN A 192.0.2.11\n*.wild IN TXT \"wildcard\"\nalias IN CNAME www\n");
    for i in 0..40 {
        z.push_str(&format!("big IN TXT \"{:03}{}\"\n", i, "b".repeat(190)));
    }
    for i in 0..200 {
        z.push_str(&format!("huge IN TXT \"{:03}{}\"\n", i, "h".repeat(240)));
    }
    z
}

fn build_server() -> Arc<Server<Cat>> {
    let name: Box<Name> = "example.".parse().unwrap();
    let mut zone = HashMapTreeZone::new(name, Class::IN, GluePolicy::Narrow);
    let text = zone_text();
    for line in Parser::new(text.as_bytes()).records_only() {
        let line = line.expect("zone text parses");
        let r = line.record;
        zone.add(&r.owner, r.rr_type, r.class, r.ttl, &r.rdata).expect("zone add");
    }
    let mut cat = Cat::new();
    cat.insert(Entry::Loaded(Arc::new(zone), ()));
    Arc::new(Server::new(Arc::new(cat)))
}

/// Server::handle_message on the message alone, in-process.
fn in_process(server: &Server<Cat>, msg: &[u8], transport: Transport) -> Option<Option<Vec<u8>>> {
    let size = match transport {
        Transport::Tcp => u16::MAX as usize,
        Transport::Udp => server.edns_udp_payload_size() as usize,
    };
    guarded(|| {
        let mut buf = vec![0u8; size];
        let info = ReceivedInfo::new(Ipv4Addr::LOCALHOST.into(), transport);
        match server.handle_message(msg, info, &mut buf) {
            Response::Single(n) => Some(buf[..n].to_vec()),
            Response::None => None,
        }
    })
}

fn free_port(tcp: bool) -> u16 {
    if tcp {
        TcpListener::bind((Ipv4Addr::LOCALHOST, 0)).unwrap().local_addr().unwrap().port()
    } else {
        UdpSocket::bind((Ipv4Addr::LOCALHOST, 0)).unwrap().local_addr().unwrap().port()
    }
}

#[derive(Clone, Copy)]
struct Addrs {
    tcp: SocketAddr,
    udp: SocketAddr,
}

struct Providers {
    server: Arc<Server<Cat>>,
    started: HashMap<String, Addrs>,
    // kept alive for the life of the process
    groups: Vec<Arc<ThreadGroup>>,
    runtimes: Vec<tokio::runtime::Runtime>,
    controllers: Vec<quandary::io::TokioShutdownController>,
}

impl Providers {
    fn get(&mut self, prov: &str) -> Addrs {
        if let Some(a) = self.started.get(prov) {
            return *a;
        }
        // The providers have no accessor for the bound address: pick free ports and retry on a clash.
        // `<prov>w`: the same provider bound to the WILDCARD address 0.0.0.0 (the configuration in which the UDP socket
        // learns the destination of each request from IP_PKTINFO and must answer FROM that address); the clients then
        // talk to 127.0.0.2, an address routing would not pick as the reply source on its own.
        let wild = prov.ends_with('w');
        let base = prov.trim_end_matches('w');
        let (bind_ip, contact_ip) =
            if wild { (Ipv4Addr::UNSPECIFIED, Ipv4Addr::new(127, 0, 0, 2)) } else { (Ipv4Addr::LOCALHOST, Ipv4Addr::LOCALHOST) };
        for _ in 0..50 {
            let tcp = SocketAddr::from((bind_ip, free_port(true)));
            let udp = SocketAddr::from((bind_ip, free_port(false)));
            let prov = base;
            let ok = match prov {
                "b1" | "b4" => {
                    let config = if prov == "b1" {
                        BlockingIoConfig {
                            tcp_base_workers: 1,
                            tcp_worker_linger: Duration::from_millis(50),
                            udp_workers_per_socket: 1,
                        }
                    } else {
                        BlockingIoConfig {
                            tcp_base_workers: 4,
                            tcp_worker_linger: Duration::from_secs(2),
                            udp_workers_per_socket: 3,
                        }
                    };
                    match BlockingIoProvider::bind(config, [tcp], [udp]) {
                        Ok(p) => {
                            let group = ThreadGroup::new();
                            p.start(&self.server, &group).expect("start blocking provider");
                            self.groups.push(group);
                            true
                        }
                        Err(_) => false,
                    }
                }
                "tk" | "tk1" => {
                    let rt = if prov == "tk" {
                        tokio::runtime::Builder::new_multi_thread().worker_threads(2).enable_all().build().unwrap()
                    } else {
                        tokio::runtime::Builder::new_current_thread().enable_all().build().unwrap()
                    };
                    let server = self.server.clone();
                    if prov == "tk" {
                        let res = rt.block_on(async {
                            TokioIoProvider::bind([tcp], [udp]).await.map(|p| p.start(&server))
                        });
                        match res {
                            Ok(c) => {
                                self.controllers.push(c);
                                self.runtimes.push(rt);
                                true
                            }
                            Err(_) => false,
                        }
                    } else {
                        // a current-thread runtime only runs while something blocks on it
                        let (tx, rx) = std::sync::mpsc::channel();
                        std::thread::spawn(move || {
                            rt.block_on(async move {
                                match TokioIoProvider::bind([tcp], [udp]).await {
                                    Ok(p) => {
                                        let _c = p.start(&server);
                                        tx.send(true).unwrap();
                                        std::future::pending::<()>().await;
                                    }
                                    Err(_) => tx.send(false).unwrap(),
                                }
                            })
                        });
                        rx.recv().unwrap()
                    }
                }
                _ => panic!("unknown provider {prov}"),
            };
            if ok {
                let a = Addrs { tcp: SocketAddr::from((contact_ip, tcp.port())), udp: SocketAddr::from((contact_ip, udp.port())) };
                self.started.insert(format!("{prov}{}", if wild { "w" } else { "" }), a);
                // give listener threads a moment to reach accept/recv
                std::thread::sleep(Duration::from_millis(30));
                return a;
            }
        }
        panic!("could not bind provider {prov}");
    }
}

fn parse_table(s: &str) -> Vec<(Vec<u8>, Option<Vec<u8>>)> {
    if s == "-" {
        return Vec::new();
    }
    s.split(';')
        .map(|e| {
            let (k, v) = e.split_once('=').expect("table entry");
            let k = if k == "_" { Vec::new() } else { unhex(k) };
            (k, if v == "none" { None } else { Some(unhex(v)) })
        })
        .collect()
}

fn table_ok(server: &Server<Cat>, table: &[(Vec<u8>, Option<Vec<u8>>)], transport: Transport) -> bool {
    table.iter().all(|(req, resp)| match in_process(server, req, transport) {
        Some(r) => &r == resp,
        None => false,
    })
}

/// One TCP connection: send the segments (TCP_NODELAY, optional pause after each), then half-close
/// (`eof`) or go idle; a reader thread collects everything the server sends until it closes.
fn run_conn(addr: SocketAddr, conn: &str, end: &str) -> String {
    let mut stream = match TcpStream::connect(addr) {
        Ok(s) => s,
        Err(e) => return format!("connect-error:{:?}", e.kind()),
    };
    stream.set_nodelay(true).unwrap();
    if end == "eofslow" {
        // a slow reader with a SMALL receive buffer: the window it offers stays tiny, so the server's send queue fills
        // after a few hundred kilobytes and its writes come back short / would block
        use std::os::fd::AsRawFd;
        let sz: libc::c_int = 65536;
        unsafe {
            libc::setsockopt(
                stream.as_raw_fd(),
                libc::SOL_SOCKET,
                libc::SO_RCVBUF,
                &sz as *const _ as *const libc::c_void,
                std::mem::size_of::<libc::c_int>() as libc::socklen_t,
            );
        }
    }
    let mut rd = stream.try_clone().unwrap();
    let closed_at = Arc::new(Mutex::new(None::<Instant>));
    let closed_at2 = closed_at.clone();
    // `eofslow`: the client does not read anything until it has sent everything (plus a pause)
    let (go_tx, go_rx) = std::sync::mpsc::channel::<()>();
    let slow = end == "eofslow";
    let reader = std::thread::spawn(move || {
        if slow {
            let _ = go_rx.recv();
            std::thread::sleep(Duration::from_millis(400));
        }
        let mut got = Vec::new();
        let mut buf = vec![0u8; 70000];
        rd.set_read_timeout(Some(Duration::from_secs(9))).unwrap();
        let closed = loop {
            match rd.read(&mut buf) {
                Ok(0) => break true,
                Ok(n) => got.extend_from_slice(&buf[..n]),
                Err(e) if e.kind() == std::io::ErrorKind::Interrupted => continue,
                Err(e) if matches!(e.kind(), std::io::ErrorKind::WouldBlock | std::io::ErrorKind::TimedOut) => break false,
                Err(_) => break true, // connection reset: closed by the server with our data unread
            }
        };
        *closed_at2.lock().unwrap() = Some(Instant::now());
        (got, closed)
    });
    for seg in conn.split(',') {
        let (h, ms) = match seg.split_once('@') {
            Some((h, ms)) => (h, ms.parse::<u64>().unwrap()),
            None => (seg, 0),
        };
        let bytes = unhex(h);
        let _ = stream.write_all(&bytes); // after the server closed, writes fail: that is fine
        if ms > 0 {
            std::thread::sleep(Duration::from_millis(ms));
        }
    }
    let sent_at = Instant::now();
    if end == "eof" || end == "eofslow" {
        let _ = stream.shutdown(Shutdown::Write);
    }
    let _ = go_tx.send(());
    let (got, closed) = reader.join().unwrap();
    let status = if !closed {
        "open"
    } else {
        let t = closed_at.lock().unwrap().unwrap();
        if end == "idle" && t.saturating_duration_since(sent_at) >= Duration::from_millis(2500) {
            "closed-timeout"
        } else {
            "closed"
        }
    };
    format!("{}/{}", hex(&got), status)
}

/// One UDP client socket: sends its datagrams, collects what comes back.
fn run_udp_sock(addr: SocketAddr, sock: &str, expect: usize) -> String {
    let s = UdpSocket::bind((Ipv4Addr::LOCALHOST, 0)).unwrap();
    for d in sock.split(',') {
        let bytes = if d == "_" { Vec::new() } else { unhex(d) };
        s.send_to(&bytes, addr).unwrap();
        std::thread::sleep(Duration::from_micros(300));
    }
    let mut got: Vec<String> = Vec::new();
    let mut badsrc = false;
    let mut buf = vec![0u8; 70000];
    let deadline = Instant::now() + Duration::from_secs(3);
    // wait for the expected number, then a quiet period to catch extra datagrams
    loop {
        let wait = if got.len() >= expect {
            Duration::from_millis(120)
        } else {
            deadline.saturating_duration_since(Instant::now()).max(Duration::from_millis(1))
        };
        s.set_read_timeout(Some(wait)).unwrap();
        match s.recv_from(&mut buf) {
            Ok((n, from)) => {
                if from != addr {
                    badsrc = true;
                }
                got.push(hex(&buf[..n]));
            }
            Err(_) => break,
        }
        if Instant::now() >= deadline + Duration::from_secs(1) {
            break;
        }
    }
    got.sort();
    let mut r = if got.is_empty() { "-".to_string() } else { got.join(",") };
    if badsrc {
        r.push_str("/badsrc");
    }
    r
}

fn table_mode(server: &Server<Cat>) {
    let stdin = std::io::stdin();
    let stdout = std::io::stdout();
    let mut out = std::io::BufWriter::new(stdout.lock());
    for line in stdin.lock().lines() {
        let line = line.unwrap();
        let f: Vec<&str> = line.split_whitespace().collect();
        if f.len() != 2 {
            continue;
        }
        let t = if f[0] == "tcp" { Transport::Tcp } else { Transport::Udp };
        let msg = if f[1] == "_" { Vec::new() } else { unhex(f[1]) };
        let r = match in_process(server, &msg, t) {
            Some(Some(r)) => hex(&r),
            Some(None) => "none".to_string(),
            None => "panic".to_string(),
        };
        writeln!(out, "{r}").unwrap();
    }
}

fn main() {
    let server = build_server();
    if std::env::args().any(|a| a == "--table") {
        quiet_panics();
        table_mode(&server);
        return;
    }
    let provs = Mutex::new(Providers {
        server: server.clone(),
        started: HashMap::new(),
        groups: Vec::new(),
        runtimes: Vec::new(),
        controllers: Vec::new(),
    });
    run_lines(|f| {
        match f[0] {
            "tcp" => {
                let (prov, end, table) = (f[1], f[2], parse_table(f[3]));
                if !table_ok(&server, &table, Transport::Tcp) {
                    return "table-mismatch".to_string();
                }
                let addr = provs.lock().unwrap().get(prov).tcp;
                let handles: Vec<_> = f[4..]
                    .iter()
                    .map(|c| {
                        let c = c.to_string();
                        let end = end.to_string();
                        std::thread::spawn(move || run_conn(addr, &c, &end))
                    })
                    .collect();
                let outs: Vec<String> = handles.into_iter().map(|h| h.join().unwrap()).collect();
                outs.join(" ")
            }
            "udp" => {
                let (prov, table) = (f[1], parse_table(f[2]));
                if !table_ok(&server, &table, Transport::Udp) {
                    return "table-mismatch".to_string();
                }
                let addr = provs.lock().unwrap().get(prov).udp;
                let psize = server.edns_udp_payload_size() as usize;
                let handles: Vec<_> = f[3..]
                    .iter()
                    .map(|s| {
                        let s = s.to_string();
                        // how many answers to wait for before the quiet period (from the verified table)
                        let expect = s
                            .split(',')
                            .filter(|d| {
                                let b = if *d == "_" { Vec::new() } else { unhex(d) };
                                let key = &b[..b.len().min(psize)];
                                table.iter().any(|(k, v)| k.as_slice() == key && v.is_some())
                            })
                            .count();
                        std::thread::spawn(move || run_udp_sock(addr, &s, expect))
                    })
                    .collect();
                let outs: Vec<String> = handles.into_iter().map(|h| h.join().unwrap()).collect();
                outs.join(" ")
            }
            _ => panic!("unknown op"),
        }
    });
    // the provider threads never end by themselves
    std::process::exit(0);
}
