//! Shared helpers for the implementation-side runners (`src/bin/impl_*.rs`).
//! Each runner reads one case per line on stdin and prints one canonical result
//! line per case on stdout; the extracted Coq model (`/verif/ocaml/run_*.ml`)
//! prints the same lines for the same cases and `check` diffs them.
use std::io::{self, BufRead, Write};
use std::panic::{self, AssertUnwindSafe};

pub fn unhex(s: &str) -> Vec<u8> {
    let s = s.trim();
    if s == "-" || s.is_empty() {
        return Vec::new();
    }
    let b = s.as_bytes();
    assert!(b.len() % 2 == 0, "odd hex length: {s}");
    (0..b.len() / 2)
        .map(|i| u8::from_str_radix(&s[2 * i..2 * i + 2], 16).expect("bad hex"))
        .collect()
}

pub fn hex(b: &[u8]) -> String {
    if b.is_empty() {
        return "-".to_string();
    }
    let mut s = String::with_capacity(b.len() * 2);
    for x in b {
        s.push_str(&format!("{x:02x}"));
    }
    s
}

/// Runs `f`, mapping an unwinding panic to `None`.
pub fn guarded<T>(f: impl FnOnce() -> T) -> Option<T> {
    panic::catch_unwind(AssertUnwindSafe(f)).ok()
}

/// Installs a silent panic hook (panics are outcomes, not noise).
pub fn quiet_panics() {
    // QV_LOUD=1 keeps the default hook (panic message and location on stderr) for debugging a replay
    if std::env::var_os("QV_LOUD").is_none() {
        panic::set_hook(Box::new(|_| {}));
    }
}

/// Drives a runner: for every non-empty, non-comment stdin line call `f(fields)`
/// and print the string it returns.
pub fn run_lines(mut f: impl FnMut(&[&str]) -> String) {
    quiet_panics();
    let stdin = io::stdin();
    let stdout = io::stdout();
    let mut out = io::BufWriter::new(stdout.lock());
    for line in stdin.lock().lines() {
        let line = line.expect("stdin");
        let t = line.trim();
        if t.is_empty() || t.starts_with('#') {
            continue;
        }
        let fields: Vec<&str> = t.split_whitespace().collect();
        let r = match guarded(|| f(&fields)) {
            Some(s) => s,
            None => "panic".to_string(),
        };
        writeln!(out, "{r}").unwrap();
    }
    out.flush().unwrap();
}

pub mod srvcase;
