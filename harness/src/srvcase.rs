//! Shared by the server-level runners: building a `Server` from a case description and
//! rendering a response canonically (decoded with the crate's own Reader; the raw octets are
//! appended so that independent decoders can be run on them as well).
use quandary::class::Class;
use quandary::db::catalog::Entry;
use quandary::db::zone::GluePolicy;
use quandary::db::{HashMapTreeCatalog, HashMapTreeZone, SingleZoneCatalog};
use quandary::message::tsig::Algorithm;
use quandary::message::Reader;
use quandary::name::Name;
use quandary::rr::{Rdata, Ttl, Type};
use quandary::server::{Server, TsigKeyMap};
use std::convert::TryFrom;
use std::sync::Arc;

use crate::{hex, unhex};

pub type CatalogImpl = HashMapTreeCatalog<HashMapTreeZone, ()>;

pub fn name_of_wire(h: &str) -> Box<Name> {
    Name::try_from_uncompressed_all(&unhex(h)).expect("bad name in case")
}

/// `-` or `class,namewire,L|N|F[,owner/type/ttl/rdata+...];...`
pub fn build_catalog(spec: &str) -> CatalogImpl {
    let mut cat = CatalogImpl::new();
    if spec == "-" {
        return cat;
    }
    for e in spec.split(';') {
        let p: Vec<&str> = e.split(',').collect();
        let class = Class::from(p[0].parse::<u16>().unwrap());
        let name = name_of_wire(p[1]);
        if p[2] == "R" {
            // `class,name,R`: Catalog::remove of that (name, class) at this point of the configuration history
            let _ = cat.remove(&name, class);
            continue;
        }
        cat.insert(entry_of(&p, name, class));
    }
    cat
}

fn entry_of(p: &[&str], name: Box<Name>, class: Class) -> Entry<HashMapTreeZone, ()> {
    match p[2] {
        "N" => Entry::NotYetLoaded(name, class, ()),
        "F" => Entry::FailedToLoad(name, class, ()),
        _ => {
            let mut z = HashMapTreeZone::new(name, class, GluePolicy::Narrow);
            if p.len() > 3 && !p[3].is_empty() {
                for r in p[3].split('+') {
                    let q: Vec<&str> = r.split('/').collect();
                    let owner = name_of_wire(q[0]);
                    let ty = Type::from(q[1].parse::<u16>().unwrap());
                    let ttl = Ttl::from(q[2].parse::<u32>().unwrap());
                    let rd = unhex(q[3]);
                    let rdata = <&Rdata>::try_from(&rd[..]).unwrap();
                    let _ = z.add(&owner, ty, class, ttl, rdata);
                }
            }
            Entry::Loaded(Arc::new(z), ())
        }
    }
}

pub type SingleCatalogImpl = SingleZoneCatalog<HashMapTreeZone, ()>;

/// The other `Catalog` implementation of the crate: a catalog description with exactly one entry (and no
/// removal) served through `SingleZoneCatalog`.
pub fn build_server_single(edns: u16, catalog: &str, keys: &str) -> Option<Server<SingleCatalogImpl>> {
    if catalog == "-" || catalog.contains(';') {
        return None;
    }
    let p: Vec<&str> = catalog.split(',').collect();
    if p[2] == "R" {
        return None;
    }
    let class = Class::from(p[0].parse::<u16>().unwrap());
    let entry = entry_of(&p, name_of_wire(p[1]), class);
    let mut s = Server::new(Arc::new(SingleZoneCatalog::new(entry)));
    s.set_edns_udp_payload_size(edns).expect("edns size");
    s.set_tsig_keys(Arc::new(build_keys(keys)));
    Some(s)
}

/// `-` or `namewire,1|256,keyhex;...`
pub fn build_keys(spec: &str) -> TsigKeyMap {
    let mut m = TsigKeyMap::new();
    if spec == "-" {
        return m;
    }
    for e in spec.split(';') {
        let p: Vec<&str> = e.split(',').collect();
        let alg = if p[1] == "1" { Algorithm::HmacSha1 } else { Algorithm::HmacSha256 };
        m.insert(name_of_wire(p[0]), (alg, unhex(p[2]).into_boxed_slice()));
    }
    m
}

pub fn build_server(edns: u16, catalog: &str, keys: &str) -> Server<CatalogImpl> {
    let mut s = Server::new(Arc::new(build_catalog(catalog)));
    s.set_edns_udp_payload_size(edns).expect("edns size");
    s.set_tsig_keys(Arc::new(build_keys(keys)));
    s
}

fn raw_u32(b: &[u8], at: usize) -> u32 {
    u32::from_be_bytes([b[at], b[at + 1], b[at + 2], b[at + 3]])
}

/// Canonical rendering of a response message.
pub fn render(resp: &[u8]) -> String {
    let mut r = match Reader::try_from(resp) {
        Ok(r) => r,
        Err(_) => return format!("resp undecodable-header raw={}", hex(resp)),
    };
    let z = (resp[3] >> 4) & 0x7;
    let mut s = format!(
        "resp len={} id={} qr={} aa={} tc={} rd={} ra={} z={} op={} rc={} qd={} an={} ns={} ar={}",
        resp.len(), r.id(), r.qr() as u8, r.aa() as u8, r.tc() as u8, r.rd() as u8, r.ra() as u8, z,
        u8::from(r.opcode()), u8::from(r.rcode()), r.qdcount(), r.ancount(), r.nscount(), r.arcount()
    );
    let mut ok = true;
    s.push_str(" Q=[");
    for i in 0..r.qdcount() {
        match r.read_question() {
            Ok(q) => {
                if i > 0 { s.push(','); }
                s.push_str(&format!("{}/{}/{}", hex(q.qname.wire_repr()), u16::from(q.qtype), u16::from(q.qclass)));
            }
            Err(_) => { ok = false; break; }
        }
    }
    s.push(']');
    for (label, count) in [("AN", r.ancount()), ("NS", r.nscount()), ("AR", r.arcount())] {
        s.push_str(&format!(" {label}=["));
        if ok {
            for i in 0..count {
                let start = r.message_to_cursor().len();
                match r.read_rr() {
                    Ok(rr) => {
                        if i > 0 { s.push(','); }
                        let nlen = Name::skip_compressed(&resp[start..]).unwrap_or(0);
                        let raw_ttl = if start + nlen + 8 <= resp.len() { raw_u32(resp, start + nlen + 4) } else { 0 };
                        s.push_str(&format!("{}/{}/{}/{}/{}", hex(rr.owner.wire_repr()), u16::from(rr.rr_type),
                            u16::from(rr.class), raw_ttl, hex(rr.rdata.octets())));
                    }
                    Err(_) => { ok = false; break; }
                }
            }
        }
        s.push(']');
    }
    if !ok || !r.at_eom() {
        s.push_str(if ok { " trailing" } else { " undecodable" });
    }
    s.push_str(&format!(" raw={}", hex(resp)));
    s
}
